#!/bin/sh
# Run once after a fresh restore (offline): regenerate the translated Lean files from /repo,
# build every Lean module (all proofs) and the model driver, and pre-build the sanitizer
# library used by the harnesses. Every check redoes these steps incrementally.
set -e
d="$(cd "$(dirname "$0")" && pwd)"
cd "$d"
python3 - <<'PY'
import sys, os
sys.path.insert(0, os.path.join(os.getcwd(), "lib"))
import verif
for f, rc, msg in verif.regenerate():
    print(f, rc, msg)
    if rc != 0:
        sys.exit(1)
ok, log = verif.lake_build([])
print(log[-3000:])
if not ok:
    sys.exit(1)
lib, err = verif.build_lib()
print(lib or err)
sys.exit(0 if lib else 1)
PY
