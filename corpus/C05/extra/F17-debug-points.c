#include <stdio.h>
#include <stdlib.h>
#include <string.h>
#include "src/misc.h"
#include "src/decoder.h"
#include "src/raw_decoder.h"
int main(void){
  vbi_sampling_par sp; memset(&sp,0,sizeof sp);
  sp.scanning=625; sp.sampling_format=VBI_PIXFMT_YUV420; sp.sampling_rate=13500000; sp.bytes_per_line=2048; sp.offset=0;
  sp.start[0]=7; sp.count[0]=2; sp.start[1]=320; sp.count[1]=2; sp.interlaced=0; sp.synchronous=1;
  vbi3_raw_decoder *rd=vbi3_raw_decoder_new(&sp);
  printf("debug=%d\n", vbi3_raw_decoder_debug(rd,1));
  printf("svc=%x\n", vbi3_raw_decoder_add_services(rd,3,0));
  size_t n=4*2048; unsigned char *img=malloc(n); unsigned i;
  /* square wave at about the CRI clock: many clock ticks, no framing code */
  for(i=0;i<n;i++) img[i]=((i%4)<2)?200:40;
  vbi_sliced out[4];
  unsigned r=vbi3_raw_decoder_decode(rd,out,4,img);
  printf("n=%u\n",r);
  vbi3_raw_decoder_delete(rd); free(img); return 0; }
