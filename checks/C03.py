#!/usr/bin/env python3
"""C03 - transmission errors in Teletext are corrected or contained, never shown as data.

Correspondence: whole transmissions (sender spec in lib/ttx_util.py) through vbi_decode on the real
code and through the Lean model `Ttx.step`, compared op by op (return value, assembly state, events)
and on dumps (cached set in hash-chain order, raw cached pages, assembly pages, page statistics,
magazine tables, network state).
Oracle (independent of the model, on the C output only):
  * twin cases `clean ; reset ; faulted`: a single bit error in any Hamming protected byte/triplet
    -> identical dumps and events; a double error in the address -> identical to the dropped packet;
  * containment on every case: every cached (pgno, subno) was transmitted, every cached LOP row is
    blank, or one of the rows transmitted for that page (X/26 columns excepted), and has odd parity;
    every TTX_PAGE event names a transmitted page.
"""
import os, re, sys
sys.path.insert(0, os.path.join(os.path.dirname(os.path.abspath(__file__)), "..", "lib"))
import verif
import ttx_util as T

hx = T.hx
DATE = " Mon 01 Jan "


def hdr_text(pgno, sec):
    s = "ZV %03X" % pgno + DATE + "TESTTEXT".ljust(12)
    s = s[:24].ljust(24)
    clock = "12:%02d:%02d" % ((sec // 60) % 60, sec % 60)
    return [ord(c) for c in s + clock]


def fix_flags():
    """ttxFix* flags of lean/ZvbiModel/Generated/TtxLayout.lean (written by translate/gen_ttx.py from packet.c)"""
    p = os.path.join(verif.LEAN, "ZvbiModel", "Generated", "TtxLayout.lean")
    try:
        return dict((m.group(1), m.group(2) == "true") for m in re.finditer(r"def (ttxFix\w+) : Bool := (\w+)", open(p).read()))
    except OSError:
        return {}


def rnd_row(rng):
    k = rng.random()
    if k < 0.15:
        return [0x20] * 40
    if k < 0.3:
        return [rng.randrange(0x80) for _ in range(40)]
    return [rng.choice([0x20, 0x41 + rng.randrange(26), 0x61 + rng.randrange(26), 0x30 + rng.randrange(10)])
            for _ in range(40)]


class Tx:
    """a transmission: list of (packet bytes, tag) plus what the sender knows"""

    def __init__(self):
        self.pk = []          # (bytes, tag)
        self.sent_pages = set()      # (pgno, subno & 0x3F7F)
        self.rows = {}        # pgno -> set of tuple(40 bytes with parity) ever transmitted as rows 1..25
        self.mags = set()
        self.sec = 0
        self.x26cols = {}     # pgno -> True when X/26 was sent (columns may get parity fixed)

    def add(self, b, tag, pgno=None):
        assert len(b) == 42
        self.pk.append((list(b), tag))
        if pgno is not None:
            # payload of a packet 1..25 sent while `pgno` is the page in progress
            self.rows.setdefault(pgno, set()).add(tuple(b[2:]))

    def page(self, rng, mag, page, subno=0, rows=None, serial=0, erase=0, x26=None, x27=False, x28=False,
             flags=None, national=0, shuffle=False):
        pgno = (mag if mag else 8) * 256 + page
        mag8 = mag if mag else 8
        self.mags.add(mag8)
        self.sec += 1
        fl = dict(c4=erase, c11=serial)
        if flags:
            fl.update(flags)
        self.add(T.header(mag8, page, subno, national=national, text=hdr_text(pgno, self.sec), **fl), "hdr")
        if page != 0xFF:
            self.sent_pages.add((pgno, subno & 0x3F7F))
        body = []
        for n, chars in (rows or {}).items():
            r = T.row(mag8, n, chars)
            self.rows.setdefault(pgno, set()).add(tuple(r[2:]))
            body.append((r, "row"))
        if x26:
            cols = self.x26cols.setdefault(pgno, set())
            for trips in x26:
                for a, m, _ in trips:
                    if a < 40 and (m in (1, 2, 0xB, 8, 9, 0xD, 0xF) or 0x10 <= m <= 0x1F):
                        cols.add(a)
            for d, trips in enumerate(x26):
                body.append((T.x26(mag8, d, trips), "x26"))
        if x27:
            links = [(rng.choice([0x100, 0x1FF, 0x234, 0x8FF, pgno]), rng.choice([0x3F7F, 0, 1])) for _ in range(6)]
            body.append((T.x27_0(mag8, links, rng.choice([0xF, 0x7, 0])), "x27"))
        if x28:
            body.append((T.x28_format1(mag8, 28, rng.choice([0, 0, 4]), function=rng.choice([0, 0, 0, 3]),
                                       cs0=rng.randrange(128), cs1=rng.randrange(128), lp=rng.randrange(2),
                                       rp=rng.randrange(2), lcols=rng.randrange(16),
                                       colors=[rng.randrange(4096) for _ in range(16)], screen=rng.randrange(32),
                                       rowc=rng.randrange(32), bbg=rng.randrange(2), remap=rng.randrange(8)), "x28"))
        if shuffle:
            rng.shuffle(body)
        for b, t in body:
            self.add(b, t)

    def flush(self, serial=0):
        for m in sorted(self.mags):
            self.sec += 1
            self.add(T.header(m, 0xFF, 0x3F7F, c11=serial, text=hdr_text(m * 256 + 0xFF, self.sec)), "hdr")


def rnd_x26(rng):
    n = rng.choice([1, 1, 2, 3])
    out = []
    for _ in range(n):
        trips = []
        for _ in range(rng.choice([3, 13, 13])):
            k = rng.random()
            if k < 0.3:
                trips.append((40 + rng.randrange(24), rng.choice([1, 4, 7, 0x10]), rng.randrange(128)))
            elif k < 0.9:
                trips.append((rng.randrange(40), rng.choice([1, 2, 3, 8, 9, 0xB, 0xD, 0xF, 0x10, 0x15, 0x1F, 0]), rng.randrange(128)))
            else:
                trips.append((rng.randrange(64), rng.randrange(32), rng.randrange(128)))
        out.append(trips)
    return out


def gen_tx(rng, small=False, mags=None):
    tx = Tx()
    serial = 1 if rng.random() < 0.3 else 0
    mags = mags or rng.sample([1, 2, 3, 4, 8], rng.choice([1, 1, 2, 3]))
    pool = {m: [rng.choice([0x00, 0x01, 0x10, 0x23, 0x99, 0x42, 0x1A, 0xAB]) for _ in range(3)] for m in mags}
    npages = rng.randrange(2, 5 if small else 10)
    for _ in range(npages):
        m = rng.choice(mags)
        page = rng.choice(pool[m])
        subno = rng.choice([0, 0, 0, 1, 2, 0x0012, 0x1234, 0x2359, 0x0080 & 0])
        nrows = rng.choice([0, 1, 3, 24, 25]) if not small else rng.choice([1, 2, 3])
        rows = {n: rnd_row(rng) for n in rng.sample(range(1, 26), nrows)}
        flags = {}
        if rng.random() < 0.15:
            flags[rng.choice(["c5", "c6", "c7", "c8", "c9", "c10"])] = 1
        tx.page(rng, m, page, subno, rows, serial=serial, erase=1 if rng.random() < 0.3 else 0,
                x26=rnd_x26(rng) if rng.random() < 0.25 else None, x27=rng.random() < 0.3,
                x28=rng.random() < 0.15, flags=flags, national=rng.randrange(8), shuffle=rng.random() < 0.3)
        if rng.random() < 0.1:
            tx.add(T.p830(rng.choice([0, 1, 2, 3]), rng.choice([0x100, 0x1FF, 0x345]), rng.choice([0x3F7F, 0])), "830")
    tx.flush(serial)
    return tx


def interleave(rng, txs):
    """parallel magazines: merge several single-magazine transmissions keeping each one's order"""
    idx = [0] * len(txs)
    out = []
    live = [i for i, t in enumerate(txs) if t.pk]
    while live:
        i = rng.choice(live)
        out.append(txs[i].pk[idx[i]])
        idx[i] += 1
        if idx[i] >= len(txs[i].pk):
            live.remove(i)
    return out


def system_pages(rng):
    """MOT, MIP, BTT (+ AIT/MPT/MPT-EX via BTT links), POP and DRCS pages via MIP types"""
    tx = Tx()
    m = rng.choice([1, 2, 8])
    mag8 = m
    # MIP first so that later pages get their function from the page type
    codes = {}
    def mip_rows():
        rows = {}
        for packet in range(1, 9):
            nib = []
            for i in list(range(10)) + list(range(0x10, 0x1A)):
                code = rng.choice([0x00, 0x01, 0x05, 0x50, 0x51, 0x70, 0x77, 0x7B, 0x81, 0xE3, 0xE5, 0xE6, 0xE7, 0xF8, 0xFC, 0xFE, 0xFF, 0x52])
                nib += [code & 15, code >> 4]
            rows[packet] = nib
        for packet in range(9, 15):
            nib = []
            for _ in range(6 if packet == 14 else 18):
                code = rng.choice([0x00, 0x01, 0xE5, 0xE6, 0xE8, 0xEC, 0xFF, 0x02])
                nib += [code & 15, code >> 4]
            nib += [rng.randrange(16) for _ in range(40 - len(nib))]
            rows[packet] = nib
        for packet in range(15, 26):
            rows[packet] = [rng.randrange(16) for _ in range(40)]
        return rows
    def emit_h8(page, rows, subno=0, tag="h8row"):
        tx.mags.add(mag8)
        tx.sec += 1
        tx.add(T.header(mag8, page, subno, text=hdr_text(mag8 * 256 + page, tx.sec)), "hdr")
        if page != 0xFF:
            tx.sent_pages.add((mag8 * 256 + page, subno))
        for n, nib in rows.items():
            tx.add(T.h8row(mag8, n, nib), tag, mag8 * 256 + page)
    typed = rng.random() < 0.6
    if typed:
        # a MIP declaring m05, m15, m3A as POP (0xE6) and m06, m16, m3B as DRCS (0xE5), terminated by the next header
        def pairs(codes):
            return sum([[c & 15, c >> 4] for c in codes], [])
        r1 = pairs([0x01] * 5 + [0xE6, 0xE5] + [0x01] * 3 + [0x01] * 5 + [0xE6, 0xE5] + [0x01] * 3)
        r10 = pairs([0xE6, 0xE5] + [0x00] * 4 + [0x00] * 12) + [0, 0, 0, 0]
        emit_h8(0xFD, {1: r1, 10: r10})
    kinds = rng.sample(["mip", "mot", "btt", "pop", "drcs", "lop", "mip"], rng.choice([2, 3, 4]))
    if typed:
        # (a BTT or a second MIP would overwrite the page types the POP/DRCS tagging relies on)
        kinds = [k for k in kinds if k not in ("mip", "btt")] or ["pop"]
    for kind in kinds:
        if kind == "mip":
            rows = mip_rows()
            emit_h8(0xFD, {n: rows[n] for n in rng.sample(sorted(rows), rng.choice([3, 8, 25]))})
        elif kind == "mot":
            rows = {n: [rng.randrange(16) for _ in range(40)] for n in rng.sample(range(1, 26), rng.choice([3, 10, 25]))}
            emit_h8(0xFE, rows)
        elif kind == "btt":
            mag8_save = mag8
            mag8 = 1
            rows = {}
            for n in rng.sample(range(1, 21), rng.choice([2, 6, 20])):
                rows[n] = [rng.choice([0, 1, 2, 3, 4, 5, 6, 7, 8, 10, 12]) for _ in range(40)]
            # links in packets 21, 22 (packet 23 is the btt_link overflow, exercised by the corpus only)
            for n in rng.sample([21, 22], rng.choice([0, 1, 2])):
                nib = []
                for _ in range(5):
                    pg = rng.choice([0x1F1, 0x1F2, 0x2F0, 0x0FF, 0x900])
                    nib += [pg >> 8, (pg >> 4) & 15, pg & 15, 0, 0, 0, rng.randrange(3), rng.choice([1, 2, 3, 0])]
                rows[n] = nib
            emit_h8(0xF0, rows)
            # pages the links may point to
            for pg in rng.sample([0xF1, 0xF2], rng.choice([0, 1, 2])):
                rows = {n: [rng.randrange(16) for _ in range(40)] for n in rng.sample(range(1, 24), 4)}
                emit_h8(pg, rows, tag="h8maybe")
            mag8 = mag8_save
        elif kind == "pop":
            # a page whose MIP type says POP (0xE6): rows are designation + 13 triplets
            page = rng.choice([0x05, 0x15, 0x3A])
            tx.mags.add(mag8); tx.sec += 1
            tx.add(T.header(mag8, page, 0, text=hdr_text(mag8 * 256 + page, tx.sec)), "hdr")
            tx.sent_pages.add((mag8 * 256 + page, 0))
            for n in rng.sample(range(1, 26), rng.choice([2, 6])):
                # packet 4 with odd designation is the pop.pointer overflow, exercised by the corpus only
                desig = rng.randrange(16)
                if n == 4:
                    desig &= ~1
                tx.add(T.x28_0(mag8, n, desig, [rng.randrange(1 << 18) for _ in range(13)]), "poprow" if typed else "row?", mag8 * 256 + page)
            if rng.random() < 0.5:
                tx.add(T.x28_0(mag8, 26, rng.randrange(16), [rng.randrange(1 << 18) for _ in range(13)]), "poprow" if typed else "row?")
        elif kind == "drcs":
            page = rng.choice([0x06, 0x16, 0x3B])
            tx.mags.add(mag8); tx.sec += 1
            tx.add(T.header(mag8, page, 0, text=hdr_text(mag8 * 256 + page, tx.sec)), "hdr")
            tx.sent_pages.add((mag8 * 256 + page, 0))
            if rng.random() < 0.6:
                # mode 3 (DRCS_MODE_6_5_4) makes convert_drcs() write behind drcs.chars[] (finding F18, see NOTES):
                # the corrupted decoder memory is not modelled, so generated streams avoid it
                modes = list(range(16)) if fix_flags().get("ttxFixF22") else [0, 1, 2, 4, 14, 15]
                f = [(rng.choice([4, 5, 5, 0]), 4), (0, 3), (0, 11)] + [(rng.choice(modes), 4) for _ in range(48)]
                tx.add(T.x28_0(mag8, 28, 3, T.pack_bits(f)), "x28")
            for n in rng.sample(range(1, 25), rng.choice([1, 4])):
                tx.add(T.row(mag8, n, [0x40 + rng.randrange(0x40) for _ in range(40)]), "drcsrow", mag8 * 256 + page)
        else:
            page = rng.choice([0x00, 0x05, 0x06, 0x15, 0x16])
            rows = {n: rnd_row(rng) for n in rng.sample(range(1, 26), 3)}
            tx.page(rng, mag8, page, rng.choice([0, 1]), rows, x26=rnd_x26(rng) if rng.random() < 0.3 else None,
                    x27=rng.random() < 0.3)
        if rng.random() < 0.3:
            tx.add(T.x28_format1(mag8, 29, rng.choice([0, 4, 1]), cs0=rng.randrange(128), colors=[rng.randrange(4096) for _ in range(16)]), "m29")
    tx.flush()
    return tx


def dumps(tx, full=True):
    ops = ["cached"]
    for pg, sn in sorted(tx.sent_pages):
        ops.append("page 0x%x 0x%x" % (pg, sn))
        if sn:
            ops.append("page 0x%x 0" % pg)
    for m in sorted(tx.mags):
        ops.append("asm %d" % (m & 7))
    ops += ["stat", "net"]
    if full:
        for m in sorted(tx.mags):
            ops.append("mag %d" % m)
    return ops


PROT = {
    # tag -> relative positions (0..41) read through Hamming accessors, i.e. where a single bit flip must be invisible
    "hdr": list(range(0, 10)),
    "row": [0, 1], "drcsrow": [0, 1],
    "x26": list(range(0, 42)), "x28": list(range(0, 42)), "m29": list(range(0, 42)), "poprow": list(range(0, 42)),
    "x27": list(range(0, 40)), "830": list(range(0, 9)), "h8row": list(range(0, 42)),
}


def stream_ops(pk, handler=True, dropped=None):
    ops = ["handler 1"] if handler else []
    for i, (b, tag) in enumerate(pk):
        if dropped is not None and i == dropped:
            continue
        ops.append("pktd " + hx(b))
    return ops


class C03(verif.Spec):
    prop = "C03"
    comp = "ttx"
    lean_modules = ["ZvbiModel.Props.C03"]
    harness = "ttx_harness"
    harness_link_lib = True
    timeout_per_case = 8.0
    partial_note = ("Level 1/1.5 page assembly is modelled completely; contents of POP/DRCS/AIT pages (union members "
                    "aliasing the LOP fields) are not modelled, only their index arithmetic; event masks other than "
                    "TTX_PAGE are not modelled; MIP rows are stored raw and decoded at page end, so single-error "
                    "invisibility for them is a statement about the decode at page end, not about the stored bytes")
    assumptions = ["no client holds a page reference while decoding (reference counts belong to C10)",
                   "cache memory limit (2^30) is not reached", "frames arrive with regular time stamps except at `gap`"]
    trusted_base = ["harness/ttx_harness.c + lean/Driver/Ttx.lean (correspondence on generated transmissions)",
                    "lib/ttx_util.py: sender-side encoders written from EN 300 706 (checked against the Hamm model)",
                    "cache abstracted as an MRU list (joined with the C10 cache model through put/touch events)"]
    open_statements = ["single-error invisibility of the *stored bytes* of MIP rows (stored raw, decoded at page end; the decode is covered)",
                       "bisimulation: raw[0][0..7] (verbatim header Hamming bytes) is never read by later steps (only same_clock does, vacuously: F24)",
                       "refinement of the MRU-list cache abstraction by the C10 cache model (joined through Event.put / Aux.touch)",
                       "bad_header_refused_full / subpage_number_is_transmitted_full: proved under ttxFixF21 = true (current tree), refuted for the unrepaired code"]

    def __init__(self):
        self.meta = {}

    # ------------------------------------------------------------------ generators
    def gen_cases(self, rng, tier):
        quick = tier == "quick"
        cases = []
        cases.append(["sizes", "charsets", "net", "stat", "mag 1", "mag 8", "asm 0", "handler 1", "net", "mag 3", "cached"])
        # 1. structured clean transmissions
        for _ in range(160 if quick else 1200):
            k = rng.random()
            if k < 0.5:
                tx = gen_tx(rng)
                pk = tx.pk
            elif k < 0.75:
                ms = rng.sample([1, 2, 3, 4, 8], 2)
                txs = [gen_tx(rng, small=True, mags=[m]) for m in ms]
                tx = txs[0]
                for t in txs[1:]:
                    tx.sent_pages |= t.sent_pages; tx.mags |= t.mags
                    for p, r in t.rows.items():
                        tx.rows.setdefault(p, set()).update(r)
                    for k_, v_ in t.x26cols.items():
                        tx.x26cols.setdefault(k_, set()).update(v_)
                pk = interleave(rng, txs)
            else:
                tx = system_pages(rng)
                pk = tx.pk
            ops = stream_ops(pk)
            if rng.random() < 0.2:
                pos = rng.randrange(1, len(ops) + 1)
                ops.insert(pos, "gap")
            if rng.random() < 0.1:
                ops = [o.replace("pktd ", "pkt ") for o in ops]
            c = self.tag(ops + dumps(tx), "clean", tx)
            cases.append(c)
        # 2. fault twins: every bit of some packets (quick: sampled), single errors in protected bytes
        for _ in range(40 if quick else 200):
            tx = gen_tx(rng, small=True) if rng.random() < 0.75 else system_pages(rng)
            pk = tx.pk
            cand = [(i, pos) for i, (b, tag) in enumerate(pk) for pos in PROT.get(tag, [0, 1])]
            rng.shuffle(cand)
            d = dumps(tx)
            clean = stream_ops(pk) + d
            for (i, pos) in cand[: (10 if quick else 60)]:
                bit = rng.randrange(8)
                f = [(list(b), t) for b, t in pk]
                f[i] = (T.flip(f[i][0], pos, bit), f[i][1])
                c = ["note twin single pkt=%d tag=%s pos=%d bit=%d" % (i, pk[i][1], pos, bit)] + clean + ["reset"] + stream_ops(f) + d
                cases.append(self.tag(c, "single", tx))
        # 3. exhaustive single flips of one packet of each kind (all 336 positions) - thorough only in full
        tx = gen_tx(rng, small=True)
        kinds_seen = set()
        for i, (b, tag) in enumerate(tx.pk):
            if tag in kinds_seen or tag not in PROT:
                continue
            kinds_seen.add(tag)
            d = dumps(tx, full=False)
            clean = stream_ops(tx.pk) + d
            positions = PROT[tag] if not quick else rng.sample(PROT[tag], min(4, len(PROT[tag])))
            for pos in positions:
                for bit in (range(8) if not quick else [rng.randrange(8)]):
                    f = [(list(x), t) for x, t in tx.pk]
                    f[i] = (T.flip(f[i][0], pos, bit), f[i][1])
                    c = ["note twin single pkt=%d tag=%s pos=%d bit=%d" % (i, tag, pos, bit)] + clean + ["reset"] + stream_ops(f) + d
                    cases.append(self.tag(c, "single", tx))
        # 4. double errors: address (must equal the dropped packet), header bytes, row parity, bursts
        for _ in range(120 if quick else 1000):
            tx = gen_tx(rng, small=True)
            pk = tx.pk
            i = rng.randrange(len(pk))
            b, tag = pk[i]
            k = rng.random()
            f = [(list(x), t) for x, t in pk]
            d = dumps(tx, full=False)
            if k < 0.3:
                pos = rng.randrange(2)
                b1, b2 = rng.sample(range(8), 2)
                f[i] = (T.flip(T.flip(b, pos, b1), pos, b2), tag)
                c = ["note twin drop pkt=%d tag=%s pos=%d" % (i, tag, pos)] + stream_ops(pk, dropped=i) + d + ["reset"] + stream_ops(f) + d
                cases.append(self.tag(c, "addr2", tx))
            elif k < 0.6:
                hdrs = [j for j, (_, t) in enumerate(pk) if t == "hdr"]
                i = rng.choice(hdrs)
                b = pk[i][0]
                pos = rng.randrange(2, 10)
                b1, b2 = rng.sample(range(8), 2)
                f[i] = (T.flip(T.flip(b, pos, b1), pos, b2), "hdr")
                if pos >= 4:
                    # subcode / control bits uncorrectable: the header is refused whatever byte is hit, and nothing
                    # but address and page number may matter (theorem bad_header_no_byte_enters): the same header
                    # with the double error in another byte pair must be indistinguishable
                    other = rng.choice([6, 7, 8, 9] if pos < 6 else [8, 9] if pos < 8 else [6, 7])
                    c1, c2 = rng.sample(range(8), 2)
                    ref = [(list(x), t) for x, t in pk]
                    ref[i] = (T.flip(T.flip(b, other, c1), other, c2), "hdr")
                    c = ["note twin hdrbad pkt=%d pos=%d other=%d" % (i, pos, other), "note fault hdr2 pkt=%d pos=%d" % (i, pos)] \
                        + stream_ops(ref) + d + ["reset"] + stream_ops(f) + d
                else:
                    c = ["note fault hdr2 pkt=%d pos=%d" % (i, pos)] + stream_ops(f) + d
                cases.append(self.tag(c, "hdr2", tx))
            elif k < 0.85:
                rows = [j for j, (_, t) in enumerate(pk) if t == "row"]
                if not rows:
                    continue
                used = set()
                for _ in range(rng.choice([1, 2, 5])):
                    i = rng.choice(rows)
                    pos = rng.randrange(2, 42)
                    if (i, pos) in used:      # two errors in one byte defeat a parity bit; not claimed
                        continue
                    used.add((i, pos))
                    f[i] = (T.flip(f[i][0], pos, rng.randrange(8)), "row")
                c = ["note fault parity"] + stream_ops(f) + d
                cases.append(self.tag(c, "parity", tx))
            else:
                for _ in range(rng.choice([2, 6, 20])):
                    i = rng.randrange(len(pk))
                    pos = rng.randrange(42)
                    f[i] = (T.flip(f[i][0], pos, rng.randrange(8)), f[i][1])
                c = ["note fault burst"] + stream_ops(f) + d
                cases.append(self.tag(c, "burst", tx))
        # 5. malformed stream: random packets, random bytes behind a valid address, truncated streams
        for _ in range(50 if quick else 500):
            tx = gen_tx(rng, small=True)
            ops = ["handler 1"] if rng.random() < 0.9 else []
            n = rng.choice([10, 40, 120])
            for _ in range(n):
                k = rng.random()
                if k < 0.3 and tx.pk:
                    b = list(rng.choice(tx.pk)[0])
                    for _ in range(rng.choice([0, 1, 2, 5])):
                        b[rng.randrange(42)] = rng.randrange(256)
                elif k < 0.8:
                    mag = rng.choice([1, 2, 8])
                    packet = rng.choice([0, 0, 1, 2, 24, 25, 26, 26, 27, 27, 28, 29, 30, 31])
                    b = T.addr(mag, packet)
                    if rng.random() < 0.6:
                        b += [T.ham8(rng.randrange(16)) for _ in range(40)]
                    elif rng.random() < 0.5:
                        desig = rng.randrange(16)
                        trips = [rng.randrange(1 << 18) for _ in range(13)]
                        if packet == 28 and desig == 3 and trips[0] & 15 in (4, 5) and not fix_flags().get("ttxFixF22"):
                            trips[0] &= ~15      # no random X/28/3 DRCS mode tables (F18, see above)
                        b += [T.ham8(desig)] + sum([T.ham24(t) for t in trips], [])
                    else:
                        b += [rng.randrange(256) for _ in range(40)]
                    if rng.random() < 0.3:
                        b[rng.randrange(42)] ^= 1 << rng.randrange(8)
                else:
                    b = [rng.randrange(256) for _ in range(42)]
                ops.append(rng.choice(["pktd ", "pktd ", "pkt "]) + hx(b))
                if rng.random() < 0.02:
                    ops.append("gap")
                if rng.random() < 0.02:
                    ops.append("handler %d" % rng.randrange(2))
            ops += ["cached", "stat", "net", "asm 1", "asm 2", "asm 0", "mag 1", "mag 2", "mag 8"]
            if rng.random() < 0.2:
                ops += ["pkt 00", "page x 1", "asm 9", "handler", "frob", "pktd " + "00" * 41]
            cases.append(self.tag(ops, "malformed", None))
        return cases

    def tag(self, case, kind, tx):
        """prepend what the sender knows as comment directives, so that a case file is self-contained"""
        head = ["note kind " + kind]
        if tx is not None:
            head.append("note sent " + " ".join("%x.%x" % k for k in sorted(tx.sent_pages)))
            head.append("note x26 " + " ".join("%x:%s" % (k, ",".join("%d" % c for c in sorted(tx.x26cols[k])) or "-")
                                               for k in sorted(tx.x26cols)))
            for pg in sorted(tx.rows):
                head.append("note rows %x %s" % (pg, ",".join(sorted(bytes(r).hex() for r in tx.rows[pg]))))
        return head + case

    @staticmethod
    def directives(case):
        kind, tx, twin = "corpus", None, ""
        for l in case:
            if not l.startswith("note "):
                continue
            w = l.split()
            if len(w) >= 3 and w[1] == "kind":
                kind = w[2]
            elif len(w) >= 2 and w[1] == "sent":
                tx = tx or Tx()
                tx.sent_pages = {tuple(int(x, 16) for x in k.split(".")) for k in w[2:]}
            elif len(w) >= 2 and w[1] == "x26":
                tx = tx or Tx()
                tx.x26cols = {}
                for k in w[2:]:
                    pg_, _, cs = k.partition(":")
                    tx.x26cols[int(pg_, 16)] = {int(c) for c in cs.split(",") if c not in ("", "-")}
            elif len(w) >= 4 and w[1] == "rows":
                tx = tx or Tx()
                tx.rows[int(w[2], 16)] = {tuple(bytes.fromhex(h)) for h in w[3].split(",")}
            elif len(w) >= 2 and w[1] == "twin":
                twin = "# " + l[5:] + (" " + twin[2:] if twin else "")
            elif len(w) >= 2 and w[1] == "fault":
                twin = (twin + " " if twin else "# ") + l[5:]
        return kind, tx, twin

    def classify(self, case):
        return self.directives(case)[0]

    # ------------------------------------------------------------------ oracle
    @staticmethod
    def split_halves(case, out):
        """-> list of (ops, outs) per `reset`-separated half (comment lines produce no output)"""
        ops = [l for l in case if l.strip() and not l.startswith("#")]
        halves, cur_o, cur_r = [], [], []
        for o, r in zip(ops, out):
            if o == "reset":
                halves.append((cur_o, cur_r)); cur_o, cur_r = [], []
            else:
                cur_o.append(o); cur_r.append(r)
        halves.append((cur_o, cur_r))
        return halves

    @staticmethod
    def observable(ops, outs, mask_h8=False, skip_pkt_index=None):
        """what a user can observe: events in order, dumps"""
        ev, dumps = [], []
        for o, r in zip(ops, outs):
            if o.startswith("pkt"):
                ev += [w for w in r.split() if w.startswith("ev:")]
            elif o.split()[0] in ("cached", "page", "stat", "net", "mag", "asm"):
                if mask_h8:
                    r = re.sub(r" h8=[0-9a-f]+", " h8=*", r)
                dumps.append(r)
        return ev, dumps

    def containment(self, tx, ops, outs, maglevel=False):
        if tx is None:
            return None
        sent_pg = {p for p, _ in tx.sent_pages}
        magrows = {}
        for p, rs in tx.rows.items():
            magrows.setdefault(p >> 8, set()).update(rs)
        for o, r in zip(ops, outs):
            if o.startswith("pkt"):
                for w in r.split():
                    if w.startswith("ev:page:"):
                        pg, sn = w.split(":")[2].split(".")
                        pg, sn = int(pg, 16), int(sn, 16)
                        if (pg, sn) not in tx.sent_pages:
                            return "event for a page that was not transmitted (%x.%x)" % (pg, sn)
            elif o == "cached":
                for w in r.split()[1:]:
                    key, fn = w.split(":")
                    pg, sn = [int(x, 16) for x in key.split(".")]
                    if pg not in sent_pg:
                        return "page cached under a page number that was not transmitted (%x.%x)" % (pg, sn)
                    if (pg, sn) not in tx.sent_pages and sn != 0:
                        return "page cached under a subpage number that was not transmitted (%x.%x)" % (pg, sn)
            elif o.startswith("page ") and r.startswith("ok fn=0 "):
                m = re.search(r" pgno=([0-9a-f]+) ", r)
                pg = int(m.group(1), 16)
                m = re.search(r" raw=([0-9a-f.]+)", r)
                rows = m.group(1).split(".")
                # a lost header (uncorrectable address) makes the rows of the next page of the magazine
                # land in the page in progress: then only containment per magazine can be demanded
                sent = magrows.get(pg >> 8, set()) if maglevel else tx.rows.get(pg, set())
                for n in range(1, 26):
                    row = bytes.fromhex(rows[n])
                    if any(not T.parity_odd(b) for b in row):
                        return "cached LOP row with a parity error (page %x row %d)" % (pg, n)
                    if all(b == 0x20 for b in row) or tuple(row) in sent:
                        continue
                    # positions overridden by X/26 enhancement data are excepted by the property: lop_parity_check
                    # forces odd parity there, so a damaged byte in such a column can pass the gate
                    cols = set()
                    if pg in tx.x26cols:
                        cols = tx.x26cols[pg]
                    if maglevel:
                        for p_, c_ in tx.x26cols.items():
                            if p_ >> 8 == pg >> 8:
                                cols = cols | c_
                    if cols and any(all(a == b or i in cols for i, (a, b) in enumerate(zip(row, s))) for s in sent):
                        continue
                    return "cached LOP row that was never transmitted for this page (page %x row %d)" % (pg, n)
        return None

    def oracle(self, case, out):
        ops = [l for l in case if l.strip() and not l.startswith("#")]
        if len(out) != len(ops):
            return "output count %d != ops %d" % (len(out), len(ops))
        for r in out:
            if " ev:other" in r:
                return "unexpected event type"
        kind, tx, head = self.directives(case)
        halves = self.split_halves(case, out)
        if head.startswith("# twin") and len(halves) == 2:
            mask = " tag=hdr " in head and any((" pos=%d " % p) in head + " " for p in range(2, 10))
            a = self.observable(*halves[0], mask_h8=mask)
            b = self.observable(*halves[1], mask_h8=mask)
            if a != b:
                what = "single bit error in a Hamming protected byte is visible" if "single" in head else \
                       "headers with uncorrectable subcode or control bits are treated differently depending on the byte hit" if "hdrbad" in head else \
                       "packet with uncorrectable address differs from the dropped packet"
                d = "events" if a[0] != b[0] else "dump"
                return "%s (%s; %s)" % (what, re.sub(r"pkt=\d+ ", "", head[2:]), d)
        for o, r in halves:
            w = self.containment(tx, o, r, maglevel=kind in ("addr2", "burst"))
            if w:
                return w
        return None

    # ------------------------------------------------------------------ probes on the real code only
    def extra_checks(self, ctx):
        """(1) the formatter must show a header byte received with a parity error as a space;
           (2) F22 guard audit: a DRCS page with 48 mode-3 PTUs must not write behind its page buffer
               (raw_page.lop_raw of a magazine that never received a LOP row stays zero)."""
        out = []
        hcmd = ctx["hcmd"]

        def run(ops):
            o, inc = verif.run_side(hcmd, [ops], self.timeout_per_case, min_timeout=10.0)
            return o.get(0, []), inc

        # (1) bad parity in the header text (stored without a parity gate) is formatted as U+0020
        text = hdr_text(0x100, 1)
        good = T.header(1, 0x00, 0, text=text)
        ops = ["handler 1"]
        bad = list(good)
        pos = 10 + 14                       # a letter of "TESTTEXT"
        bad[pos] ^= 0x80
        ops += ["pktd " + hx(bad), "pktd " + hx(T.row(1, 1, [0x41] * 40)),
                "pktd " + hx(T.header(1, 0xFF, 0x3F7F, text=hdr_text(0x1FF, 2))), "fetch 0x100 0"]
        o, inc = run(ops)
        if inc or len(o) != len(ops) or not o[-1].startswith("ok "):
            out.append(("formatter probe did not run (%s)" % (o[-1][:60] if o else "no output"), ops))
        else:
            rows = o[-1][3:].split(".")
            cell = int(rows[0].split(",")[pos - 2], 16)
            ok_cell = int(rows[0].split(",")[pos - 2 + 1], 16)
            if cell != 0x20:
                out.append(("character received with a parity error is displayed (U+%04X instead of a space)" % cell, ops))
            if ok_cell != (text[pos - 10 + 1]):
                out.append(("character with good parity is not displayed as sent", ops))
            if any(int(c, 16) != 0x41 for c in rows[1].split(",")):
                out.append(("good row is not displayed as sent", ops))
        # (2) F22 guard audit
        def pairs(codes):
            return sum([[c & 15, c >> 4] for c in codes], [])
        mip = T.h8row(1, 1, pairs([0x01] * 6 + [0xE5] + [0x01] * 3 + [0x01] * 10))
        f = [(5, 4), (0, 3), (0, 11)] + [(3, 4)] * 48
        pk = [T.header(1, 0xFD, 0, text=hdr_text(0x1FD, 1)), mip, T.header(1, 0x06, 0, text=hdr_text(0x106, 2)),
              T.x28_0(1, 28, 3, T.pack_bits(f))]
        pk += [T.row(1, n, [0x7F] * 40) for n in range(1, 25)]
        pk += [T.header(1, 0xFF, 0x3F7F, text=hdr_text(0x1FF, 3))]
        ops = ["handler 1"] + ["pktd " + hx(b) for b in pk] + ["asm 1"]
        o, inc = run(ops)
        if inc:
            out.append(("crash of the real code (DRCS mode 3 page)", ops))
        elif o and "lopraw=" in o[-1]:
            lr = o[-1].split("lopraw=")[1].replace(".", "")
            if lr.strip("0"):
                out.append(("decoder memory behind a DRCS page buffer overwritten by convert_drcs", ops))
        return out

    def signature(self, case, what):
        what = re.sub(r"\([^)]*\)", "", what).strip()
        kind, tx, head = self.directives(case)
        m = re.search(r"fault hdr2 pkt=\d+ pos=(\d+)", head)
        if m and int(m.group(1)) in (4, 5) and "not transmitted" in what and "under a page number" not in what:
            # F21 (repaired in /repo e19028b): header whose S1/S2 byte pair is uncorrectable while S3/S4 != 0 was accepted
            return "header accepted with uncorrectable subcode byte pair S1/S2"
        return what

    def nontrivial(self, case, impl_out):
        return any(l.startswith("ok") and ("ev:" in l or "fn=0" in l or "fn=-1" in l) for l in impl_out)


def _load_known_merged(orig=verif.load_known):
    """lib/verif.py reads only known_findings.json; merge this component's own findings file"""
    import json
    k = orig()
    p = os.path.join(verif.VERIF, "known_findings.C03.json")
    if os.path.exists(p):
        have = {(f.get("property"), f.get("id")) for f in k.get("findings", [])}
        for f in json.load(open(p)).get("findings", []):
            if (f.get("property"), f.get("id")) not in have:
                k.setdefault("findings", []).append(f)
    return k


verif.load_known = _load_known_merged

if __name__ == "__main__":
    verif.run_check(C03())
