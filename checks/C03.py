#!/usr/bin/env python3
"""C03 - transmission errors in Teletext are corrected or contained, never shown as data.

Correspondence: whole transmissions (sender spec in lib/ttx_util.py) through vbi_decode on the real
code and through the Lean model `Ttx.step`, compared op by op (return value, assembly state, events)
and on dumps (cached set in hash-chain order, raw cached pages, assembly pages, page statistics,
magazine tables, network state).
Oracle (independent of the model, on the C output only):
  * twin cases `clean ; reset ; faulted`: a single bit error in any Hamming protected byte/triplet
    -> identical dumps and events; a double error in the address -> identical to the dropped packet;
  * containment on every case: every cached (pgno, subno) was transmitted, every cached LOP row is
    blank, or one of the rows transmitted for that page under that packet number, and has odd parity;
    only the cells (row, column) which X/26 data transmitted for that very page overrides are excepted
    (lib/ttx03_util.py x26_cells, written from EN 300 706 12.3); every TTX_PAGE event names a
    transmitted page;
  * twin cases `fault-free ; reset ; with parity errors / uncorrectable page numbers` (kinds x26seq,
    x26modes, ilvhdr): containment on both runs, and no page number cached only in the faulted run.
Sender knowledge travels in one `note tx <digest> <json>` op; the digest binds it to the op lines
it was written for (see `tag`).
"""
import os, re, sys
sys.path.insert(0, os.path.join(os.path.dirname(os.path.abspath(__file__)), "..", "lib"))
import verif
import ttx_util as T
import ttx03_util as X
import ttx03_units as U

hx = T.hx
DATE = " Mon 01 Jan "


def hdr_text(pgno, sec):
    s = "ZV %03X" % pgno + DATE + "TESTTEXT".ljust(12)
    s = s[:24].ljust(24)
    clock = "12:%02d:%02d" % ((sec // 60) % 60, sec % 60)
    return [ord(c) for c in s + clock]


def fix_flags():
    """ttxFix* flags of lean/ZvbiModel/Generated/TtxLayout.lean (written by translate/gen_ttx.py from packet.c)"""
    p = os.path.join(verif.LEAN, "ZvbiModel", "Generated", "TtxLayout.lean")
    try:
        return dict((m.group(1), m.group(2) == "true") for m in re.finditer(r"def (ttxFix\w+) : Bool := (\w+)", open(p).read()))
    except OSError:
        return {}


def rnd_row(rng):
    k = rng.random()
    if k < 0.15:
        return [0x20] * 40
    if k < 0.3:
        return [rng.randrange(0x80) for _ in range(40)]
    return [rng.choice([0x20, 0x41 + rng.randrange(26), 0x61 + rng.randrange(26), 0x30 + rng.randrange(10)])
            for _ in range(40)]


class Tx:
    """a transmission: list of (packet bytes, tag) plus what the sender knows"""

    def __init__(self):
        self.pk = []          # (bytes, tag)
        self.sent_pages = set()      # (pgno, subno & 0x3F7F)
        self.rows = {}        # pgno -> set of tuple(40 bytes with parity) ever transmitted as rows 1..25
        self.mags = set()
        self.sec = 0
        self.x26cols = {}     # pgno -> columns addressed by X/26 character triplets (coarse exception, lossy channels)
        self.rown = {}        # pgno -> packet number (0 = not recorded) -> set of payloads transmitted as that row
        self.cells = {}       # pgno -> set of (row, column) overridden by X/26 data transmitted for this page
        self.rowidx = []      # (index into pk, pgno, packet number) of the Level 1 rows sent by page()
        self.x26t = {}        # pgno -> designation -> set of the 13-triplet tuples transmitted as X/26/<designation> of that page

    def add(self, b, tag, pgno=None, n=0):
        assert len(b) == 42
        self.pk.append((list(b), tag))
        if pgno is not None:
            # payload of a packet 1..25 sent while `pgno` is the page in progress
            self.rows.setdefault(pgno, set()).add(tuple(b[2:]))
            self.rown.setdefault(pgno, {}).setdefault(n, set()).add(tuple(b[2:]))

    def merge(self, t):
        """knowledge of another (interleaved) transmission"""
        self.sent_pages |= t.sent_pages
        self.mags |= t.mags
        for p, r in t.rows.items():
            self.rows.setdefault(p, set()).update(r)
        for p, c in t.x26cols.items():
            self.x26cols.setdefault(p, set()).update(c)
        for p, c in t.cells.items():
            self.cells.setdefault(p, set()).update(c)
        for p, d in t.rown.items():
            for n, r in d.items():
                self.rown.setdefault(p, {}).setdefault(n, set()).update(r)
        if self.x26t is not None and getattr(t, "x26t", None) is not None:
            for p, d in t.x26t.items():
                for n, r in d.items():
                    self.x26t.setdefault(p, {}).setdefault(n, set()).update(r)
        else:
            self.x26t = None

    def knowledge(self):
        return {"sent": sorted([pg, sn] for pg, sn in self.sent_pages),
                "rows": {"%x" % pg: {str(n): sorted(bytes(r).hex() for r in rs) for n, rs in d.items()}
                         for pg, d in self.rown.items()},
                "cells": {"%x" % pg: sorted([r, c] for r, c in cs) for pg, cs in self.cells.items()},
                "cols": {"%x" % pg: sorted(cs) for pg, cs in self.x26cols.items()},
                "x26t": None if self.x26t is None else
                        {"%x" % pg: {str(n): sorted([list(t) for t in ts] for ts in tss) for n, tss in d.items()}
                         for pg, d in self.x26t.items()}}

    @staticmethod
    def from_knowledge(k):
        tx = Tx()
        tx.sent_pages = {(pg, sn) for pg, sn in k.get("sent", [])}
        for pg, d in k.get("rows", {}).items():
            for n, rs in d.items():
                for h in rs:
                    r = tuple(bytes.fromhex(h))
                    tx.rows.setdefault(int(pg, 16), set()).add(r)
                    tx.rown.setdefault(int(pg, 16), {}).setdefault(int(n), set()).add(r)
        tx.cells = {int(pg, 16): {(r, c) for r, c in cs} for pg, cs in k.get("cells", {}).items()}
        tx.x26cols = {int(pg, 16): set(cs) for pg, cs in k.get("cols", {}).items()}
        if k.get("x26t") is None:
            tx.x26t = None                 # written before the X/26 content rule existed: rule not applied
        else:
            tx.x26t = {int(pg, 16): {int(n): {tuple(tuple(t) for t in ts) for ts in tss} for n, tss in d.items()}
                       for pg, d in k["x26t"].items()}
        tx.precise = True
        return tx

    def page(self, rng, mag, page, subno=0, rows=None, serial=0, erase=0, x26=None, x27=False, x28=False,
             flags=None, national=0, shuffle=False, x26_first=False):
        pgno = (mag if mag else 8) * 256 + page
        mag8 = mag if mag else 8
        self.mags.add(mag8)
        self.sec += 1
        fl = dict(c4=erase, c11=serial)
        if flags:
            fl.update(flags)
        self.add(T.header(mag8, page, subno, national=national, text=hdr_text(pgno, self.sec), **fl), "hdr")
        if page != 0xFF:
            self.sent_pages.add((pgno, subno & 0x3F7F))
        body = []
        self.rown.setdefault(pgno, {})
        for n, chars in (rows or {}).items():
            r = T.row(mag8, n, chars)
            self.rows.setdefault(pgno, set()).add(tuple(r[2:]))
            self.rown[pgno].setdefault(n, set()).add(tuple(r[2:]))
            body.append((r, "row", n))
        if x26:
            self.cells.setdefault(pgno, set()).update(X.x26_cells([t for trips in x26 for t in trips]))
            cols = self.x26cols.setdefault(pgno, set())
            for trips in x26:
                for a, m, _ in trips:
                    if a < 40 and (m in (1, 2, 0xB, 8, 9, 0xD, 0xF) or 0x10 <= m <= 0x1F):
                        cols.add(a)
            for d, trips in enumerate(x26):
                body.append((T.x26(mag8, d, trips), "x26"))
                if self.x26t is not None:
                    full = (list(trips) + [(0x3F, 0x1F, 0x7F)] * 13)[:13]       # the encoder pads with termination markers
                    self.x26t.setdefault(pgno, {}).setdefault(d, set()).add(
                        tuple((a & 0x3F, m & 0x1F, dd & 0x7F) for a, m, dd in full))
        if x27:
            links = [(rng.choice([0x100, 0x1FF, 0x234, 0x8FF, pgno]), rng.choice([0x3F7F, 0, 1])) for _ in range(6)]
            body.append((T.x27_0(mag8, links, rng.choice([0xF, 0x7, 0])), "x27"))
        if x28:
            body.append((T.x28_format1(mag8, 28, rng.choice([0, 0, 4]), function=rng.choice([0, 0, 0, 3]),
                                       cs0=rng.randrange(128), cs1=rng.randrange(128), lp=rng.randrange(2),
                                       rp=rng.randrange(2), lcols=rng.randrange(16),
                                       colors=[rng.randrange(4096) for _ in range(16)], screen=rng.randrange(32),
                                       rowc=rng.randrange(32), bbg=rng.randrange(2), remap=rng.randrange(8)), "x28"))
        if shuffle:
            rng.shuffle(body)
        elif x26_first:
            body = [e for e in body if e[1] == "x26"] + [e for e in body if e[1] != "x26"]
        for e in body:
            if e[1] == "row":
                self.rowidx.append((len(self.pk), pgno, e[2]))      # where row e[2] of this page sits in the stream
            self.add(e[0], e[1])

    def flush(self, serial=0):
        for m in sorted(self.mags):
            self.sec += 1
            self.add(T.header(m, 0xFF, 0x3F7F, c11=serial, text=hdr_text(m * 256 + 0xFF, self.sec)), "hdr")


def rnd_x26(rng):
    n = rng.choice([1, 1, 2, 3])
    out = []
    for _ in range(n):
        trips = []
        for _ in range(rng.choice([3, 13, 13])):
            k = rng.random()
            if k < 0.3:
                trips.append((40 + rng.randrange(24), rng.choice([1, 4, 7, 0x10]), rng.randrange(128)))
            elif k < 0.9:
                trips.append((rng.randrange(40), rng.choice([1, 2, 3, 8, 9, 0xB, 0xD, 0xF, 0x10, 0x15, 0x1F, 0]), rng.randrange(128)))
            else:
                trips.append((rng.randrange(64), rng.randrange(32), rng.randrange(128)))
        out.append(trips)
    return out


def gen_tx(rng, small=False, mags=None):
    tx = Tx()
    serial = 1 if rng.random() < 0.3 else 0
    mags = mags or rng.sample([1, 2, 3, 4, 8], rng.choice([1, 1, 2, 3]))
    pool = {m: [rng.choice([0x00, 0x01, 0x10, 0x23, 0x99, 0x42, 0x1A, 0xAB]) for _ in range(3)] for m in mags}
    npages = rng.randrange(2, 5 if small else 10)
    for _ in range(npages):
        m = rng.choice(mags)
        page = rng.choice(pool[m])
        subno = rng.choice([0, 0, 0, 1, 2, 0x0012, 0x1234, 0x2359, 0x0080 & 0])
        nrows = rng.choice([0, 1, 3, 24, 25]) if not small else rng.choice([1, 2, 3])
        rows = {n: rnd_row(rng) for n in rng.sample(range(1, 26), nrows)}
        flags = {}
        if rng.random() < 0.15:
            flags[rng.choice(["c5", "c6", "c7", "c8", "c9", "c10"])] = 1
        tx.page(rng, m, page, subno, rows, serial=serial, erase=1 if rng.random() < 0.3 else 0,
                x26=rnd_x26(rng) if rng.random() < 0.25 else None, x27=rng.random() < 0.3,
                x28=rng.random() < 0.15, flags=flags, national=rng.randrange(8), shuffle=rng.random() < 0.3)
        if rng.random() < 0.1:
            tx.add(T.p830(rng.choice([0, 1, 2, 3]), rng.choice([0x100, 0x1FF, 0x345]), rng.choice([0x3F7F, 0])), "830")
    tx.flush(serial)
    return tx


def interleave(rng, txs):
    """parallel magazines: merge several single-magazine transmissions keeping each one's order"""
    idx = [0] * len(txs)
    out = []
    live = [i for i, t in enumerate(txs) if t.pk]
    while live:
        i = rng.choice(live)
        out.append(txs[i].pk[idx[i]])
        idx[i] += 1
        if idx[i] >= len(txs[i].pk):
            live.remove(i)
    return out


def system_pages(rng):
    """MOT, MIP, BTT (+ AIT/MPT/MPT-EX via BTT links), POP and DRCS pages via MIP types"""
    tx = Tx()
    tx.x26t = None        # packets 26 are also sent as raw triplet rows here (POP candidates): X/26 content rule off
    m = rng.choice([1, 2, 8])
    mag8 = m
    # MIP first so that later pages get their function from the page type
    codes = {}
    def mip_rows():
        rows = {}
        for packet in range(1, 9):
            nib = []
            for i in list(range(10)) + list(range(0x10, 0x1A)):
                code = rng.choice([0x00, 0x01, 0x05, 0x50, 0x51, 0x70, 0x77, 0x7B, 0x81, 0xE3, 0xE5, 0xE6, 0xE7, 0xF8, 0xFC, 0xFE, 0xFF, 0x52])
                nib += [code & 15, code >> 4]
            rows[packet] = nib
        for packet in range(9, 15):
            nib = []
            for _ in range(6 if packet == 14 else 18):
                code = rng.choice([0x00, 0x01, 0xE5, 0xE6, 0xE8, 0xEC, 0xFF, 0x02])
                nib += [code & 15, code >> 4]
            nib += [rng.randrange(16) for _ in range(40 - len(nib))]
            rows[packet] = nib
        for packet in range(15, 26):
            rows[packet] = [rng.randrange(16) for _ in range(40)]
        return rows
    def emit_h8(page, rows, subno=0, tag="h8row"):
        tx.mags.add(mag8)
        tx.sec += 1
        tx.add(T.header(mag8, page, subno, text=hdr_text(mag8 * 256 + page, tx.sec)), "hdr")
        if page != 0xFF:
            tx.sent_pages.add((mag8 * 256 + page, subno))
        for n, nib in rows.items():
            tx.add(T.h8row(mag8, n, nib), tag, mag8 * 256 + page, n)
    typed = rng.random() < 0.6
    if typed:
        # a MIP declaring m05, m15, m3A as POP (0xE6) and m06, m16, m3B as DRCS (0xE5), terminated by the next header
        def pairs(codes):
            return sum([[c & 15, c >> 4] for c in codes], [])
        r1 = pairs([0x01] * 5 + [0xE6, 0xE5] + [0x01] * 3 + [0x01] * 5 + [0xE6, 0xE5] + [0x01] * 3)
        r10 = pairs([0xE6, 0xE5] + [0x00] * 4 + [0x00] * 12) + [0, 0, 0, 0]
        emit_h8(0xFD, {1: r1, 10: r10})
    kinds = rng.sample(["mip", "mot", "btt", "pop", "drcs", "lop", "mip"], rng.choice([2, 3, 4]))
    if typed:
        # (a BTT or a second MIP would overwrite the page types the POP/DRCS tagging relies on)
        kinds = [k for k in kinds if k not in ("mip", "btt")] or ["pop"]
    for kind in kinds:
        if kind == "mip":
            rows = mip_rows()
            emit_h8(0xFD, {n: rows[n] for n in rng.sample(sorted(rows), rng.choice([3, 8, 25]))})
        elif kind == "mot":
            rows = {n: [rng.randrange(16) for _ in range(40)] for n in rng.sample(range(1, 26), rng.choice([3, 10, 25]))}
            emit_h8(0xFE, rows)
        elif kind == "btt":
            mag8_save = mag8
            mag8 = 1
            rows = {}
            for n in rng.sample(range(1, 21), rng.choice([2, 6, 20])):
                rows[n] = [rng.choice([0, 1, 2, 3, 4, 5, 6, 7, 8, 10, 12]) for _ in range(40)]
            # links in packets 21, 22 (packet 23 is the btt_link overflow, exercised by the corpus only)
            for n in rng.sample([21, 22], rng.choice([0, 1, 2])):
                nib = []
                for _ in range(5):
                    pg = rng.choice([0x1F1, 0x1F2, 0x2F0, 0x0FF, 0x900])
                    nib += [pg >> 8, (pg >> 4) & 15, pg & 15, 0, 0, 0, rng.randrange(3), rng.choice([1, 2, 3, 0])]
                rows[n] = nib
            emit_h8(0xF0, rows)
            # pages the links may point to
            for pg in rng.sample([0xF1, 0xF2], rng.choice([0, 1, 2])):
                rows = {n: [rng.randrange(16) for _ in range(40)] for n in rng.sample(range(1, 24), 4)}
                emit_h8(pg, rows, tag="h8maybe")
            mag8 = mag8_save
        elif kind == "pop":
            # a page whose MIP type says POP (0xE6): rows are designation + 13 triplets
            page = rng.choice([0x05, 0x15, 0x3A])
            tx.mags.add(mag8); tx.sec += 1
            tx.add(T.header(mag8, page, 0, text=hdr_text(mag8 * 256 + page, tx.sec)), "hdr")
            tx.sent_pages.add((mag8 * 256 + page, 0))
            for n in rng.sample(range(1, 26), rng.choice([2, 6])):
                # packet 4 with odd designation is the pop.pointer overflow, exercised by the corpus only
                desig = rng.randrange(16)
                if n == 4:
                    desig &= ~1
                tx.add(T.x28_0(mag8, n, desig, [rng.randrange(1 << 18) for _ in range(13)]), "poprow" if typed else "row?", mag8 * 256 + page, n)
            if rng.random() < 0.5:
                tx.add(T.x28_0(mag8, 26, rng.randrange(16), [rng.randrange(1 << 18) for _ in range(13)]), "poprow" if typed else "row?")
        elif kind == "drcs":
            page = rng.choice([0x06, 0x16, 0x3B])
            tx.mags.add(mag8); tx.sec += 1
            tx.add(T.header(mag8, page, 0, text=hdr_text(mag8 * 256 + page, tx.sec)), "hdr")
            tx.sent_pages.add((mag8 * 256 + page, 0))
            if rng.random() < 0.6:
                # mode 3 (DRCS_MODE_6_5_4) makes convert_drcs() write behind drcs.chars[] (finding F18, see NOTES):
                # the corrupted decoder memory is not modelled, so generated streams avoid it
                modes = list(range(16)) if fix_flags().get("ttxFixF22") else [0, 1, 2, 4, 14, 15]
                f = [(rng.choice([4, 5, 5, 0]), 4), (0, 3), (0, 11)] + [(rng.choice(modes), 4) for _ in range(48)]
                tx.add(T.x28_0(mag8, 28, 3, T.pack_bits(f)), "x28")
            for n in rng.sample(range(1, 25), rng.choice([1, 4])):
                tx.add(T.row(mag8, n, [0x40 + rng.randrange(0x40) for _ in range(40)]), "drcsrow", mag8 * 256 + page, n)
        else:
            page = rng.choice([0x00, 0x05, 0x06, 0x15, 0x16])
            rows = {n: rnd_row(rng) for n in rng.sample(range(1, 26), 3)}
            tx.page(rng, mag8, page, rng.choice([0, 1]), rows, x26=rnd_x26(rng) if rng.random() < 0.3 else None,
                    x27=rng.random() < 0.3)
        if rng.random() < 0.3:
            tx.add(T.x28_format1(mag8, 29, rng.choice([0, 4, 1]), cs0=rng.randrange(128), colors=[rng.randrange(4096) for _ in range(16)]), "m29")
    tx.flush()
    return tx


DEC_PAGES = [t * 16 + u for t in range(10) for u in range(10)]      # page numbers that are LOPs without a MIP


def rnd_text_row(rng):
    return [rng.choice([0x20, 0x41 + rng.randrange(26), 0x61 + rng.randrange(26), 0x30 + rng.randrange(10)])
            for _ in range(40)]


def parity_faults(rng, tx, pk, rowsel, colpick, p_row=0.6):
    """-> (faulted copy of pk, list of (pk index, row, column)): at most ONE bit error per selected Level 1 row
    (so the parity bit does see it), in the column `colpick(pgno, n)` chooses"""
    f = [(list(b), t) for b, t in pk]
    hits = []
    for i, pgno, n in tx.rowidx:
        if not rowsel(i, pgno, n) or rng.random() >= p_row:
            continue
        c = colpick(pgno, n)
        bit = rng.randrange(7) if rng.random() < 0.9 else 7     # bit 7 = the parity bit itself
        f[i] = (T.flip(f[i][0], 2 + c, bit), f[i][1])
        hits.append((i, n, c))
    return f, hits


def pick_col(rng, own_cells, all_cells, all_cols, n):
    """a column for a parity error in row n: mostly one that X/26 data addresses - in this row on another page or
    in another row of this page - but that the X/26 data of the page itself does not override in row n"""
    here = sorted({c for r, c in all_cells if r == n})
    outside = [c for c in here if (n, c) not in own_cells]
    elsewhere = [c for c in sorted(all_cols) if (n, c) not in own_cells]
    k = rng.random()
    if outside and k < 0.45:
        return rng.choice(outside)
    if elsewhere and k < 0.8:
        return rng.choice(elsewhere)
    if here and k < 0.92:
        return rng.choice(here)           # an overridden position: the exception clause
    return rng.randrange(40)


def shape_x26_sequence(rng):
    """X/26 enhancement pages with different numbers of triplets following each other in ONE magazine; then the
    same transmission with single parity errors in Level 1 rows at positions addressed by the X/26 data of the
    pages of that magazine.  -> (tx, clean packets, faulted packets, fault list)"""
    tx = Tx()
    m = rng.choice([1, 2, 3, 4, 8])
    serial = 1 if rng.random() < 0.3 else 0
    n_pages = rng.choice([2, 3, 3, 4])
    pages = rng.sample(DEC_PAGES, n_pages)
    if n_pages > 2 and rng.random() < 0.25:
        pages[-1] = pages[0]                                   # a retransmission closes the sequence
    rows_pool = sorted(rng.sample(range(1, 25), rng.choice([3, 5, 8])))
    cols_pool = sorted(rng.sample(range(40), rng.choice([4, 8, 16])))
    progs = {}
    for j, page in enumerate(pages):
        prog = X.rnd_program(rng, rng.choice([1, 1, 2, 2, 3]), rows_pool, cols_pool, row0=0.15)
        progs[j] = prog
        rows = {n: rnd_text_row(rng) for n in set(rows_pool) | set(rng.sample(range(1, 26), rng.choice([0, 2, 6])))}
        tx.page(rng, m, page, rng.choice([0, 0, 1]), rows, serial=serial, erase=1 if rng.random() < 0.2 else 0,
                x26=X.chunk13(prog), x26_first=rng.random() < 0.6)
    tx.flush(serial)
    all_cells = set().union(*[X.x26_cells(p) for p in progs.values()])
    all_cols = set().union(*[X.x26_rows_cols(p)[1] for p in progs.values()]) or set(cols_pool)
    f, hits = parity_faults(rng, tx, tx.pk, lambda i, pg, n: True,
                            lambda pg, n: pick_col(rng, tx.cells.get(pg, set()), all_cells, all_cols, n))
    return tx, tx.pk, f, hits


def shape_x26_modes(rng):
    """ONE page whose X/26 packets mix every row-address mode (0x01 full row colour, 0x04 set active position,
    0x07 address display row 0, modes that keep the active row) with column triplets; transmitted, then
    retransmitted with fresh text and single parity errors at the addressed rows x addressed columns; in half of
    the cases one X/26 triplet of the faulted transmission is uncorrectable, too."""
    tx = Tx()
    m = rng.choice([1, 2, 3, 4, 8])
    serial = 1 if rng.random() < 0.3 else 0
    page, other = rng.sample(DEC_PAGES, 2)
    subno = rng.choice([0, 0, 1])
    rows_pool = sorted(rng.sample(range(1, 25), rng.choice([2, 3, 5])))
    cols_pool = sorted(rng.sample(range(40), rng.choice([4, 6, 10])))
    prog = X.rnd_program(rng, rng.choice([1, 1, 2]), rows_pool, cols_pool, row0=0.4,
                         start_with_row=rng.choice([0.8, 0.3]))
    cells = X.x26_cells(prog)
    arows, acols = X.x26_rows_cols(prog)
    rows_sent = sorted((arows - {0}) | set(rows_pool) | set(rng.sample(range(1, 26), 2)))
    cycles = rng.choice([2, 2, 3])
    faulty_cycle = rng.randrange(cycles) if rng.random() < 0.3 else rng.randrange(1, cycles)
    first_of_cycle = []
    for cyc in range(cycles):
        first_of_cycle.append(len(tx.pk))
        rows = {n: rnd_text_row(rng) for n in rows_sent if cyc == 0 or rng.random() < 0.8}
        tx.page(rng, m, page, subno, rows, serial=serial, x26=X.chunk13(prog) if cyc == 0 or rng.random() < 0.6 else None,
                x26_first=rng.random() < 0.6)
        if rng.random() < 0.7:      # another page of the magazine in between (closes `page` in parallel mode too)
            tx.page(rng, m, other, 0, {n: rnd_text_row(rng) for n in rng.sample(range(1, 25), 2)}, serial=serial)
    first_of_cycle.append(len(tx.pk))
    tx.flush(serial)
    pgno = (m if m else 8) * 256 + page
    lo, hi = first_of_cycle[faulty_cycle], first_of_cycle[faulty_cycle + 1]
    # with probability 1/2 one X/26 triplet of that transmission is uncorrectable as well (two bit errors in its 24
    # bits), mostly a row-address triplet: the enhancement data may get shorter, it must not move to other cells.
    # The parity errors then prefer the columns of the column triplets that follow the damaged triplet.
    x26s = [i for i in range(lo, hi) if tx.pk[i][1] == "x26"]
    damage, follow = None, []
    if x26s and rng.random() < 0.5:
        i = rng.choice(x26s)
        d = x26s.index(i) if len(x26s) == len(X.chunk13(prog)) else 0
        part = prog[13 * d: 13 * d + 13]
        rowtr = [j for j, (a, m_, _) in enumerate(part) if a >= 40 and (m_ in X.ROW_SET_MODES or m_ == X.ROW0_MODE)]
        # prefer a row-address triplet that really moves the active position away from a text row
        moving = [j for j in rowtr if X.active_row(prog[:13 * d + j]) not in (0, X.active_row(prog[:13 * d + j + 1]))]
        j = rng.choice(moving) if moving and rng.random() < 0.7 else \
            rng.choice(rowtr) if rowtr and rng.random() < 0.6 else rng.randrange(max(len(part), 1))
        for a, m_, _ in part[j + 1:]:
            if a >= 40 and (m_ in X.ROW_SET_MODES or m_ == X.ROW0_MODE):
                break
            if a < 40 and m_ in X.CHAR_MODES:
                follow.append(a)
        damage = (i, j)

    def colpick(pg, n):
        if follow and rng.random() < 0.8:
            return rng.choice(follow)
        return pick_col(rng, cells, cells, acols or set(cols_pool), n)

    f, hits = parity_faults(rng, tx, tx.pk, lambda i, pg, n: pg == pgno and lo <= i < hi, colpick, p_row=0.75)
    if damage:
        i, j = damage
        b = f[i][0]
        for bit in rng.sample(range(24), 2):
            b = T.flip(b, 3 + 3 * j + bit // 8, bit % 8)
        f[i] = (b, "x26")
        hits.append((i, -1, j))
    return tx, tx.pk, f, hits


def shape_interleaved(rng):
    """two or three magazines transmitted in parallel (C11 = 0), their packets interleaved.
    -> (merged tx, packets, indices of the page headers)"""
    mags = rng.sample([1, 2, 3, 4, 5, 8], rng.choice([2, 2, 3]))
    txs = []
    for m in mags:
        t = Tx()
        pool = rng.sample(DEC_PAGES, 3)
        for _ in range(rng.choice([2, 3, 4])):
            rows = {n: rnd_text_row(rng) for n in rng.sample(range(1, 25), rng.choice([2, 4, 6]))}
            t.page(rng, m, rng.choice(pool), rng.choice([0, 0, 1]), rows, serial=0, erase=1 if rng.random() < 0.2 else 0,
                   x26=X.chunk13(X.rnd_program(rng, 1)) if rng.random() < 0.2 else None)
        t.flush(0)
        txs.append(t)
    pk = interleave(rng, txs)
    tx = txs[0]
    for t in txs[1:]:
        tx.merge(t)
    return tx, pk, [i for i, (_, tag) in enumerate(pk) if tag == "hdr"]


def twin_contain(tx, clean, faulted, note):
    d = dumps(tx, full=False)
    return ["note twin contain " + note] + stream_ops(clean) + d + ["reset"] + stream_ops(faulted) + d


def dumps(tx, full=True):
    ops = ["cached"]
    for pg, sn in sorted(tx.sent_pages):
        ops.append("page 0x%x 0x%x" % (pg, sn))
        if sn:
            ops.append("page 0x%x 0" % pg)
    for m in sorted(tx.mags):
        ops.append("asm %d" % (m & 7))
    ops += ["stat", "net"]
    if full:
        for m in sorted(tx.mags):
            ops.append("mag %d" % m)
    return ops


PROT = {
    # tag -> relative positions (0..41) read through Hamming accessors, i.e. where a single bit flip must be invisible
    "hdr": list(range(0, 10)),
    "row": [0, 1], "drcsrow": [0, 1],
    "x26": list(range(0, 42)), "x28": list(range(0, 42)), "m29": list(range(0, 42)), "poprow": list(range(0, 42)),
    "x27": list(range(0, 40)), "830": list(range(0, 9)), "h8row": list(range(0, 42)),
}


def stream_ops(pk, handler=True, dropped=None):
    ops = ["handler 1"] if handler else []
    for i, (b, tag) in enumerate(pk):
        if dropped is not None and i == dropped:
            continue
        ops.append("pktd " + hx(b))
    return ops


class C03(verif.Spec):
    prop = "C03"
    comp = "ttx"
    lean_modules = ["ZvbiModel.Props.C03", "ZvbiModel.Props.C03X26", "ZvbiModel.Props.C03Tx", "ZvbiModel.Props.C03Cache",
                    "ZvbiModel.Props.C03Join", "ZvbiModel.Props.C03Mip", "ZvbiModel.Props.C03Hdr8", "ZvbiModel.Props.C03Unit",
                    "ZvbiModel.Props.C03Refine"]
    harness = "ttx_harness"
    harness_link_lib = True
    timeout_per_case = 8.0
    partial_note = ("Level 1/1.5 page assembly is modelled completely; contents of POP/DRCS/AIT pages (union members "
                    "aliasing the LOP fields) are not modelled, only their index arithmetic; event masks other than "
                    "TTX_PAGE are not modelled; MIP rows are stored raw and decoded at page end, so single-error "
                    "invisibility for them is a statement about the decode at page end, not about the stored bytes")
    assumptions = ["no client holds a page reference while decoding (reference counts belong to C10)",
                   "cache memory limit (2^30) is not reached", "frames arrive with regular time stamps except at `gap`"]
    trusted_base = ["harness/ttx_harness.c + lean/Driver/Ttx.lean (correspondence on generated transmissions)",
                    "lib/ttx_util.py: sender-side encoders written from EN 300 706 (checked against the Hamm model)",
                    "cache abstracted as an MRU list; joined with the C10 cache model along whole histories (Props/C03Join, C03Refine, C10Ttx) under the residual hypotheses memory-never-short and page type < 256"]
    open_statements = ["hdr8_never_read_full (Props/C03Hdr8): whole-history bisimulation that raw[0][0..7] (verbatim header Hamming bytes) is never read; proved are its local steps (store_lop verdict + header copy, Level 1 formatter), missing is carrying the relation through the cache (the page is stored and fetched back with these bytes)",
                       "ttx_refined_by_cache_full (Props/C03Join): unconditional whole-history refinement of the MRU list by the cache.c model; proved (Props/C03Refine, ttx_refined_by_cache_partial): for every history the joint invariant (C10 invariant Good, the decoder's network on the list and held, Sim) is carried along the whole mirrored trace - network found, page number of every store in 0x100..0x8FF, page type agreement, the interleaved unref calls, the store not failing are all discharged - under TWO residual hypotheses about the trace: (1) MemNeverShort, memory_used + cache_page_size <= 2^30 at every store (reduced to counting pages: memory_never_short_while_few_pages, at most 0x800 x 80 pages; the per-page-number bound proved is 256 (mirrored_versions_bounded), too coarse; missing: a bound of 80 versions per page number from the key rule, all pages in the one network across vbi_chsw_reset, distinct keys in the decoder's list), (2) every page type the decoder passes to a store is < 256 (uint8_t; needs a statistics invariant over Ttx.step)",
                       "live_triplets_were_transmitted_full (Props/C03Tx): refuted for the unrepaired code (finding C03-enh-zero-filler, ttxFixEnhFiller = false); not proved for the repaired shape (needs an invariant over the cache: every cached enh array consists of transmitted triplets and unused entries)",
                       "MIP: single-error invisibility is proved for the decode at page end and for the closing header (Props/C03Mip); the flipped byte itself stays in the assembly slot and is copied into a following MOT/BTT page of the slot (dead data, never decoded): a full-trace equality would have to be stated modulo the raw rows of non-LOP pages",
                       "bad_header_refused_full / subpage_number_is_transmitted_full: proved under ttxFixF21 = true (current tree), refuted for the unrepaired code"]

    def __init__(self):
        self.meta = {}

    # ------------------------------------------------------------------ generators
    def gen_cases(self, rng, tier):
        quick = tier == "quick"
        cases = []
        cases.append(["sizes", "charsets", "net", "stat", "mag 1", "mag 8", "asm 0", "handler 1", "net", "mag 3", "cached"])
        # 1. structured clean transmissions
        for _ in range(160 if quick else 1200):
            k = rng.random()
            if k < 0.5:
                tx = gen_tx(rng)
                pk = tx.pk
            elif k < 0.75:
                ms = rng.sample([1, 2, 3, 4, 8], 2)
                txs = [gen_tx(rng, small=True, mags=[m]) for m in ms]
                tx = txs[0]
                for t in txs[1:]:
                    tx.merge(t)
                pk = interleave(rng, txs)
            else:
                tx = system_pages(rng)
                pk = tx.pk
            ops = stream_ops(pk)
            if rng.random() < 0.2:
                pos = rng.randrange(1, len(ops) + 1)
                ops.insert(pos, "gap")
            if rng.random() < 0.1:
                ops = [o.replace("pktd ", "pkt ") for o in ops]
            c = self.tag(ops + dumps(tx), "clean", tx)
            cases.append(c)
        # 2. fault twins: every bit of some packets (quick: sampled), single errors in protected bytes
        for _ in range(40 if quick else 200):
            tx = gen_tx(rng, small=True) if rng.random() < 0.75 else system_pages(rng)
            pk = tx.pk
            cand = [(i, pos) for i, (b, tag) in enumerate(pk) for pos in PROT.get(tag, [0, 1])]
            rng.shuffle(cand)
            d = dumps(tx)
            clean = stream_ops(pk) + d
            for (i, pos) in cand[: (10 if quick else 60)]:
                bit = rng.randrange(8)
                f = [(list(b), t) for b, t in pk]
                f[i] = (T.flip(f[i][0], pos, bit), f[i][1])
                c = ["note twin single pkt=%d tag=%s pos=%d bit=%d" % (i, pk[i][1], pos, bit)] + clean + ["reset"] + stream_ops(f) + d
                cases.append(self.tag(c, "single", tx))
        # 3. exhaustive single flips of one packet of each kind (all 336 positions) - thorough only in full
        tx = gen_tx(rng, small=True)
        kinds_seen = set()
        for i, (b, tag) in enumerate(tx.pk):
            if tag in kinds_seen or tag not in PROT:
                continue
            kinds_seen.add(tag)
            d = dumps(tx, full=False)
            clean = stream_ops(tx.pk) + d
            positions = PROT[tag] if not quick else rng.sample(PROT[tag], min(4, len(PROT[tag])))
            for pos in positions:
                for bit in (range(8) if not quick else [rng.randrange(8)]):
                    f = [(list(x), t) for x, t in tx.pk]
                    f[i] = (T.flip(f[i][0], pos, bit), f[i][1])
                    c = ["note twin single pkt=%d tag=%s pos=%d bit=%d" % (i, tag, pos, bit)] + clean + ["reset"] + stream_ops(f) + d
                    cases.append(self.tag(c, "single", tx))
        # 4. double errors: address (must equal the dropped packet), header bytes, row parity, bursts
        for _ in range(120 if quick else 1000):
            tx = gen_tx(rng, small=True)
            pk = tx.pk
            i = rng.randrange(len(pk))
            b, tag = pk[i]
            k = rng.random()
            f = [(list(x), t) for x, t in pk]
            d = dumps(tx, full=False)
            if k < 0.3:
                pos = rng.randrange(2)
                b1, b2 = rng.sample(range(8), 2)
                f[i] = (T.flip(T.flip(b, pos, b1), pos, b2), tag)
                c = ["note twin drop pkt=%d tag=%s pos=%d" % (i, tag, pos)] + stream_ops(pk, dropped=i) + d + ["reset"] + stream_ops(f) + d
                cases.append(self.tag(c, "addr2", tx))
            elif k < 0.6:
                hdrs = [j for j, (_, t) in enumerate(pk) if t == "hdr"]
                i = rng.choice(hdrs)
                b = pk[i][0]
                pos = rng.randrange(2, 10)
                b1, b2 = rng.sample(range(8), 2)
                f[i] = (T.flip(T.flip(b, pos, b1), pos, b2), "hdr")
                if pos >= 4:
                    # subcode / control bits uncorrectable: the header is refused whatever byte is hit, and nothing
                    # but address and page number may matter (theorem bad_header_no_byte_enters): the same header
                    # with the double error in another byte pair must be indistinguishable
                    other = rng.choice([6, 7, 8, 9] if pos < 6 else [8, 9] if pos < 8 else [6, 7])
                    c1, c2 = rng.sample(range(8), 2)
                    ref = [(list(x), t) for x, t in pk]
                    ref[i] = (T.flip(T.flip(b, other, c1), other, c2), "hdr")
                    c = ["note twin hdrbad pkt=%d pos=%d other=%d" % (i, pos, other), "note fault hdr2 pkt=%d pos=%d" % (i, pos)] \
                        + stream_ops(ref) + d + ["reset"] + stream_ops(f) + d
                else:
                    c = ["note fault hdr2 pkt=%d pos=%d" % (i, pos)] + stream_ops(f) + d
                cases.append(self.tag(c, "hdr2", tx))
            elif k < 0.85:
                rows = [j for j, (_, t) in enumerate(pk) if t == "row"]
                if not rows:
                    continue
                used = set()
                for _ in range(rng.choice([1, 2, 5])):
                    i = rng.choice(rows)
                    pos = rng.randrange(2, 42)
                    if (i, pos) in used:      # two errors in one byte defeat a parity bit; not claimed
                        continue
                    used.add((i, pos))
                    f[i] = (T.flip(f[i][0], pos, rng.randrange(8)), "row")
                c = ["note fault parity"] + stream_ops(f) + d
                cases.append(self.tag(c, "parity", tx))
            else:
                hit = set()
                for _ in range(rng.choice([2, 6, 20])):
                    i = rng.randrange(len(pk))
                    pos = rng.randrange(42)
                    if pos >= 2 and (i, pos) in hit:       # any packet kind: header text and AIT titles are parity bytes too;
                        # double errors in Hamming bytes have their own generators (addr2, hdr2, unit2)
                        # a second error in the same odd-parity byte of a row defeats the parity bit: another character
                        # with valid parity arrives, which no decoder can tell from a transmitted one - not claimed by the
                        # property (thorough-tier false alarm at seed 2: byte 38 of a row hit by bits 0 and 7)
                        continue
                    hit.add((i, pos))
                    f[i] = (T.flip(f[i][0], pos, rng.randrange(8)), f[i][1])
                c = ["note fault burst"] + stream_ops(f) + d
                cases.append(self.tag(c, "burst", tx))
        # 5. malformed stream: random packets, random bytes behind a valid address, truncated streams
        for _ in range(50 if quick else 500):
            tx = gen_tx(rng, small=True)
            ops = ["handler 1"] if rng.random() < 0.9 else []
            n = rng.choice([10, 40, 120])
            for _ in range(n):
                k = rng.random()
                if k < 0.3 and tx.pk:
                    b = list(rng.choice(tx.pk)[0])
                    for _ in range(rng.choice([0, 1, 2, 5])):
                        b[rng.randrange(42)] = rng.randrange(256)
                elif k < 0.8:
                    mag = rng.choice([1, 2, 8])
                    packet = rng.choice([0, 0, 1, 2, 24, 25, 26, 26, 27, 27, 28, 29, 30, 31])
                    b = T.addr(mag, packet)
                    if rng.random() < 0.6:
                        b += [T.ham8(rng.randrange(16)) for _ in range(40)]
                    elif rng.random() < 0.5:
                        desig = rng.randrange(16)
                        trips = [rng.randrange(1 << 18) for _ in range(13)]
                        if packet == 28 and desig == 3 and trips[0] & 15 in (4, 5) and not fix_flags().get("ttxFixF22"):
                            trips[0] &= ~15      # no random X/28/3 DRCS mode tables (F18, see above)
                        b += [T.ham8(desig)] + sum([T.ham24(t) for t in trips], [])
                    else:
                        b += [rng.randrange(256) for _ in range(40)]
                    if rng.random() < 0.3:
                        b[rng.randrange(42)] ^= 1 << rng.randrange(8)
                else:
                    b = [rng.randrange(256) for _ in range(42)]
                ops.append(rng.choice(["pktd ", "pktd ", "pkt "]) + hx(b))
                if rng.random() < 0.02:
                    ops.append("gap")
                if rng.random() < 0.02:
                    ops.append("handler %d" % rng.randrange(2))
            ops += ["cached", "stat", "net", "asm 1", "asm 2", "asm 0", "mag 1", "mag 2", "mag 8"]
            if rng.random() < 0.2:
                ops += ["pkt 00", "page x 1", "asm 9", "handler", "frob", "pktd " + "00" * 41]
            cases.append(self.tag(ops, "malformed", None))
        # 6. X/26 pages of different triplet counts following each other in one magazine; Level 1 parity errors at
        #    the positions the X/26 data of these pages address (fault-free run ; reset ; run with the errors)
        for _ in range(24 if quick else 240):
            tx, pk, f, hits = shape_x26_sequence(rng)
            if hits:
                cases.append(self.tag(twin_contain(tx, pk, f, "parity at x26 cells n=%d" % len(hits)), "x26seq", tx))
        # 7. X/26 packets mixing all row-address modes with column triplets, retransmission with parity errors
        for _ in range(40 if quick else 400):
            tx, pk, f, hits = shape_x26_modes(rng)
            if hits:
                cases.append(self.tag(twin_contain(tx, pk, f, "parity at x26 rows x columns n=%d" % len(hits)), "x26modes", tx))
        # 8. interleaved magazines in parallel mode: uncorrectable page number (two bit errors in one of its bytes,
        #    or in both) at every header of the schedule, one case per header
        for _ in range(3 if quick else 30):
            tx, pk, hdrs = shape_interleaved(rng)
            if quick and len(hdrs) > 9:
                hdrs = sorted(rng.sample(hdrs, 9))
            for i in hdrs:
                f = [(list(b), t) for b, t in pk]
                k = rng.random()
                for pos in ([2] if k < 0.4 else [3] if k < 0.8 else [2, 3]):
                    f[i] = (X.bad_byte(rng, f[i][0], pos), "hdr")
                cases.append(self.tag(twin_contain(tx, pk, f, "hdr pgno at=%d" % i), "ilvhdr", tx))
        # 9. MIP pages with uncorrectable (two bit errors) Hamming bytes in their rows.  MIP rows are stored raw and
        #    decoded when the page ends (theorems of Props/C03Mip.lean: the decode sees them only through vbi_unham8);
        #    fault-free run ; reset ; run with the errors, page statistics dumped after the terminating header
        for _ in range(16 if quick else 200):
            tx = Tx()
            m = rng.choice([1, 2, 3, 8])
            tx.mags.add(m)
            simple = [0x00, 0x01, 0x02, 0x05, 0x10, 0x4F, 0x52, 0x70, 0x77, 0x79, 0x7B, 0x81, 0x82, 0xE3, 0xE5, 0xE6, 0xE7, 0xF8, 0xFC, 0xFE, 0xFF]
            rows = {}
            for packet in sorted(rng.sample(range(1, 9), rng.choice([1, 2, 3]))):
                codes = [rng.choice(simple + [0x50, 0x51] * 2) for _ in range(20)]
                rows[packet] = sum([[c & 15, c >> 4] for c in codes], [])
            if rng.random() < 0.5:
                packet = rng.randrange(9, 15)
                codes = [rng.choice(simple) for _ in range(6 if packet == 14 else 18)]
                nib = sum([[c & 15, c >> 4] for c in codes], [])
                rows[packet] = nib + [rng.randrange(16) for _ in range(40 - len(nib))]
            for packet in rng.sample(range(15, 26), rng.choice([0, 2, 4])):
                rows[packet] = [rng.randrange(16) for _ in range(40)]
            tx.sec += 1
            tx.add(T.header(m, 0xFD, 0, text=hdr_text(m * 256 + 0xFD, tx.sec)), "hdr")
            tx.sent_pages.add((m * 256 + 0xFD, 0))
            for n, nib in rows.items():
                tx.add(T.h8row(m, n, nib), "h8row", m * 256 + 0xFD, n)
            tx.flush()
            pk = tx.pk
            f = [(list(b), t) for b, t in pk]
            cand = [i for i, (b, t) in enumerate(pk) if t == "h8row"]
            hit = []
            for i in rng.sample(cand, min(len(cand), rng.choice([1, 1, 2]))):
                pos = rng.randrange(2, 42)
                f[i] = (X.bad_byte(rng, f[i][0], pos), "h8row")
                hit.append("%d:%d" % (i, pos))
            d = ["stat", "cached"]
            c = ["note twin mipbad at=" + ",".join(hit)] + stream_ops(pk) + d + ["reset"] + stream_ops(f) + d
            cases.append(self.tag(c, "mip2", tx))
        # 10. X/26 packets lost or out of order: a page with 2-4 X/26 packets of which one (not the last) never arrives,
        #     or is repeated behind a later one, or which arrive in a wrong order.  The decoder must drop everything behind the gap (theorems
        #     C03.x26_continuity, C03Tx.x26_gap_drops_rest); judged by the X/26 content rule of `containment`
        for _ in range(12 if quick else 150):
            tx = Tx()
            m = rng.choice([1, 2, 4, 8])
            page = rng.choice(DEC_PAGES)
            n = rng.choice([2, 3, 3, 4])
            prog = X.rnd_program(rng, n)
            chunks = X.chunk13(prog)
            while len(chunks) < n:
                chunks.append([(40 + rng.randrange(24), 4, rng.randrange(40)) for _ in range(13)])
            rows = {r: rnd_text_row(rng) for r in rng.sample(range(1, 25), 3)}
            tx.page(rng, m, page, 0, rows, x26=chunks, x26_first=rng.random() < 0.5)
            tx.flush()
            xi = [i for i, (b, t) in enumerate(tx.pk) if t == "x26"]
            pk = list(tx.pk)
            k = rng.random()
            if k < 0.4:
                del pk[rng.choice(xi[:-1])]                     # lost in the channel
                how = "lost"
            elif k < 0.7:
                a = rng.choice(xi[:-1])                         # an earlier designation arrives once more, later
                pk.insert(rng.choice([i for i in xi if i > a]) + 1, pk[a])
                how = "repeated"
            else:
                a, b = rng.sample(xi, 2)
                pk[a], pk[b] = pk[b], pk[a]
                how = "swapped"
            c = ["note x26gap " + how] + stream_ops(pk) + dumps(tx, full=False)
            cases.append(self.tag(c, "x26gap", tx))
        # 11. double-bit error in protected unit k vs. the packet removed, for EVERY unit k (one Hamming 8/4 byte or one
        #     Hamming 24/18 triplet) of one packet of every kind the decoder validates (lib/ttx03_units.py; theorems
        #     Props/C03Unit.lean for X/28 and M/29).  `strict` units: removed ; reset ; damaged must be identical;
        #     `contained` units: removed ; reset ; error free ; reset ; damaged, atom by atom
        shapes = []
        for _ in range(1 if quick else 6):
            shapes += U.unit_shapes(rng, Tx, hdr_text, f22_fixed=bool(fix_flags().get("ttxFixF22")))
        for label, utag, tx, i, extra in shapes:
            pk = tx.pk
            d = dumps(tx) + extra
            removed = stream_ops(pk, dropped=i) + d
            clean = stream_ops(pk) + d
            for uname, positions, rule in U.UNITS[utag]:
                f = [(list(b), t) for b, t in pk]
                f[i] = (U.damage(rng, f[i][0], positions), f[i][1])
                note = "note twin unit2 shape=%s class=%s unit=%s rule=%s" % (label, utag, uname, rule)
                if rule == "strict":
                    c = [note] + removed + ["reset"] + stream_ops(f) + d
                elif rule == "mip":
                    c = [note] + clean + ["reset"] + stream_ops(f) + d
                else:
                    c = [note] + removed + ["reset"] + clean + ["reset"] + stream_ops(f) + d
                cases.append(self.tag(c, "unit2", tx))
        return cases

    def tag(self, case, kind, tx):
        """prepend what the sender knows as `note` ops, so that a case file is self-contained.  All knowledge
        travels in ONE op (`note tx <digest> <json>`) together with a digest of the other op lines of the case:
        sender knowledge applies to exactly the stream it was written for.  (The shrinker of lib/verif.py removes
        op lines; a case without the header of a page, or without half of the knowledge, would otherwise be
        judged against knowledge that no longer describes it and "fail" on any tree.)"""
        body = ["note kind " + kind] + list(case)
        if tx is None:
            return body
        return ["note tx %s %s" % (X.stream_digest(body), X.pack_knowledge(tx.knowledge()))] + body

    @staticmethod
    def directives(case):
        kind, tx, twin = "corpus", None, ""
        for l in case:
            if not l.startswith("note "):
                continue
            w = l.split()
            if len(w) >= 3 and w[1] == "kind":
                kind = w[2]
            elif len(w) == 4 and w[1] == "tx":
                if w[2] != X.stream_digest(case):
                    return "altered", None, ""      # not the stream this knowledge was written for: no judgement
                try:
                    import json
                    tx = Tx.from_knowledge(json.loads(w[3]))
                except (ValueError, TypeError, KeyError):
                    return "altered", None, ""
            # ---- older multi-line form (corpus files, replays written before the digest existed)
            elif len(w) >= 2 and w[1] == "sent":
                tx = tx or Tx()
                tx.sent_pages = {tuple(int(x, 16) for x in k.split(".")) for k in w[2:]}
            elif len(w) >= 2 and w[1] == "x26":
                tx = tx or Tx()
                tx.x26cols = {}
                for k in w[2:]:
                    pg_, _, cs = k.partition(":")
                    tx.x26cols[int(pg_, 16)] = {int(c) for c in cs.split(",") if c not in ("", "-")}
            elif len(w) >= 4 and w[1] == "rows":
                tx = tx or Tx()
                tx.rows[int(w[2], 16)] = {tuple(bytes.fromhex(h)) for h in w[3].split(",")}
            elif len(w) >= 2 and w[1] == "twin":
                twin = "# " + l[5:] + (" " + twin[2:] if twin else "")
            elif len(w) >= 2 and w[1] == "fault":
                twin = (twin + " " if twin else "# ") + l[5:]
        return kind, tx, twin

    def classify(self, case):
        return self.directives(case)[0]

    # ------------------------------------------------------------------ oracle
    @staticmethod
    def split_halves(case, out):
        """-> list of (ops, outs) per `reset`-separated half (comment lines produce no output)"""
        ops = [l for l in case if l.strip() and not l.startswith("#")]
        halves, cur_o, cur_r = [], [], []
        for o, r in zip(ops, out):
            if o == "reset":
                halves.append((cur_o, cur_r)); cur_o, cur_r = [], []
            else:
                cur_o.append(o); cur_r.append(r)
        halves.append((cur_o, cur_r))
        return halves

    @staticmethod
    def observable(ops, outs, mask_h8=False, skip_pkt_index=None):
        """what a user can observe: events in order, dumps"""
        ev, dumps = [], []
        for o, r in zip(ops, outs):
            if o.startswith("pkt"):
                ev += [w for w in r.split() if w.startswith("ev:")]
            elif o.split()[0] in ("cached", "page", "stat", "net", "mag", "asm"):
                if mask_h8:
                    r = re.sub(r" h8=[0-9a-f]+", " h8=*", r)
                dumps.append(r)
        return ev, dumps

    def containment(self, tx, ops, outs, maglevel=False):
        """what is cached / announced is what was transmitted (sender knowledge `tx` against harness output).
        maglevel: a packet address was destroyed, so a header may have been lost and rows / X/26 packets of the
        next page of the magazine land in the page in progress: containment per magazine only."""
        if tx is None:
            return None
        precise = getattr(tx, "precise", False) and not maglevel
        zero_filler = None      # finding C03-enh-zero-filler: reported only if nothing else is wrong with the case
        sent_pg = {p for p, _ in tx.sent_pages}
        magrows = {}
        for p, rs in tx.rows.items():
            magrows.setdefault(p >> 8, set()).update(rs)
        for o, r in zip(ops, outs):
            if o.startswith("pkt"):
                for w in r.split():
                    if w.startswith("ev:page:"):
                        pg, sn = w.split(":")[2].split(".")
                        pg, sn = int(pg, 16), int(sn, 16)
                        if (pg, sn) not in tx.sent_pages:
                            return "event for a page that was not transmitted (%x.%x)" % (pg, sn)
            elif o == "cached":
                for w in r.split()[1:]:
                    key, fn = w.split(":")
                    pg, sn = [int(x, 16) for x in key.split(".")]
                    if pg not in sent_pg:
                        return "page cached under a page number that was not transmitted (%x.%x)" % (pg, sn)
                    if (pg, sn) not in tx.sent_pages and sn != 0:
                        return "page cached under a subpage number that was not transmitted (%x.%x)" % (pg, sn)
            elif o.startswith("page ") and r.startswith("ok fn=0 "):
                m = re.search(r" pgno=([0-9a-f]+) ", r)
                pg = int(m.group(1), 16)
                me = re.search(r" enh=([0-9a-f]+)", r)
                if me and precise and getattr(tx, "x26t", None) is not None:
                    w = self.x26_content(tx, pg, bytes.fromhex(me.group(1)))
                    if w:
                        zero_filler = zero_filler or w if w.startswith("enhancement array of a page continued") else zero_filler
                        if not w.startswith("enhancement array of a page continued"):
                            return w
                m = re.search(r" raw=([0-9a-f.]+)", r)
                rows = m.group(1).split(".")
                for n in range(1, 26):
                    row = bytes.fromhex(rows[n])
                    if any(not T.parity_odd(b) for b in row):
                        return "cached LOP row with a parity error (page %x row %d)" % (pg, n)
                    if all(b == 0x20 for b in row):
                        continue
                    if precise:
                        # the row must be one of the rows transmitted for this page under this packet number; only
                        # the cells which X/26 data transmitted for this page overrides in this row are excepted
                        d = tx.rown.get(pg, {})
                        sent = d.get(n, set()) | d.get(0, set())
                        cols = {c for r_, c in tx.cells.get(pg, ()) if r_ == n}
                    else:
                        # coarse: any row of the magazine (lost header) / of the page, any X/26 addressed column
                        sent = magrows.get(pg >> 8, set()) if maglevel else tx.rows.get(pg, set())
                        cols = set(tx.x26cols.get(pg, ()))
                        if maglevel:
                            for p_, c_ in tx.x26cols.items():
                                if p_ >> 8 == pg >> 8:
                                    cols = cols | c_
                    if tuple(row) in sent:
                        continue
                    # positions overridden by X/26 enhancement data are excepted by the property: lop_parity_check
                    # forces odd parity there, so a damaged byte in such a position can pass the gate
                    if cols and any(all(a == b or i in cols for i, (a, b) in enumerate(zip(row, s))) for s in sent):
                        continue
                    # say what is wrong: a damaged character, or text that belongs elsewhere
                    near = min(sent, key=lambda s: sum(a != b for a, b in zip(row, s)), default=None)
                    if near is not None and sum(a != b for a, b in zip(row, near)) <= 3:
                        bad = [i for i, (a, b) in enumerate(zip(row, near)) if a != b and i not in cols]
                        return ("cached LOP row shows a character that was not transmitted, outside the X/26 "
                                "addressed positions (page %x row %d columns %s)" % (pg, n, ",".join(map(str, bad))))
                    return "cached LOP row that was never transmitted for this page (page %x row %d)" % (pg, n)
        return zero_filler

    @staticmethod
    def x26_content(tx, pg, enh):
        """X/26 CONTENT (theorems C03Tx.page_transmission_enh / x26_packet_appends_its_triplets): every entry of
        the enhancement array of a cached Level one page before the first unused entry (address > 63) is the
        triplet some X/26 packet transmitted FOR THIS PAGE carried in that very place: entry i = triplet i % 13
        of a packet with designation i // 13.  (Entries of earlier transmissions of the page survive a
        retransmission, so any transmission of the page may have supplied an entry.)"""
        sent = tx.x26t.get(pg, {})
        zeros = 0
        for i in range(len(enh) // 3):
            t = (enh[3 * i], enh[3 * i + 1], enh[3 * i + 2])
            if t[0] > 63:
                break
            if any(ts[i % 13] == t for ts in sent.get(i // 13, ())):
                continue
            if t == (0, 0, 0):
                zeros += 1
                continue
            return ("enhancement array holds a triplet that was not transmitted in this place for this page "
                    "(page %x entry %d: address %d mode %d data %d)" % (pg, i, t[0], t[1], t[2]))
        if zeros:
            return ("enhancement array of a page continued from a cached copy without X/26 data is zero-filled: live "
                    "zero triplets that were never transmitted (page %x, %d entries)" % (pg, zeros))
        return None

    @staticmethod
    def mip_contained(clean, faulted):
        """twin `mipbad`: a MIP row byte with two bit errors is uncorrectable; `parse_mip` must refuse the entry (it
        stops there), never decode it as some other page type / subpage count.  So after the page ended the
        statistics of every page are those of the error free transmission or untouched (not listed)."""
        def stat(ops, outs):
            for o, r in zip(ops, outs):
                if o == "stat":
                    return {w.split(":")[0]: w for w in r.split()[1:]}
            return {}
        a, b = stat(*clean), stat(*faulted)
        for pg, w in sorted(b.items()):
            if pg.endswith("fd") and w == pg + ":e7:ff:ffff":
                continue        # the MIP page itself, as its header left it (its own MIP entry was not reached)
            if a.get(pg) != w:
                return ("page statistics decoded from a MIP entry with an uncorrectable byte (page %s: %s, error free: %s)"
                        % (pg, w, a.get(pg, "untouched")))
        return None

    def fault_contained(self, clean, faulted):
        """twin `contain`: fault-free transmission vs. the same transmission with parity errors / uncorrectable
        headers.  A fault may only take away: a page is stored, or it is not (abandoned) and the cache keeps what it
        had; what each row shows is judged by `containment`.  So no page NUMBER may be cached in the faulted run
        that the fault-free run does not cache.  (Not per subpage: storing subpage 0 replaces every cached version
        of the page, cache.c _vbi_cache_put_page, so an abandoned xxx.0 legitimately leaves an older xxx.1.)"""
        def cached(ops, outs):
            for o, r in zip(ops, outs):
                if o == "cached":
                    return {w.split(":")[0].split(".")[0] for w in r.split()[1:]}
            return set()
        extra = cached(*faulted) - cached(*clean)
        if extra:
            return "page cached only in the transmission with errors, not in the error free one (%s)" % sorted(extra)[0]
        return None

    def oracle(self, case, out):
        ops = [l for l in case if l.strip() and not l.startswith("#")]
        if len(out) != len(ops):
            return "output count %d != ops %d" % (len(out), len(ops))
        for r in out:
            if " ev:other" in r:
                return "unexpected event type"
        kind, tx, head = self.directives(case)
        halves = self.split_halves(case, out)
        if head.startswith("# twin unit2") and tx is None:
            return None         # the sender knowledge line (with the digest of the stream) is gone: a shrunk case, whose halves are no twins any more
        if head.startswith("# twin unit2"):
            m = re.search(r"class=(\w+) unit=(\w+) rule=(\w+)", head)
            cls, unit, rule = m.group(1), m.group(2), m.group(3)
            what = None
            if rule == "strict" and len(halves) == 2:
                a = self.observable(*halves[0])
                b = self.observable(*halves[1])
                if a != b:
                    diff = "events" if a[0] != b[0] else next((o for (o, x), (_, y) in zip(U.dump_lines(*halves[0]), U.dump_lines(*halves[1])) if x != y), "dump")
                    what = "%s with an uncorrectable %s is not refused: it differs from the transmission without the packet (%s; %s)" % (
                        U.CLASS.get(cls, cls), "address" if unit.startswith("addr") else "designation" if unit == "designation" else "unit", unit, diff)
            elif rule == "mip" and len(halves) == 2 and tx is not None:
                what = self.mip_contained(halves[0], halves[1])
            elif rule == "contained" and len(halves) == 3:
                w = U.judge_contained(halves[0], halves[1], halves[2], abandon_ok=cls == "hdr")
                if w:
                    what = "%s with an uncorrectable unit leaves a value that neither the error free transmission nor the transmission without the packet shows (%s; %s)" % (
                        U.CLASS.get(cls, cls), unit, w)
            if what:
                return what
            # containment of what is cached: the error-free and the damaged run (without its header / address a
            # packet's neighbours land in another page: judged per magazine, like the other lossy kinds)
            for o, r in halves[-2:] if rule == "contained" else halves[-1:]:
                w = self.containment(tx, o, r, maglevel=unit.startswith("addr") or cls == "hdr")
                if w:
                    return w
            return None
        if head.startswith("# twin contain") and len(halves) == 2:
            w = self.fault_contained(halves[0], halves[1])
            if w:
                return w
        elif head.startswith("# twin mipbad") and len(halves) == 2 and tx is not None:
            w = self.mip_contained(halves[0], halves[1])
            if w:
                return w
        elif head.startswith("# twin") and len(halves) == 2:
            mask = " tag=hdr " in head and any((" pos=%d " % p) in head + " " for p in range(2, 10))
            a = self.observable(*halves[0], mask_h8=mask)
            b = self.observable(*halves[1], mask_h8=mask)
            if a != b:
                what = "single bit error in a Hamming protected byte is visible" if "single" in head else \
                       "headers with uncorrectable subcode or control bits are treated differently depending on the byte hit" if "hdrbad" in head else \
                       "packet with uncorrectable address differs from the dropped packet"
                d = "events" if a[0] != b[0] else "dump"
                return "%s (%s; %s)" % (what, re.sub(r"pkt=\d+ ", "", head[2:]), d)
        for o, r in halves:
            w = self.containment(tx, o, r, maglevel=kind in ("addr2", "burst"))
            if w:
                return w
        return None

    # ------------------------------------------------------------------ probes on the real code only
    def extra_checks(self, ctx):
        """(1) the formatter must show a header byte received with a parity error as a space;
           (2) F22 guard audit: a DRCS page with 48 mode-3 PTUs must not write behind its page buffer
               (raw_page.lop_raw of a magazine that never received a LOP row stays zero)."""
        out = []
        hcmd = ctx["hcmd"]

        def run(ops):
            o, inc = verif.run_side(hcmd, [ops], self.timeout_per_case, min_timeout=10.0)
            return o.get(0, []), inc

        # (1) bad parity in the header text (stored without a parity gate) is formatted as U+0020
        text = hdr_text(0x100, 1)
        good = T.header(1, 0x00, 0, text=text)
        ops = ["handler 1"]
        bad = list(good)
        pos = 10 + 14                       # a letter of "TESTTEXT"
        bad[pos] ^= 0x80
        ops += ["pktd " + hx(bad), "pktd " + hx(T.row(1, 1, [0x41] * 40)),
                "pktd " + hx(T.header(1, 0xFF, 0x3F7F, text=hdr_text(0x1FF, 2))), "fetch 0x100 0"]
        o, inc = run(ops)
        if inc or len(o) != len(ops) or not o[-1].startswith("ok "):
            out.append(("formatter probe did not run (%s)" % (o[-1][:60] if o else "no output"), ops))
        else:
            rows = o[-1][3:].split(".")
            cell = int(rows[0].split(",")[pos - 2], 16)
            ok_cell = int(rows[0].split(",")[pos - 2 + 1], 16)
            if cell != 0x20:
                out.append(("character received with a parity error is displayed (U+%04X instead of a space)" % cell, ops))
            if ok_cell != (text[pos - 10 + 1]):
                out.append(("character with good parity is not displayed as sent", ops))
            if any(int(c, 16) != 0x41 for c in rows[1].split(",")):
                out.append(("good row is not displayed as sent", ops))
        # (2) F22 guard audit
        def pairs(codes):
            return sum([[c & 15, c >> 4] for c in codes], [])
        mip = T.h8row(1, 1, pairs([0x01] * 6 + [0xE5] + [0x01] * 3 + [0x01] * 10))
        f = [(5, 4), (0, 3), (0, 11)] + [(3, 4)] * 48
        pk = [T.header(1, 0xFD, 0, text=hdr_text(0x1FD, 1)), mip, T.header(1, 0x06, 0, text=hdr_text(0x106, 2)),
              T.x28_0(1, 28, 3, T.pack_bits(f))]
        pk += [T.row(1, n, [0x7F] * 40) for n in range(1, 25)]
        pk += [T.header(1, 0xFF, 0x3F7F, text=hdr_text(0x1FF, 3))]
        ops = ["handler 1"] + ["pktd " + hx(b) for b in pk] + ["asm 1"]
        o, inc = run(ops)
        if inc:
            out.append(("crash of the real code (DRCS mode 3 page)", ops))
        elif o and "lopraw=" in o[-1]:
            lr = o[-1].split("lopraw=")[1].replace(".", "")
            if lr.strip("0"):
                out.append(("decoder memory behind a DRCS page buffer overwritten by convert_drcs", ops))
        return out

    def signature(self, case, what):
        full = what
        what = re.sub(r"\([^)]*\)", "", what).strip()
        kind, tx, head = self.directives(case)
        m = re.search(r"twin unit2 shape=btt/(\d+) class=btt", head)
        if m and 1 <= int(m.group(1)) <= 20 and "uncorrectable unit leaves a value" in what and \
                re.search(r"; stat (page type|subpages|character set) of page ", full):
            # finding C03-btt-break-misaligns: parse_btt leaves the inner loop with `break` on an uncorrectable byte,
            # `index` and `raw` are then out of step for the rest of the row
            return "BTT page-type row: entries behind an uncorrectable byte are applied to the wrong pages"
        m = re.search(r"fault hdr2 pkt=\d+ pos=(\d+)", head)
        if m and int(m.group(1)) in (4, 5) and "not transmitted" in what and "under a page number" not in what:
            # F21 (repaired in /repo e19028b): header whose S1/S2 byte pair is uncorrectable while S3/S4 != 0 was accepted
            return "header accepted with uncorrectable subcode byte pair S1/S2"
        return what

    def nontrivial(self, case, impl_out):
        return any(l.startswith("ok") and ("ev:" in l or "fn=0" in l or "fn=-1" in l) for l in impl_out)


def _load_known_merged(orig=verif.load_known):
    """lib/verif.py reads only known_findings.json; merge this component's own findings file"""
    import json
    k = orig()
    p = os.path.join(verif.VERIF, "known_findings.C03.json")
    if os.path.exists(p):
        have = {(f.get("property"), f.get("id")) for f in k.get("findings", [])}
        for f in json.load(open(p)).get("findings", []):
            if (f.get("property"), f.get("id")) not in have:
                k.setdefault("findings", []).append(f)
    return k


verif.load_known = _load_known_merged

if __name__ == "__main__":
    verif.run_check(C03())
