#!/usr/bin/env python3
"""C16 - export and rendering are faithful, bounded and independent of the output target."""
import os, re, subprocess, sys
sys.path.insert(0, os.path.join(os.path.dirname(os.path.abspath(__file__)), "..", "lib"))
import verif

BIG = 1000000000
WIDE, OVER = (1, 3, 7), (4, 5)
FORMATS = {"ISO-8859-1": "latin-1", "UTF-8": "utf-8", "ASCII": "ascii", "UCS-2LE": "utf-16-le"}
HTML_FONTS = [0, 1, 2, 3, 4, 5, 7, 16, 33]
HTML_LANG = {0: "en", 16: "en", 1: "de", 33: "de", 2: "sv", 3: "it", 4: "fr", 5: "es", 7: None}
HTML_TAG = re.compile(rb'</?[ubi]>|</span>|<span class="c\d+">|<span style="color:#[0-9a-f]{6};background-color:#[0-9a-f]{6}(; text-decoration: blink)?">')
HTML_ENT = re.compile(rb'&lt;|&gt;|&amp;|&#(\d+);')
MODULES = ["text", "text,charset=UTF-8", "text,format=2", "text,control=1", "text,gfx_chr=35", "html", "html,gfx_chr=35",
           "ppm", "ppm,aspect=0", "png", "png,aspect=0", "xpm", "xpm,aspect=0", "png,titled=0"]

def hx(bs): return "".join("%02x" % b for b in bs) or "-"
def unhx(s): return b"" if s in ("-", "null") else bytes.fromhex(s)

# ----------------------------------------------------------------------------- spec side (python)
def op_bytes(line):
    t = line.split()
    if t[0] == "putc": return bytes([int(t[1]) % 256])
    if t[0] in ("write", "printf"): return unhx(t[1])
    if t[0] == "puts": return b"" if t[1] == "null" else unhx(t[1])
    if t[0] == "direct": return unhx(t[2])[:int(t[1])]
    return b""

class PageSpec:
    """python mirror of the page ops (only to know what was asked; not a model of zvbi)"""
    def __init__(self, rows, cols, fill):
        self.rows, self.cols = rows, cols
        self.cells = {}
        self.fill = fill
    def get(self, r, c): return self.cells.get((r, c), (self.fill, 0, 0))
    def wide_last(self, col, row, w, h):
        return any(self.get(r, col + w - 1)[1] in WIDE for r in range(row, row + h))
    def over_first(self, col, row, w, h):
        return any(self.get(r, col)[1] in OVER for r in range(row, row + h))

def encode_char(u, codec):
    """documented behaviour: characters not representable in the target format become spaces"""
    sp = " ".encode(codec)
    if 0xD800 <= u <= 0xDFFF: return sp
    try: return chr(u).encode(codec)
    except UnicodeError: return sp

def expected_print(pg, codec, col, row, w, h):
    rows = []
    for r in range(row, row + h):
        rows.append(b"".join(encode_char(0x20 if pg.get(r, c)[1] > 3 else pg.get(r, c)[0], codec) for c in range(col, col + w)))
    return b"\n".join(rows)

def pages_of(case):
    """yield (index, op tokens, PageSpec in force)"""
    pg = None
    for i, l in enumerate(case):
        t = l.split()
        if t[0] == "page" and len(t) == 4:
            try:
                r, c, f = int(t[1], 0), int(t[2], 0), int(t[3], 0)
                if 1 <= r <= 25 and 1 <= c <= 41 and r * c <= 1056 and 0 <= f <= 0xFFFF: pg = PageSpec(r, c, f)
            except ValueError: pass
        elif t[0] == "cell" and pg is not None and len(t) == 9:
            try:
                v = [int(x, 0) for x in t[1:9]]
                if (all(x >= 0 for x in v) and v[0] < pg.rows and v[1] < pg.cols and v[2] <= 0xFFFF and v[3] <= 7 and v[4] <= 31
                        and v[5] <= 39 and v[6] <= 39 and v[7] <= 3):
                    pg.cells[(v[0], v[1])] = (v[2], v[3], v[4])
            except ValueError: pass
        elif t[0] == "probe": pg = None
        yield i, t, pg


class C16(verif.Spec):
    prop = "C16"
    comp = "export"
    lean_modules = ["ZvbiModel.Props.C16", "ZvbiModel.Props.C16Html", "ZvbiModel.Props.C16Ppm", "ZvbiModel.Props.C16Font",
                    "ZvbiModel.Props.C16HtmlInst", "ZvbiModel.Props.C16Xpm", "ZvbiModel.Props.C16PrintNT"]
    harness = "export_harness"
    harness_link_lib = True
    timeout_per_case = 5.0
    partial_note = ("export write layer, vbi_print_page_region (table mode; non-table mode modelled statement by statement with bounds proved, its "
                    "documented output is an open statement), the text export module, the HTML export module (exp-html.c, without links; incl. the "
                    "instance state that survives an export: html_export_idempotent), the PPM writer and the XPM writer (header, colour table, row "
                    "quoting, footer, exact byte count; pixel values symbolic) and the byte runs of the two region renderers are modelled and proved "
                    "(incl. region_equals_full with symbolic pixel values); the png encoder (libpng), fonts and palettes are not modelled: target "
                    "agreement and bounds for them are judged by the oracle on the real code; the ANSI control sequences of the text module are the "
                    "model's transcription, tied to the code by correspondence")
    assumptions = ["html module: no cell has the link attribute (vbi_resolve_link is not modelled); iconv to the page charset yields one byte or fails",
                   "xpm module: e->network is NULL (no network name in the title), opaque cells for the pixel comparison of the harness",
                   "iconv is a stateless function of the UCS-2 code that writes at most the space it is given (no BOM, no //TRANSLIT)",
                   "rowstride is -1 or a multiple of the pixel size with rowstride >= width * cell width * pixel size; canvas has the documented size",
                   "the region lies inside the page (documented precondition of the draw functions; the print function checks it itself)",
                   "sizes stay below SIZE_MAX/2 (overflow branches of the grow functions are not modelled)",
                   "glibc: realloc(p,0) frees; vsnprintf never returns < 0 for %s"]
    trusted_base = ["harness/export_harness.c + lean/Driver/Export.lean (correspondence: per-op offset/capacity/target trace of the write layer, "
                    "print output bytes (table and non-table mode), canonical digest of the written byte runs of the renderers, byte-exact HTML documents "
                    "(new object and one object reused: htmlnew / htmlrun), PPM header + size, XPM header + palette + footer + size)",
                    "translate/gen_export_html.py: Generated/ExportHtmlCfg.lean flags (H1 / H2 / G1 repaired? free_styles resets the object state?) come from probing the compiled code",
                    "translate/gen_export.py: Generated/ExportCfg.lean flags (F14 / F12 / F27a / F27b repaired?) come from probing the compiled code",
                    "fault injection in the harness (realloc limit inside _vbi_grow_vector_capacity, fopencookie / RLIMIT_FSIZE sinks) is used "
                    "for correspondence only: the property does not quantify over allocation / write failure, so such cases are never judged "
                    "by the oracle, and cases where the model predicts an abort (F26) are not run"]
    open_statements = ["Zvbi.Props.C16PrintNT.print_nt_documented_full: the documented output of vbi_print_page_region in non-table mode "
                       "(outside the wording of C16, which names the table mode): the model is statement by statement and byte-exact against the "
                       "code, bounds and faults are proved (print_nt_bounded); missing: the refinement proof to the text specification (one-row "
                       "regions stated formally; several rows need the pending-spaces loop invariant and a decision about the deviations N1 N2)"]
    rule = ("cases from corpus + seeded generators (synthetic exporters with fault injection; random pages with enlarged, concealed, "
            "DRCS cells; attribute- and colour-heavy pages for the html module; one html export object reused for several exports / targets; print / draw / export / htmlexp / htmlnew / htmlrun / ppmexp / xpmexp ops); non-trivial = the implementation produced at least one non-reject output")

    def __init__(self):
        self._outlen = {}

    # ------------------------------------------------------------------ generators
    def gen_write_case(self, rng, mode):
        ops, first = [], True
        n = rng.choice([0, 1, 2, 3, 5, 8, 13, 30]) if mode != "big" else rng.randrange(2, 7)
        for _ in range(n):
            k = rng.random()
            def blob(lo=0):
                r = rng.random()
                if mode == "big" and r < 0.5: ln = rng.choice([4095, 4096, 4097, 5000, 9000, 70000 if rng.random() < 0.2 else 300])
                elif r < 0.15: ln = lo
                elif r < 0.8: ln = rng.randrange(lo, 12)
                else: ln = rng.choice([60, 127, 128, 255, 256, 257, 300, 600])
                return [rng.randrange(1, 256) for _ in range(ln)]
            if k < 0.3: ops.append("putc %d" % rng.randrange(256))
            elif k < 0.5:
                b = blob(1 if first else 0)
                ops.append("write " + hx(b))
            elif k < 0.6: ops.append("puts " + (hx(blob(1 if first else 0)) if rng.random() < 0.9 else "null"))
            elif k < 0.8: ops.append("printf " + hx(blob()))
            elif k < 0.9: ops.append("flush")
            else:
                b = blob()
                ops.append("direct %d %s" % (len(b) + rng.choice([0, 0, 1, 7, 256, 1000]), hx(b)))
            if ops[-1].split()[0] not in ("flush",) and ops[-1] != "puts null": first = False
        L = sum(len(op_bytes(o)) for o in ops)
        tgt = rng.choice(["mem", "mem", "alloc", "fp", "file"]) if rng.random() > 0.03 else "filebad"
        if tgt == "alloc" and L == 0:
            ops.insert(0, "putc 33"); L += 1
        size = "0"
        if tgt == "mem":
            size = str(max(0, rng.choice([0, 1, L - 1, L, L + 1, L // 2, L + 300, rng.randrange(0, L + 2)])))
        heap, sink = BIG, BIG
        if mode == "fault":
            if rng.random() < 0.6: heap = max(0, rng.choice([0, 1, L - 1, L, L + 1, 2 * L, rng.randrange(0, 2 * L + 3)]))
            if rng.random() < 0.6: sink = max(0, rng.choice([0, 1, L - 1, L, L + 1, rng.randrange(0, L + 2)]))
        return ["begin %s %s %d %d" % (tgt, size, heap, sink)] + ops + ["end"]

    def gen_page(self, rng, wellformed):
        rows, cols = rng.choice([(25, 40), (25, 40), (25, 41), (15, 34), (4, 6), (2, 3), (1, 1), (24, 40)])
        fill = rng.choice([0x20, 0x41, 0x61, 0xE9])
        ops = ["page %d %d 0x%x" % (rows, cols, fill)]
        pg = PageSpec(rows, cols, fill)
        used = set()
        def free(*cells):
            return all(0 <= r < rows and 0 <= c < cols and (not wellformed or (r, c) not in used) for r, c in cells)
        def put(r, c, u, s, fl=0):
            if wellformed and u >= 0xF000: ops.append("drcs %d 1" % ((u >> 6) & 31))   # a DRCS character without font is "shouldn't happen"
            ops.append("cell %d %d 0x%x %d %d %d %d 3" % (r, c, u, s, fl, rng.randrange(8), rng.randrange(8)))
            pg.cells[(r, c)] = (u, s, fl); used.add((r, c))
        chars = [0x41, 0x7A, 0xE4, 0x20AC, 0x3A9, 0x416, 0xEE21, 0xEE7F, 0xEF25, 0x40, 0x20, 0x1F, 0xFFFD, 0x2500, 0x140]
        for _ in range(rng.choice([0, 3, 10, 40])):
            r, c = rng.randrange(rows), rng.randrange(cols)
            u = rng.choice(chars) if rng.random() < 0.8 else rng.randrange(0x20, 0xD800)
            fl = rng.choice([0, 0, 0, 1, 2, 4, 8, 16, 31])
            k = rng.random()
            if wellformed and cols < 40 and k < 0.8: k = 0.0          # caption pages have no enlarged characters
            if k < 0.5:
                if free((r, c)): put(r, c, u, 0, fl)
            elif k < 0.6:
                if free((r, c), (r, c + 1)): put(r, c, u, 1, fl); put(r, c + 1, u, 4, fl)
            elif k < 0.7:
                if free((r, c), (r + 1, c)): put(r, c, u, 2, fl); put(r + 1, c, u, 6, fl)
            elif k < 0.8:
                if free((r, c), (r, c + 1), (r + 1, c), (r + 1, c + 1)):
                    put(r, c, u, 3, fl); put(r, c + 1, u, 4, fl); put(r + 1, c, u, 7, fl); put(r + 1, c + 1, u, 5, fl)
            elif k < 0.9:
                pl = rng.randrange(32)
                if free((r, c)):
                    if rng.random() < 0.7: ops.append("drcs %d 1" % pl)
                    put(r, c, 0xF000 + pl * 64 + rng.randrange(64), 0, fl)
            elif not wellformed:
                put(r, c, u, rng.randrange(8), fl)            # malformed: any size anywhere
        return ops, pg

    def gen_region(self, rng, pg, allow_cut):
        for _ in range(50):
            k = rng.random()
            if k < 0.25: col, row, w, h = 0, 0, pg.cols, pg.rows
            else:
                w = rng.randrange(1, pg.cols + 1); h = rng.randrange(1, min(pg.rows, 6) + 1)
                col = rng.randrange(0, pg.cols - w + 1); row = rng.randrange(0, pg.rows - h + 1)
            if allow_cut or not pg.wide_last(col, row, w, h):
                return col, row, w, h
        return 0, 0, pg.cols, pg.rows

    def gen_page_case(self, rng, tier):
        wellformed = rng.random() < 0.6
        ops, pg = self.gen_page(rng, wellformed)
        for _ in range(rng.randrange(1, 4)):
            col, row, w, h = self.gen_region(rng, pg, True)
            fmt = rng.choice(list(FORMATS))
            need = len(expected_print(pg, FORMATS[fmt], col, row, w, h))
            size = max(0, rng.choice([need, need, need + 1, need - 1, need - 2, need // 2, 0, need + 100]))
            if rng.random() < 0.08: col, row, w, h = rng.choice([(-1, 0, 2, 2), (0, 0, pg.cols + 1, 1), (0, pg.rows, 1, 1), (0, 0, 0, 1), (0, 0, 1, 0), (1, 1, -1, 1)])
            ops.append("%s %s %d %d %d %d %d" % ("print" if rng.random() < 0.85 else "printnt", fmt, size, col, row, w, h))
        for _ in range(rng.randrange(1, 4)):
            col, row, w, h = self.gen_region(rng, pg, rng.random() < 0.3)
            cc = rng.random() < 0.2
            cw = 16 if cc else 12
            fmt = rng.choice(["rgba", "rgba", "pal8", "pal8", "yuv420", "rgb16", "bgra"])
            ct = {"rgba": 4, "pal8": 1}.get(fmt, 1)
            k = rng.random()
            if k < 0.3: stride = -1
            elif k < 0.6: stride = w * cw * ct
            else: stride = w * cw * ct + ct * rng.choice([1, 3, 12, 13, 40])
            if rng.random() < 0.04: stride = max(0, w * cw * ct - ct)          # rejected on both sides
            if cc: ops.append("draw cc %s %d %d %d %d %d" % (fmt, stride, col, row, w, h))
            else: ops.append("draw vt %s %d %d %d %d %d %d %d" % (fmt, stride, col, row, w, h, rng.randrange(2), rng.randrange(2)))
        for _ in range(rng.randrange(0, 3)):
            ops.append("textexp %s %d %d" % (rng.choice(list(FORMATS)), rng.choice([35, 32, 46, 64, 10, 31, 0x2588, 0xE000, 0xE001, 99999, rng.randrange(10, 70000)]),
                                             rng.choice([0, 0, 1, 2])))
        for _ in range(rng.choice([0, 0, 1, 2])):
            ops.append(self.gen_htmlexp(rng, pg))
        if wellformed and rng.random() < (0.4 if tier == "quick" else 0.7):
            ops.append("export " + rng.choice(MODULES))
        if wellformed and rng.random() < 0.25:
            ops.append("ppmexp %d" % rng.randrange(2))
        if wellformed and rng.random() < 0.3:
            ops.append("xpmexp %d %d %d %d %d" % (rng.randrange(2), rng.randrange(2), rng.randrange(2), rng.choice([0x100, 0x1FF, 0x899, 1, 0x123]),
                                                   rng.choice([0, 1, 0x3F7F, 0x79])))
        return ops

    def gen_htmlexp(self, rng, pg=None):
        """htmlexp <font> <gfx_chr> <color> <header> <reveal> <pgno> <subno> <screen>: gfx_chr is never one of < > & (low byte) here, and
        caption page numbers (< 0x100) are used only by gen_html_known (the two known deviations have their own cases)"""
        g = rng.choice([35, 35, 32, 46, 64, 0x2588, 0xE000, 0xE001, 99999, 12, rng.randrange(10, 70000)])
        ge = 0x20 if g > 0xE000 or g < 0x20 else g
        if ge % 256 in (0x3C, 0x3E, 0x26): g = 35
        return "htmlexp %d %d %d %d %d %d %d %d" % (rng.choice(HTML_FONTS), g, rng.randrange(2), rng.randrange(2), rng.randrange(2),
                                                    rng.choice([0x100, 0x1FF, 0x899, 0x8FF, 0x123]), rng.choice([0, 1, 0x3F7F, 0x79, 0x2359]), rng.randrange(40))

    def gen_html_case(self, rng):
        """pages that exercise the span / attribute state machine: few colours, many attribute changes, blanks, entities"""
        rows, cols = rng.choice([(25, 40), (3, 8), (2, 5), (1, 1), (6, 12), (4, 40)])
        ops = ["page %d %d 0x%x" % (rows, cols, rng.choice([0x20, 0x20, 0x41, 0xA0]))]
        cols_fg = [rng.randrange(40) for _ in range(rng.choice([1, 2, 3]))]
        cols_bg = [rng.randrange(40) for _ in range(rng.choice([1, 2, 3]))]
        chars = [0x41, 0x20, 0x20, 0xA0, 0x3C, 0x3E, 0x26, 0x22, 0x40, 0xE9, 0x20AC, 0x100, 0x140, 0xEE21, 0xEF7F, 0xE600, 0xF000, 0xD800, 0, 9, 0xFFFF, 0xFF, 0x80]
        dens = rng.choice([0.2, 0.6, 1.0])
        for r in range(rows):
            for c in range(cols):
                if rng.random() < dens:
                    fl = rng.choice([0, 0, 1, 2, 3, 4, 5, 6, 7, 8, 16, 12, 31]) if rng.random() < 0.7 else rng.randrange(32)
                    ops.append("cell %d %d 0x%x %d %d %d %d 3" % (r, c, rng.choice(chars) if rng.random() < 0.9 else rng.randrange(0x10000),
                                                                 rng.choice([0, 0, 0, 0, 1, 2, 3, 4, 5, 6, 7]), fl, rng.choice(cols_fg), rng.choice(cols_bg)))
        for _ in range(rng.randrange(1, 4)): ops.append(self.gen_htmlexp(rng))
        return ops

    def gen_html_reuse_case(self, rng):
        """ONE html export object (htmlnew) used for several exports (htmlrun: alloc / size query + mem / stdio / file), as applications
        do; before each htmlrun the same page and options are exported by a new object (htmlexp) as the reference the oracle compares with"""
        rows, cols = rng.choice([(1, 1), (1, 2), (2, 5), (3, 8), (6, 12), (25, 40)])
        ops = ["page %d %d 0x%x" % (rows, cols, rng.choice([0x20, 0x41, 0x41]))]
        cols_fg = [rng.randrange(8) for _ in range(rng.choice([1, 2, 3]))]
        cols_bg = [rng.randrange(8) for _ in range(rng.choice([1, 2, 3]))]
        def cell(r, c):
            return "cell %d %d 0x%x %d %d %d %d 3" % (r, c, rng.choice([0x41, 0x42, 0x20, 0x3C, 0xE9, 0x20AC, 0xEE21]), rng.choice([0, 0, 0, 1, 4]),
                                                     rng.choice([0, 0, 1, 2, 4, 8, 16]), rng.choice(cols_fg), rng.choice(cols_bg))
        dens = rng.choice([0.3, 1.0])
        for r in range(rows):
            for c in range(cols):
                if rng.random() < dens and r * cols + c < 60: ops.append(cell(r, c))
        g = rng.choice([35, 35, 46, 0x2588])
        color, header, reveal = (1 if rng.random() < 0.85 else 0), rng.randrange(2), rng.randrange(2)
        ops.append("htmlnew %d %d %d %d" % (g, color, header, reveal))
        for _ in range(rng.randrange(2, 6)):
            if rng.random() < 0.3: ops.append(cell(rng.randrange(rows), rng.randrange(cols)))
            font, pgno, subno, screen = rng.choice(HTML_FONTS), rng.choice([0x100, 0x1FF, 0x899]), rng.choice([0, 1, 0x3F7F]), rng.randrange(8)
            ops.append("htmlexp %d %d %d %d %d %d %d %d" % (font, g, color, header, reveal, pgno, subno, screen))
            for _ in range(rng.choice([1, 1, 2])):
                ops.append("htmlrun %s %d %d %d %d" % (rng.choice(["mem", "mem", "alloc", "fp", "file"]), font, pgno, subno, screen))
        return ops

    def gen_g1_case(self, rng):
        """G1: an italic Cyrillic small letter U+0440..U+045F: its slanted glyph would be row 48 of the 48-row font image"""
        rows, cols = rng.choice([(25, 40), (2, 40)])
        r, c = rng.randrange(rows), rng.randrange(cols)
        ops = ["page %d %d 0x41" % (rows, cols), "cell %d %d 0x%x %d 4 7 0 3" % (r, c, rng.randrange(0x440, 0x460), rng.choice([0, 0, 2, 6]))]
        fmt = rng.choice(["rgba", "pal8"])
        ops.append("draw vt %s -1 0 %d %d 1 1 1" % (fmt, r, cols))
        return ops

    def gen_html_known(self, rng, which, g=60):
        """the two known deviations of exp-html.c (H1 caption title, H2 gfx_chr not escaped); disappear once repaired"""
        ops = ["page 2 3 0x41", "cell 0 1 0xee21 0 0 7 0 3"]
        if which == "H1": ops.append("htmlexp 0 35 %d 1 0 %d 0 0" % (rng.randrange(2), rng.choice([1, 8, 0xFF])))
        else: ops.append("htmlexp 0 %d %d %d 0 256 0 0" % (g, rng.randrange(2), rng.randrange(2)))
        return ops

    def gen_f14_case(self, rng):
        """a wide character in the last column of the drawn region / of the page (last op of the case)"""
        rows, cols = rng.choice([(25, 40), (4, 6)])
        ops = ["page %d %d 0x41" % (rows, cols)]
        r, c = rng.randrange(rows - 1), rng.randrange(1, cols - 1)
        s = rng.choice([1, 3])
        ops.append("cell %d %d 0x42 %d 0 7 0 3" % (r, c, s))
        ops.append("cell %d %d 0x42 4 0 7 0 3" % (r, c + 1))
        if s == 3:
            ops.append("cell %d %d 0x42 7 0 7 0 3" % (r + 1, c)); ops.append("cell %d %d 0x42 5 0 7 0 3" % (r + 1, c + 1))
        fmt = rng.choice(["rgba", "pal8"]); ct = 4 if fmt == "rgba" else 1
        w = c + 1
        stride = w * 12 * ct + (0 if rng.random() < 0.5 else 16 * ct)
        ops.append("draw vt %s %d 0 %d %d 1 1 1" % (fmt, stride, r, w))
        return ops

    def gen_cases(self, rng, tier):
        N = 2 if tier == "quick" else 10
        cases = [["consts", "probe", "probehtml"]]
        for _ in range(700 * N): cases.append(self.gen_write_case(rng, "plain"))
        for _ in range(60 * N): cases.append(self.gen_write_case(rng, "big"))
        fault = [self.gen_write_case(rng, "fault") for _ in range(500 * N)]
        # the property does not quantify over allocation failure: cases in which the model predicts an abort
        # under injected OOM (assert after a failed MEM->ALLOC switch, F26, an observation) are not run
        p = subprocess.run([verif.model_exe(), "export"], input=verif.flatten(fault).encode(), stdout=subprocess.PIPE, timeout=600)
        mo = verif.split_cases(p.stdout.decode())
        self.skipped_model_abort = 0
        for i, c in enumerate(fault):
            if any("FAULT" in l for l in mo.get(i, [])): self.skipped_model_abort += 1
            else: cases.append(c)
        self.extra_coverage = {"fault_injection_cases_skipped_model_predicts_abort": self.skipped_model_abort}
        for _ in range(500 * N): cases.append(self.gen_page_case(rng, tier))
        for _ in range(3): cases.append(self.gen_f14_case(rng))
        for _ in range(60 * N): cases.append(self.gen_html_case(rng))
        for _ in range(2): cases.append(self.gen_g1_case(rng))
        for _ in range(40 * N): cases.append(self.gen_html_reuse_case(rng))
        # the smallest reuse case: one coloured cell, size query + export with one object (Props/C16HtmlInst html_export_reuse_counterexample)
        cases.append(["page 1 1 0x41", "cell 0 0 0x41 0 0 3 4 3", "htmlnew 35 1 0 0", "htmlexp 0 35 1 0 0 256 0 0", "htmlrun mem 0 256 0 0",
                      "htmlrun alloc 0 256 0 0"])
        for w in ("H1", "H1"): cases.append(self.gen_html_known(rng, w))
        for g in (60, 62, 38, 0x13C, 0x226): cases.append(self.gen_html_known(rng, "H2", g))
        # F12 shapes (repaired): NULL buffer size query; empty write into a NULL buffer
        cases.append(["begin mem null %d %d" % (BIG, BIG), "write 414243", "end"])
        cases.append(["begin alloc 0 %d %d" % (BIG, BIG), "write -", "putc 65", "end"])
        # malformed op lines (both sides must reject them the same way)
        bad = []
        for _ in range(120):
            base = rng.choice(["begin mem 4 10 10", "putc 65", "write 4142", "puts null", "printf 41", "direct 4 4142", "end", "flush",
                               "page 25 40 0x20", "cell 0 0 0x41 0 0 7 0 3", "drcs 3 1", "print UTF-8 10 0 0 1 1",
                               "draw vt rgba -1 0 0 1 1 1 1", "draw cc pal8 -1 0 0 1 1", "export text", "consts",
                               "htmlnew 35 1 1 0", "htmlrun mem 0 256 0 0", "htmlrun alloc 1 511 1 3", "xpmexp 1 1 1 256 0"]).split()
            k = rng.random()
            if k < 0.3 and len(base) > 1: base[rng.randrange(1, len(base))] = rng.choice(["x", "-7", "999999999", "4g", "", "0x"])
            elif k < 0.5: base.append("1")
            elif k < 0.7 and len(base) > 1: base.pop()
            elif k < 0.8: base[0] = base[0] + "x"
            bad.append(" ".join(t for t in base if t != ""))
        cases.append(bad)
        return cases

    # ------------------------------------------------------------------ oracle
    def classify(self, case):
        for l in case:
            t = l.split()[0]
            if t == "begin": return "write:" + l.split()[1] + (":fault" if not l.endswith("%d %d" % (BIG, BIG)) else "")
            if t == "page": return "page"
        return case[0].split()[0] if case else "empty"

    def nontrivial(self, case, impl_out):
        self._outlen["\n".join(case)] = len(impl_out)
        return verif.Spec.nontrivial(self, case, impl_out)

    def oracle_write(self, begin, ops, line):
        t = begin.split()
        tgt, size, heap, sink = t[1], t[2], int(t[3]), int(t[4])
        if tgt == "filebad":
            return None if "ret=0 sink=unlinked trace=-" in line else "vbi_export_file with a file that cannot be created: " + line
        if heap < BIG or sink < BIG:
            return None        # injected failure: outside the property's quantifier, correspondence only
        out = b"".join(op_bytes(o) for o in ops)
        L = len(out)
        reserve = max([int(o.split()[1]) for o in ops if o.startswith("direct")] + [0])
        heap_ok = heap >= 2 * (L + reserve) + 140000
        f = dict(kv.split("=", 1) for kv in line.split()[2:] if "=" in kv)
        if line.split()[1] != tgt: return "result line for another target"
        if "GUARD" in line: return "vbi_export_mem wrote into a zero-size buffer"
        if tgt == "mem":
            ret = int(f["ret"]); buf = unhx(f["buf"]); n = 0 if size == "null" else int(size)
            if len(buf) != n: return "harness: buffer length"
            if heap_ok and ret != L: return "vbi_export_mem returned %d, the output has %d bytes" % (ret, L)
            if ret not in (-1, L): return "vbi_export_mem returned %d, neither -1 nor the size needed %d" % (ret, L)
            if ret == L:
                k = min(L, n)
                if buf[:k] != out[:k]: return "vbi_export_mem: buffer differs from the output (first %d bytes)" % k
                if L <= n and any(b != 0xAA for b in buf[L + 1:]): return "vbi_export_mem wrote past the end of the data"
                if L < n and buf[L] not in (0xAA, 0): return "vbi_export_mem wrote past the end of the data"
        elif tgt == "alloc":
            if heap_ok and f["ret"] != "1": return "vbi_export_alloc failed without an allocation failure"
            if f["ret"] == "1" and unhx(f["data"]) != out: return "vbi_export_alloc data differs from the output"
            if f["ret"] == "0" and f["data"] != "untouched": return "vbi_export_alloc failed but modified *buffer / *buffer_size"
        else:
            ok = f["ret"] == "1"
            data = None if f["sink"] == "unlinked" else unhx(f["sink"])
            if heap_ok and sink >= L and not ok: return "%s export failed without an injected failure" % tgt
            if sink < L and ok: return "%s export reported success although the sink refused data" % tgt
            if ok and data != out: return "%s export: stream content differs from the output" % tgt
            if not ok and data is not None and out[:len(data)] != data: return "%s export: stream content is not a prefix of the output" % tgt
            if not ok and tgt == "file" and data is not None: return "vbi_export_file failed but left the file behind"
        return None

    def oracle(self, case, out):
        if len(out) != len(case):
            return "output count %d != ops %d" % (len(out), len(case))
        begin, ops = None, []
        pgver, hopts, href = 0, None, {}
        for (i, t, pg), line in zip(pages_of(case), out):
            if t[0] in ("page", "cell", "drcs", "probe", "probehtml"): pgver += 1
            if t[0] == "htmlnew":
                hopts = t[1:5] if line == "ok htmlnew" else None
                continue
            if t[0] == "htmlexp" and line.startswith("ok ") and line != "ok fail" and len(t) == 9:
                href[(pgver, t[1], t[2], t[3], t[4], t[5], t[6], t[7], t[8])] = unhx(line.split()[2])
            if t[0] == "htmlrun" and line.startswith("ok") and hopts is not None and pg is not None and len(t) == 6:
                if line == "ok fail": return "html: export with a reused object failed"
                f = line.split(); need, n, data = int(f[1]), int(f[2]), unhx(f[3])
                key = (pgver, t[2], hopts[0], hopts[1], hopts[2], hopts[3], t[3], t[4], t[5])
                if need != n:
                    return "html: one export object, size query says %d, the export that follows has %d bytes" % (need, n)
                if key in href and data != href[key]:
                    return "html: export with a reused object differs from the export of the same page with a new object"
                href.setdefault(key, data)
                w = self.oracle_html(pg, ["htmlexp", t[2], hopts[0], hopts[1], hopts[2], hopts[3], t[3], t[4], t[5]], "ok %d %s" % (n, f[3]))
                if w: return w
                continue
            if t[0] == "begin" and line == "ok begin": begin, ops = case[i], []
            elif t[0] == "end" and begin and line.startswith("ok "):
                w = self.oracle_write(begin, ops, line); begin = None
                if w: return w
            elif begin and line == "ok q": ops.append(case[i])
            elif t[0] == "export":
                if line.startswith("ok DISAGREE"): return "export targets disagree: " + line[12:]
            elif t[0] in ("print", "printnt") and line.startswith("ok"):
                if "OVERRUN" in line: return "vbi_print_page_region wrote more than the buffer size"
                if t[0] == "printnt" and pg is not None:
                    size, col, row, w, h = [int(x) for x in t[2:7]]
                    ret = int(line.split()[1]); data = unhx(line.split()[2])
                    if ret > size: return "vbi_print_page_region returned more than the buffer size"
                    if col < 0 or row < 0 or col + w > pg.cols or row + h > pg.rows:
                        if ret != 0: return "vbi_print_page_region accepted a region outside the page"
                    elif h == 1 and w >= 1 and all(pg.get(row, c)[1] == 0 for c in range(col, col + w)):
                        # documented: one row, no enlarged characters: every character of the segment, blanks included
                        codec = FORMATS[t[1]]
                        exp = b"".join(encode_char(pg.get(row, c)[0] if pg.get(row, c)[0] < 0xE600 else 0x20, codec) for c in range(col, col + w))
                        if len(exp) <= size:
                            if data != exp and not any(encode_char(pg.get(row, c)[0], codec)[:1] == b"@" for c in range(col, col + w)):
                                return "printnt: one-row output differs from the row's characters"
                        elif ret != 0: return "printnt: buffer too small but nonzero result"
                if t[0] == "print" and pg is not None:
                    size, col, row, w, h = [int(x) for x in t[2:7]]
                    ret = int(line.split()[1]); data = unhx(line.split()[2])
                    if ret > size: return "vbi_print_page_region returned more than the buffer size"
                    if col < 0 or row < 0 or col + w > pg.cols or row + h > pg.rows:
                        if ret != 0: return "vbi_print_page_region accepted a region outside the page"
                        continue
                    if w < 1 or h < 1: continue
                    exp = expected_print(pg, FORMATS[t[1]], col, row, w, h)
                    if len(exp) <= size:
                        if data != exp:
                            return "print: output differs from the page text (%s)" % self.print_diff(pg, t[1], col, row, w, h, data, exp)
                    elif ret != 0:
                        return "print: buffer too small but nonzero result (character replaced by space)"
            elif t[0] == "textexp" and line.startswith("ok") and pg is not None:
                w = self.oracle_text(pg, t, line)
                if w: return w
            elif t[0] == "ppmexp" and line.startswith("ok") and pg is not None:
                if line == "ok fail": return "ppm export failed"
                f = line.split(); n = int(f[1]); hdr = unhx(f[2][4:])
                cw, lines = (16, 26 if t[1] == "1" else 13) if pg.cols < 40 else (12, 20 if t[1] == "1" else 10)
                if hdr != b"P6 %d %d 255\n" % (cw * pg.cols, lines * pg.rows): return "ppm: header is not P6 <width> <height> 255"
                if n != len(hdr) + 3 * cw * pg.cols * lines * pg.rows: return "ppm: size is not header + 3 * width * height"
                if f[3] != "px=1": return "ppm: pixels are not the rendered rows in R G B order"
            elif t[0] == "xpmexp" and line.startswith("ok") and pg is not None:
                w = self.oracle_xpm(pg, t, line)
                if w: return w
            elif t[0] == "htmlexp" and line.startswith("ok") and pg is not None:
                w = self.oracle_html(pg, t, line)
                if w: return w
            elif t[0] == "draw" and line.startswith("ok n="):
                f = dict(kv.split("=") for kv in line.split()[1:])
                cc = t[1] == "cc"; cw, ch = (16, 26) if cc else (12, 10)
                ct = {"rgba": 4, "pal8": 1}.get(t[2], 0)
                stride, col, row, w, h = [int(x) for x in t[3:8]]
                if ct == 0:
                    if f["n"] != "0": return "unsupported pixel format drew something"
                    continue
                S = stride if stride >= 0 else pg.cols * cw * ct
                if int(f["bmax"]) > w * cw * ct or int(f["hi"]) > S * h * ch:
                    return "render writes outside the region rectangle"
                if f["eq"] == "0": return "region rendering differs from the full page rendering"
                if f.get("cf") == "0": return "concealed / flashing characters are not drawn as spaces"
                if int(f["bytes"]) == 0 and not all(pg.get(r, c)[1] in OVER for r in range(row, row + h) for c in range(col, col + w)):
                    return "supported format drew nothing"
        return None

    def oracle_text(self, pg, t, line):
        """the text module: the page's characters row by row, graphics -> gfx_chr, others not printable -> space"""
        codec = FORMATS[t[1]]; g = int(t[2]); ctl = int(t[3])
        gfx = 0x20 if g < 0x20 or g > 0xE000 else g
        if line == "ok fail": return "text export failed"
        data = unhx(line.split()[2])
        if ctl > 0:
            if codec == "utf-16-le": return None          # escape bytes cannot be told from character bytes
            if not data.endswith(b"\x1b[m\n"): return "text export: terminal reset missing at the end"
            data = re.sub(rb"\x1b\[[0-9;]*m|\x1b#[0-9]", b"", data[:-4]) + b"\n"
        exp = b""; prev = 0xFF
        for r in range(pg.rows):
            for c in range(pg.cols):
                u, s, _ = pg.get(r, c)
                skip = ctl > 0 and s in OVER and prev != s
                prev = s
                if skip: continue
                u2 = u if u < 0xE600 else (gfx if 0xEE00 <= u <= 0xEFFF else 0x20)
                exp += encode_char(u2, codec)
            exp += b"\n"
        if data != exp: return "text export (control=%d): output differs from the page text" % ctl
        return None

    def oracle_xpm(self, pg, t, line):
        """the xpm module, read the way an XPM reader does (independent of the Lean model): values line, 40 palette lines with distinct
        codes none of which can end a C string, <height> image lines of <width> codes (harness field px: also the pixels), footer with
        the extension block; the size is header + height * (width + 4) + footer"""
        aspect, transp, titled, pgno, subno = [int(x) for x in t[1:6]]
        if line == "ok fail": return "xpm export failed"
        f = line.split(); n = int(f[1]); hdr = unhx(f[2][4:]); ftr = unhx(f[3][4:])
        cw, lines = (16, 26 if aspect else 13) if pg.cols < 40 else (12, 20 if aspect else 10)
        W, H = cw * pg.cols, lines * pg.rows
        title = b"" if not titled else (b"Closed Caption" if pgno < 0x100 else
                                        ("Teletext Page %3x" % pgno + ("" if subno == 0x3F7F else ".%x" % subno)).encode())
        m = re.fullmatch(rb'/\* XPM \*/\nstatic char \*image\[\] = \{\n/\* width height ncolors chars_per_pixel \*/\n"(\d+) (\d+) 40 1( XPMEXT)?",\n'
                         rb'/\* colors \*/\n((?:"[^"\\\n] c (?:#[0-9A-F]{6}|None)",\n){40})/\* pixels \*/\n', hdr)
        if not m: return "xpm: header / colour table malformed"
        if (int(m.group(1)), int(m.group(2))) != (W, H): return "xpm: width / height in the header are not those of the page"
        if not m.group(3): return "xpm: XPMEXT missing in the values line although an extension block follows"
        pal = m.group(4).split(b"\n")[:40]
        if len(set(l[1] for l in pal)) != 40: return "xpm: colour codes are not distinct"
        if [i for i, l in enumerate(pal) if l.endswith(b'None",')] != ([8] if transp else []): return "xpm: transparent colour entry"
        want = (b'"XPMEXT title ' + title + b'",\n' if title else b"") + b'"XPMEXT software verif",\n"XPMENDEXT"\n};\n'
        if ftr != want: return "xpm: footer / extension block"
        if n != len(hdr) + H * (W + 4) + len(ftr): return "xpm: size is not header + height * (width + 4) + footer"
        if f[4] != "px=1": return "xpm: image lines are not the rendered rows (quoting, colour codes, line selection)"
        return None

    def oracle_html(self, pg, t, line):
        """the html module: between <pre> and </pre>, after removing the tags and decoding the entities, exactly the page's characters row by
        row (graphics -> gfx_chr, not printable -> space, not in the page charset -> numeric entity); no raw < > & in character data; every
        kind of tag opened and closed alternately and closed at the end; the header's tags complete.  Independent of the Lean model."""
        font, g, color, header, reveal, pgno, subno, screen = [int(x) for x in t[1:9]]
        if line == "ok fail": return "html export failed"
        data = unhx(line.split()[2])
        gfx = 0x20 if g < 0x20 or g > 0xE000 else g
        a, b = data.find(b"<pre>"), data.rfind(b"</pre>")
        if a < 0 or b < a: return "html: no <pre> ... </pre>"
        head, body, tail = data[:a], data[a + 5:b], data[b + 6:]
        if header:
            if not head.startswith(b"<!DOCTYPE HTML PUBLIC") or tail != b"\n</body>\n</html>\n": return "html: header / footer missing"
            if b"</title>" not in head or head.count(b"<title") != 1: return "html: title element is not opened with '<title'"
            for tag in (b"html", b"head", b"body"):
                if head.count(b"<" + tag) != 1: return "html: header element missing"
            lang = HTML_LANG[font]
            if (b'<body lang="' + lang.encode() + b'" ' if lang else b"<body text=") not in head: return "html: body language attribute"
            want = ("Closed Caption" if pgno < 0x100 else "Teletext Page %3x" % pgno + ("" if subno == 0x3F7F else ".%x" % subno)).encode()
            if (b">" + want + b"</title>") not in head: return "html: page title text"
        elif head or tail != b"\n": return "html: header=0 but data outside <pre> ... </pre>"
        toks, pos, depth = [], 0, {b"span": 0, b"u": 0, b"b": 0, b"i": 0}
        while pos < len(body):
            ch = body[pos:pos + 1]
            if ch == b"<":
                m = HTML_TAG.match(body, pos)
                if not m: return "html: raw '<' in character data"
                tg = m.group(0); kind = tg.strip(b"</>").split(b" ")[0]
                depth[kind] += -1 if tg.startswith(b"</") else 1
                if depth[kind] not in (0, 1): return "html: tag opened twice or closed without being open"
                pos = m.end()
            elif ch == b"&":
                m = HTML_ENT.match(body, pos)
                if not m: return "html: raw '&' in character data"
                e = m.group(0)
                toks.append(("u", int(m.group(1))) if m.group(1) else ("b", {b"&lt;": 0x3C, b"&gt;": 0x3E, b"&amp;": 0x26}[e]))
                pos = m.end()
            elif ch == b">": return "html: raw '>' in character data"
            else: toks.append(("b", body[pos])); pos += 1
        if any(depth.values()): return "html: tag not closed before </pre>"
        exp = []
        for r in range(pg.rows):
            for c in range(pg.cols):
                u, s, fl = pg.get(r, c)
                if s > 3 or ((fl >> 4) & 1 and not reveal) or u == 0xA0: u = 0x20      # a no-break space is written as a space
                if u < 0xE600: exp.append(("b", u) if u < 256 else ("u", u))
                elif 0xEE00 <= u <= 0xEFFF: exp.append(("b", gfx % 256))
                else: exp.append(("b", 0x20))
            exp.append(("b", 10))
        if toks != exp: return "html: text differs from the page's characters"
        return None

    def print_diff(self, pg, fmt, col, row, w, h, data, exp):
        """classify the known deviation: print_unicode() takes an encoding starting with '@' for a failed conversion"""
        codec = FORMATS[fmt]; sp = " ".encode(codec); pos = 0; seen = False
        for r in range(row, row + h):
            for c in range(col, col + w):
                u, s, _ = pg.get(r, c)
                e = encode_char(0x20 if s > 3 else u, codec)
                if data[pos:pos + len(e)] == e: pos += len(e)
                elif e[:1] == b"@" and data[pos:pos + len(sp)] == sp: pos += len(sp); seen = True
                else: return "other"
            if r < row + h - 1:
                if data[pos:pos + 1] != b"\n": return "other"
                pos += 1
        return "at-sign heuristic" if seen and pos == len(data) else "other"

    # ------------------------------------------------------------------ signatures
    def crashed_op(self, case):
        n = self._outlen.get("\n".join(case))
        if n is None or n >= len(case): return None, None, None
        for i, t, pg in pages_of(case):
            if i == n: return i, t, pg
        return None, None, None

    def f14_shape(self, t, pg):
        if pg is None or not t: return False
        if t[0] == "draw" and t[1] == "vt" and len(t) == 10:
            try: stride, col, row, w, h = [int(x) for x in t[3:8]]
            except ValueError: return False
            return 0 <= col and 0 <= row and w >= 1 and h >= 1 and col + w <= pg.cols and row + h <= pg.rows and pg.wide_last(col, row, w, h)
        if t[0] == "export" and t[1].split(",")[0] in ("ppm", "png", "xpm"):
            return pg.wide_last(0, 0, pg.cols, pg.rows)
        return False

    def signature(self, case, what):
        if what.startswith("crash"):
            i, t, pg = self.crashed_op(case)
            if ("heap-buffer-overflow" in what or "ABORTING" in what) and self.f14_shape(t, pg):
                return "F14:wide-character-in-last-column-drawn-24px"
            if "global-buffer-overflow" in what and "draw_char" in what and pg is not None and t and t[0] in ("draw", "export", "ppmexp") \
                    and any(0x440 <= pg.get(r, c)[0] <= 0x45F and (pg.get(r, c)[2] >> 2) & 1 for r in range(pg.rows) for c in range(pg.cols)):
                return "G1:italic-cyrillic-glyph-outside-font-image"
            if "null pointer passed as argument" in what and t and t[0] == "end":
                return "F12:memcpy-null-pointer-size-0"
            return re.sub(r"\d+", "N", what)[:160]
        if what == "render writes outside the region rectangle":
            for i, t, pg in pages_of(case):
                if t[0] == "draw" and self.f14_shape(t, pg): return "F14:wide-character-in-last-column-drawn-24px"
        if what.startswith("html: title element is not opened"):
            for i, t, pg in pages_of(case):
                if t[0] == "htmlexp" and len(t) == 9 and t[6].isdigit() and int(t[6]) < 0x100: return "H1:html-caption-title-tag-lacks-lt"
        if what.startswith("html: raw '") or what == "html: text differs from the page's characters":
            for i, t, pg in pages_of(case):
                if t[0] == "htmlexp" and len(t) == 9 and t[2].isdigit() and int(t[2]) <= 0xE000 and int(t[2]) % 256 in (0x3C, 0x3E, 0x26) \
                        and pg is not None and any(0xEE00 <= pg.get(r, c)[0] <= 0xEFFF for r in range(pg.rows) for c in range(pg.cols)):
                    return "H2:html-gfx-chr-not-escaped"
        if what.startswith("print: output differs from the page text (at-sign"):
            return "F27b:print-unicode-at-sign-heuristic-replaces-character"
        if what.startswith("print: buffer too small but nonzero result"):
            return "F27a:print-region-small-buffer-replaces-character-by-space"
        return re.sub(r"\d+", "N", what)[:160]


if __name__ == "__main__":
    verif.run_check(C16())
