#!/usr/bin/env python3
"""C09 - XDS packets are delivered intact, exactly once, and only with a valid checksum.

Model/theorems: lean/ZvbiModel/Xds/*, lean/ZvbiModel/Props/C09.lean.
Correspondence: every byte pair goes through vbi_xds_demux_feed (`d`) resp. vbi_decode_caption
line 284 (`s`) in harness/xds_harness.c and through the Lean step functions; per pair both print
the delivered packet, the current buffer index, XDS mode, and a digest of all buffers.
Oracle: lib/xds_util.py reference receiver (the property itself) against the real code's
deliveries, plus a service-decoder oracle (`p` ops) for programme / network information.
"""
import json, os, subprocess, sys
sys.path.insert(0, os.path.join(os.path.dirname(os.path.abspath(__file__)), "..", "lib"))
import verif
import xds_util as X

# ---- known_findings.<Cxx>.json is merged here (lib/verif.py only reads known_findings.json) ----
_load_known = verif.load_known
def _load_known_merged():
    k = _load_known()
    p = os.path.join(verif.VERIF, "known_findings.C09.json")
    if os.path.exists(p):
        k = dict(k)
        have = {f.get("id") for f in k.get("findings", [])}      # newer lib/verif.py merges the file itself
        k["findings"] = list(k.get("findings", [])) + [f for f in json.load(open(p)).get("findings", [])
                                                       if f.get("id") not in have]
    return k
verif.load_known = _load_known_merged

def strip_events(line):
    """drop the ` ev:...` groups the harness appends in `p` mode (the Lean driver does not model the
    service decoder's events; they are judged by service_oracle)"""
    if " ev:" not in line:
        return line
    out, skip = [], False
    for t in line.split(" "):
        if t.startswith("ev:"):
            skip = True
        elif t == "dec":
            skip = False
        if not skip:
            out.append(t)
    return " ".join(out)

_first_diff = verif.first_diff
def _diff_events_aware(a, b):
    """the Lean driver prints the service decoder's events for `p` ops, until a packet type its service
    model does not cover was delivered; from then on it prints ` ev?` and events are not compared"""
    aa, bb = [], []
    for i in range(max(len(a), len(b))):
        x = a[i] if i < len(a) else None
        y = b[i] if i < len(b) else None
        if x is not None and y is not None and (" ev?" in x or " ev?" in y):
            x, y = strip_events(x.replace(" ev?", "")), strip_events(y.replace(" ev?", ""))
        if x is not None: aa.append(x)
        if y is not None: bb.append(y)
    return _first_diff(aa, bb)
verif.first_diff = _diff_events_aware

SIG_A = "sep-parity-keeps-curr-sp"
SIG_B = "demux-unsupported-header-discards-current"
SIG_C = "demux-0x1n-0x4n-share-buffer"
SIG_BC = "demux-unsupported-header-and-shared-buffer"
SIG_T = "prog-type-never-announced"


def parse_case(case):
    """-> {mode: [(op index, (b1, b2))]} for well-formed d/s/p ops"""
    by = {}
    for i, l in enumerate(case):
        w = l.split()
        if len(w) == 2 and w[0] in ("d", "s", "p") and len(w[1]) == 4:
            try:
                v = bytes.fromhex(w[1])
            except ValueError:
                continue
            by.setdefault(w[0], []).append((i, (v[0], v[1])))
    return by


def parse_out(line):
    """-> dict(r, cur, xds, oob, err, pkts [(cls, sub, n, bytes, z)])"""
    w = line.split()
    d = {"oob": False, "err": None, "pkts": [], "r": None, "events": []}
    i = 1
    while i < len(w):
        t = w[i]
        if t.startswith("r="): d["r"] = int(t[2:])
        elif t == "oob": d["oob"] = True
        elif t.startswith("err:"): d["err"] = t[4:]
        elif t in ("pkt", "dec"):
            cls, sub, n = int(w[i + 1]), int(w[i + 2]), int(w[i + 3])
            data = b"" if w[i + 4] == "-" else bytes.fromhex(w[i + 4])
            z = 1
            i += 4
            if t == "pkt":
                z = int(w[i + 1].split("=")[1]); i += 1
            d["pkts"].append((cls, sub, n, data, z))
        elif t.startswith("ev:"):
            j = i + 1
            while j < len(w) and not w[j].startswith("ev:") and w[j] not in ("dec",):
                j += 1
            d["events"].append(w[i:j])
            i = j - 1
        i += 1
    return d



class ServiceMirror:
    """What the service decoder documents for the XDS packets it is handed (caption.c xds_decoder,
    libzvbi.h vbi_program_info / vbi_network), for programme id, length, name, CGMS-A (classes
    current/future) and network name, call letters, tape delay: fields equal the decoded packet
    content; VBI_EVENT_PROG_INFO on the second occurrence of a packet type with unchanged data;
    when a changed name is repeated VBI_EVENT_NETWORK_ID, and - only if the station id derived from
    call letters / name differs from the current one - a decoder reset and VBI_EVENT_NETWORK."""
    def __init__(self, type_shadow=False):
        self.type_shadow = type_shadow     # known deviation: a programme-type packet never announces
        self.type_ids = [[], []]           # type_id[] survives vbi_reset_prog_info
        self.pi = [self.fresh(0), self.fresh(1)]
        self.cycle = [0, 0]
        self.net = {"name": [], "call": [], "cycle": 0, "nuid": 0, "td": 0}

    @staticmethod
    def fresh(f):
        return {"f": f, "pin": (-1, -1, -1, -1), "td": 0, "len": (-1, -1), "el": (-1, -1, -1), "title": [], "cgms": -1,
                "type": None}

    def flush(self, c):
        self.pi[c] = self.fresh(c)
        self.cycle[c] = 0

    def feed(self, cls, typ, data):
        """-> list of predicted events: ("pi", dict) | ("net", name, call) | ("netid",)"""
        ev = []
        n = len(data)
        if cls in (0, 1):
            pi = self.pi[cls]
            neq = False
            if typ == 1:
                if n != 4: return ev
                month, day, hour, mi = data[3] & 15, data[2] & 31, data[1] & 31, data[0] & 63
                if month == 0 or month > 12 or day == 0 or day > 31 or hour > 23 or mi > 59: return ev
                new = (month - 1, day - 1, hour, mi)
                neq = new != pi["pin"]
                pi["td"] = 1 if data[3] & 0x10 else 0
                if neq:
                    self.flush(cls); pi = self.pi[cls]
                    pi["pin"], pi["td"] = new, 1 if data[3] & 0x10 else 0
            elif typ == 2:
                if n < 2 or n > 6: return ev
                buf = list(data) + [0] * 8
                lh, lm, eh, em, es = buf[1] & 63, buf[0] & 63, -1, -1, 0
                if n >= 3:
                    eh, em = buf[3] & 63, buf[2] & 63
                    if n >= 5: es = buf[4] & 63
                if lm > 59 or em > 59 or es > 59: return ev
                neq = (lh, lm) != pi["len"] or (eh, em, es) != pi["el"]
                pi["len"], pi["el"] = (lh, lm), (eh, em, es)
            elif typ == 3:
                if n < 2: return ev
                t = X.strfu(data)
                neq = t != pi["title"]
                pi["title"] = t
                if not neq:
                    if not (self.cycle[cls] & 8):
                        return ev
                    if not (self.cycle[cls] & 2):
                        self.flush(cls); pi = self.pi[cls]
                        pi["title"] = t
                        self.cycle[cls] |= 8
            elif typ == 4:
                neq = pi["type"] is None or self.type_ids[cls] != list(data)
                self.type_ids[cls] = list(data)
                pi["type"] = list(data)
                if self.type_shadow:
                    return ev
            elif typ == 8:
                if n != 1: return ev
                neq = (data[0] & 63) != pi["cgms"]
                pi["cgms"] = data[0] & 63
            else:
                return None          # a type this mirror does not cover: stop judging
            if neq:
                self.cycle[cls] |= 1 << typ
            elif self.cycle[cls] & (1 << typ):
                ev.append(("pi", dict(pi)))
                self.cycle[cls] = 0
        elif cls == 2:
            nt = self.net
            if typ == 1:
                t = X.strfu(data)
                if t != nt["name"]:
                    nt["name"], nt["cycle"] = t, 1
                elif nt["cycle"] == 1:
                    nid = X.nuid_of(nt["call"] or nt["name"])
                    if nid != nt["nuid"]:
                        # a different station: decoder reset (programme info cleared), NETWORK announced
                        if nt["nuid"]:
                            self.pi = [self.fresh(0), self.fresh(1)]
                            self.cycle = [0, 0]
                        nt["nuid"] = nid
                        ev.append(("net", list(nt["name"]), list(nt["call"]), nt["td"]))
                    ev.append(("netid",))
                    nt["cycle"] = 3
            elif typ == 2:
                t = X.strfu(data)
                if t != nt["call"]:
                    nt["call"] = t
                    if nt["cycle"] != 1:
                        nt["name"], nt["cycle"] = [], 0
            elif typ == 3:
                if n == 2:
                    nt["td"] = (data[1] & 31) * 60 + (data[0] & 63)
        return ev


def service_oracle(case, out):
    """programme / network information equals the decoding of the delivered packets and is announced
    after the documented repeat (`p` ops)"""
    w = _service_oracle(case, out, False)
    if w and w.startswith("prog-info-mismatch") and _service_oracle(case, out, True) is None:
        return SIG_T + ": caption.c xds_decoder never announces a programme type packet (local `int neq` hides the outer one)"
    return w


def _service_oracle(case, out, type_shadow):
    m = ServiceMirror(type_shadow)
    for i, l in enumerate(case):
        if not (l.startswith("p ") or l.startswith("s ")):
            continue
        if i >= len(out) or not out[i].startswith("ok "):
            if l.startswith("s "):
                continue
            return "service-decoder-output: '%s' -> '%s'" % (l, out[i] if i < len(out) else "<none>")
        o = parse_out(out[i])
        pred = []
        for cls, sub, n, data, _ in o["pkts"]:
            e = m.feed(cls, sub, list(data))
            if e is None:
                return None
            pred += e
        if l.startswith("s "):
            continue            # same decoder, but the harness prints events only for `p` ops
        got = []
        for e in o["events"]:
            kv = dict(t.split("=", 1) for t in e[1:] if "=" in t)
            if e[0] == "ev:pi":
                got.append(("pi", {"f": int(kv["f"]), "pin": tuple(int(x) for x in kv["pin"].split(".")), "td": int(kv["td"]),
                                   "len": tuple(int(x) for x in kv["len"].split(":")),
                                   "el": tuple(int(x) for x in kv["el"].split(":")),
                                   "title": list(bytes.fromhex(kv["title"])) if kv["title"] != "-" else [],
                                   "cgms": int(kv["cgms"]),
                                   "type": None if kv["type"] == "none" else
                                           (list(bytes.fromhex(kv["type"])) if kv["type"] != "-" else [])}))
            elif e[0] == "ev:net":
                got.append(("net", list(bytes.fromhex(kv["name"])) if kv["name"] != "-" else [],
                            list(bytes.fromhex(kv["call"])) if kv["call"] != "-" else [], int(kv["td"])))
            elif e[0] == "ev:netid":
                got.append(("netid",))
            else:
                got.append((e[0],))
        if got != pred:
            return "prog-info-mismatch: op %d expected %s got %s" % (i, pred, got)
    return None


class C09(verif.Spec):
    prop = "C09"
    comp = "xds"
    lean_modules = ["ZvbiModel.Props.C09"]
    harness = "xds_harness"
    harness_link_lib = True
    timeout_per_case = 2.0
    partial_note = ("service decoder: theorems for programme name, network name, call letters; the other programme-info "
                    "types (id, length, type, rating, CGMS-A, description) are modelled and tied by correspondence and the "
                    "service oracle only; audio / caption services / aspect ratio (types 6, 7, 9) are not modelled")
    assumptions = ["little-endian int layout for the buffer[-1]/buffer[-2] overlay of caption.c (only on the path the "
                   "model reports as out of bounds)",
                   "the caption decoder proper does not touch cc->xds / curr_sp / sub_packet (checked by grep and by "
                   "the correspondence run, which routes caption pairs through the real caption decoder)"]
    trusted_base = ["translate/gen_xds.py (extents, guards, two control-flow flags; extents cross-checked by the "
                    "`extents` op, flags by the corpus replays)",
                    "harness/xds_harness.c incl. the macro that redirects the xds_decoder call to a printing hook",
                    "lib/xds_util.py reference receiver = my reading of EIA-608 XDS packet framing"]
    open_statements = ["prog_info_equals_packets beyond the modelled packet types (see NOTES/C09.md)"]

    # ------------------------------------------------------------------ generation
    def gen_cases(self, rng, tier):
        N = 4000 if tier == "quick" else 40000
        cases = [["extents"]]
        streams = []          # (tag, raw pairs)

        def pk(universe="any", n=None, bad_ck=False):
            cls, sub = X.rand_class_type(rng, universe)
            if n is None:
                n = rng.choice([1, 2, 3, 4, 6, 7, 15, 16, 29, 30, 31, 32, rng.randrange(1, 33)])
            p = X.Packet(cls, sub, X.rand_payload(rng, n))
            if bad_ck:
                p.ck = (p.ck + rng.randrange(1, 128)) % 128
            return p

        # 1. every payload length 0..40 (single packet, good and bad checksum), all class bytes
        for n in range(0, 41):
            for bad in (False, True):
                p = X.Packet(*X.rand_class_type(rng, "both"), X.rand_payload(rng, n))
                if bad: p.ck = (p.ck + 1 + rng.randrange(127)) % 128
                streams.append(("len", [(X.par(a), X.par(b)) for a, b in p.wire()]))
        # 2. all (class byte, type) headers: start + 2 chars + end, sampled types incl. 0x18.., 0x40..0x4F
        for c1 in range(1, 15, 2):
            for sub in list(range(0, 0x1A)) + [0x20, 0x3F, 0x40, 0x41, 0x47, 0x48, 0x4F, 0x50, 0x7F]:
                p = X.Packet((c1 - 1) >> 1, sub, X.rand_payload(rng, 2))
                streams.append(("hdr", [(X.par(a), X.par(b)) for a, b in p.wire()]))
        # 3. interleavings of 2..5 packets and caption runs (inside what both tables support)
        for _ in range(N):
            k = rng.randrange(2, 6)
            pkts = [pk("both" if rng.random() < 0.8 else "any", bad_ck=rng.random() < 0.1) for _ in range(k)]
            st = X.merge(rng, pkts, safe=True)
            streams.append(("merge", X.raw(st)))
        # 4. unrestricted interleavings: unsupported classes / shared buffers may interrupt (known deviations)
        for _ in range(N // 6):
            k = rng.randrange(2, 5)
            pkts = [pk("any") for _ in range(k)]
            streams.append(("merge-any", X.raw(X.merge(rng, pkts, safe=False))))
        # 5. single faults on a sender stream: parity flip, byte replaced, pair dropped, pair duplicated
        for _ in range(N):
            k = rng.randrange(1, 4)
            st = X.raw(X.merge(rng, [pk("both") for _ in range(k)], safe=True))
            i = rng.randrange(len(st))
            f = rng.random()
            a, b = st[i]
            if f < 0.45:
                if rng.random() < 0.5: a ^= 0x80
                else: b ^= 0x80
                st[i] = (a, b)
                tag = "fault-parity"
            elif f < 0.65:
                v = X.par(rng.randrange(128))
                st[i] = (v, b) if rng.random() < 0.5 else (a, v)
                tag = "fault-byte"
            elif f < 0.85:
                del st[i]
                tag = "fault-drop"
            else:
                st.insert(i, st[i])
                tag = "fault-dup"
            if st:
                streams.append((tag, st))
        # 6. boundary: NUL-padded pairs in the middle so that the count is odd near the limit
        for _ in range(N // 6):
            cls, sub = X.rand_class_type(rng, "both")
            body, n = [], 0
            target = rng.randrange(26, 40)
            while n < target:
                if rng.random() < 0.25:
                    body.append((rng.randrange(0x20, 0x80), 0)); n += 1
                else:
                    body.append((rng.randrange(0x20, 0x80), rng.randrange(1, 0x80))); n += 2
            s7 = 2 * cls + 1 + sub + sum(a + b for a, b in body) + 0x0F
            w = [(2 * cls + 1, sub)] + body + [(0x0F, (-s7) % 128)]
            streams.append(("boundary", [(X.par(a), X.par(b)) for a, b in w]))
        # 7. network name / call letters (caption.c flushes every buffer when a change is announced)
        for _ in range(N // 12):
            names = [X.rand_payload(rng, rng.randrange(2, 9)) for _ in range(2)]
            seq = []
            for _ in range(rng.randrange(4, 9)):
                r = rng.random()
                if r < 0.6: seq.append(X.Packet(2, 1, rng.choice(names)))
                elif r < 0.75: seq.append(X.Packet(2, 2, rng.choice(names)[:4]))
                else: seq.append(pk("both"))
            st = []
            openp = pk("both", n=8)
            w = openp.wire()
            st += w[:3]
            for p in seq:
                st += p.wire()
            st += [openp.cont()] + w[3:]
            streams.append(("network", [(X.par(a), X.par(b)) for a, b in st]))
        # 8. malformed: random pairs biased to the XDS control range, random parity
        for _ in range(N // 3):
            st = []
            for _ in range(rng.randrange(1, 60)):
                r = rng.random()
                if r < 0.3: a = rng.randrange(1, 0x10)
                elif r < 0.4: a = rng.randrange(0x10, 0x20)
                elif r < 0.9: a = rng.randrange(0x20, 0x80)
                else: a = rng.randrange(256)
                r = rng.random()
                if r < 0.3: b = rng.randrange(0, 0x19)
                elif r < 0.9: b = rng.randrange(0x20, 0x80)
                else: b = rng.randrange(256)
                a = X.par(a) if rng.random() < 0.93 else a
                b = X.par(b) if rng.random() < 0.93 else b
                st.append((a & 255, b & 255))
            streams.append(("malformed", st))
        # 9. malformed: valid stream, then pairs shuffled locally
        for _ in range(N // 6):
            st = X.raw(X.merge(rng, [pk("any") for _ in range(rng.randrange(1, 4))], safe=False))
            for _ in range(rng.randrange(1, 4)):
                i, j = rng.randrange(len(st)), rng.randrange(len(st))
                st[i], st[j] = st[j], st[i]
            streams.append(("shuffled", st))
        self._tags = {}
        for tag, st in streams:
            for mode in ("d", "s"):
                c = X.ops(mode, st)
                self._tags["\n".join(c)] = tag + "/" + mode
                cases.append(c)
        # malformed op lines
        cases.append(["d", "d 80", "d 8080 80", "s zz80", "s 808080", "q 8080", "d 0x80", "extents 1", "s -"])
        return cases

    def classify(self, case):
        t = getattr(self, "_tags", {}).get("\n".join(case))
        if t: return t
        return "corpus/" + (case[0].split()[0] if case else "empty")

    # ------------------------------------------------------------------ oracle
    def oracle(self, case, out):
        if len(out) != len(case):
            return "output-count: %d outputs for %d ops" % (len(out), len(case))
        by = parse_case(case)
        for mode in ("d", "s", "p"):
            if mode not in by:
                continue
            rmode = "d" if mode == "d" else "s"
            pairs = [p for _, p in by[mode]]
            got, seen_oob = [], False
            fault_seen = False
            for (i, (b1, b2)) in by[mode]:
                if not out[i].startswith("ok "):
                    return "rejected-op: '%s' -> '%s'" % (case[i], out[i])
                o = parse_out(out[i])
                bad = not (X.parity_ok(b1) and X.parity_ok(b2))
                fault_seen = fault_seen or bad
                if o["err"]:
                    return "model-error-site-on-code: %s" % o["err"]
                if o["oob"]:
                    if mode != "d" and fault_seen:
                        return SIG_A + ": caption.c xds_separator stores at buffer[count-2] with count < 2 after a parity error"
                    return "store-below-buffer: %s op %d" % (mode, i)
                if mode == "d" and o["r"] != (0 if bad else 1):
                    return "demux-return-value: r=%s for pair %02x%02x" % (o["r"], b1, b2)
                for cls, sub, n, data, z in o["pkts"]:
                    if not (1 <= n <= 32) or len(data) != n:
                        return "delivered-length: %d" % n
                    if z != 1:
                        return "delivered-not-nul-terminated"
                    ok = X.d_accepts(cls, sub) if mode == "d" else X.s_accepts(cls, sub)
                    if not ok:
                        return "delivered-outside-table: %d/0x%02x" % (cls, sub)
                    got.append((cls, sub, data))
            if mode == "p":
                w = service_oracle(case, out)
                if w:
                    return w
            exp, conf = X.reference(pairs, rmode)
            if not conf or got == exp:
                continue
            if mode == "d":
                # known deviations, as variants of the reference.  The shared 0x1n/0x4n buffer is tried first;
                # "a refused header discards the current packet" only while the source still does that
                # (generated flag demuxRejectKeepsCurrent = false), otherwise it would be a regression
                if got == X.reference(pairs, "d", alias=True)[0]:
                    return SIG_C + ": vbi_xds_demux_feed keeps subclasses 0x1n and 0x4n in one buffer"
                if self.flags().get("demuxRejectKeepsCurrent") != "true":
                    if got == X.reference(pairs, "d", reject_kills=True)[0]:
                        return SIG_B + ": vbi_xds_demux_feed loses the packet that a header of an unsupported class/type interrupts"
                    if got == X.reference(pairs, "d", alias=True, reject_kills=True)[0]:
                        return SIG_BC + ": both known deviations of vbi_xds_demux_feed in one stream"
            k = 0
            while k < min(len(exp), len(got)) and exp[k] == got[k]:
                k += 1
            fmt = lambda l: [(c, t, d.hex()) for c, t, d in l[k:k + 2]] or "nothing more"
            return ("delivery-mismatch: mode %s, %d expected / %d delivered, first difference at delivery #%d: "
                    "expected %s got %s" % (mode, len(exp), len(got), k, fmt(exp), fmt(got)))
        return None


    # ------------------------------------------------------------------ service decoder oracle (`p` ops)
    def gen_service_cases(self, rng, tier):
        N = 400 if tier == "quick" else 6000
        cases = []
        for _ in range(N):
            titles = [X.rand_payload(rng, rng.randrange(2, 33)) for _ in range(2)]
            if rng.random() < 0.3: titles[0] = [0x20, 0x20] + titles[0][:20]
            names = [X.rand_payload(rng, rng.randrange(1, 20)) for _ in range(2)]
            pins = [[0x40 | rng.randrange(60), 0x40 | rng.randrange(24), 0x40 | rng.randrange(1, 32),
                     0x40 | rng.randrange(1, 13) | rng.choice([0, 0x10])] for _ in range(2)]
            pins.append([0x40 | 61, 0x40 | 25, 0x40, 0x40 | 13])       # invalid on purpose
            lens = [[0x40 | rng.randrange(64) for _ in range(rng.choice([2, 3, 4, 5, 6]))] for _ in range(2)]
            types = [[rng.randrange(0x20, 0x80) for _ in range(rng.randrange(1, 33))] for _ in range(2)]
            types.append(types[0][:max(1, len(types[0]) // 2)])
            wide = rng.random() < 0.4
            typed = rng.random() < 0.15          # programme-type packets (known finding on the current tree)
            st = []
            for _ in range(rng.randrange(3, 14)):
                cls = rng.choice([0, 0, 0, 1])
                r = rng.random()
                if r < 0.25: p = X.Packet(cls, 3, rng.choice(titles))
                elif r < 0.40: p = X.Packet(cls, 1, rng.choice(pins))
                elif r < 0.55: p = X.Packet(cls, 2, rng.choice(lens))
                elif r < 0.62: p = X.Packet(cls, 8, [0x40 | rng.randrange(4)])
                elif r < 0.65 and typed: p = X.Packet(cls, 4, rng.choice(types))
                elif r < 0.85: p = X.Packet(2, 1, rng.choice(names))
                elif r < 0.93: p = X.Packet(2, 2, rng.choice(names)[:4])
                else: p = X.Packet(2, 3, [0x40 | rng.randrange(60), 0x40 | rng.randrange(24)])
                if wide and rng.random() < 0.35:
                    # types only the Lean service model covers (the Python mirror stops judging there),
                    # and now and then one neither covers (6, 7, 9: the model prints ` ev?` from then on)
                    r = rng.random()
                    if r < 0.3: p = X.Packet(cls, 5, [0x40 | rng.randrange(64), 0x40 | rng.randrange(64)])
                    elif r < 0.55: p = X.Packet(cls, 4, rng.choice(types))
                    elif r < 0.9: p = X.Packet(cls, 0x10 + rng.randrange(8), rng.choice(titles))
                    else: p = X.Packet(cls, rng.choice([6, 7, 9]), [0x40 | rng.randrange(64), 0x40 | rng.randrange(64)])
                if rng.random() < 0.07:
                    p.ck = (p.ck + 1) % 128
                for _ in range(rng.choice([1, 2, 2, 3])):
                    st += p.wire()
                    if rng.random() < 0.3:
                        st += X.caption_run(rng)
            cases.append(X.ops("p", [(X.par(a), X.par(b)) for a, b in st]))
        return cases

    def extra_checks(self, ctx):
        cases = self.gen_service_cases(ctx["rng"], ctx["tier"])
        outs, inc = verif.run_side(ctx["hcmd"], cases, self.timeout_per_case)
        mouts, _ = verif.run_side(ctx["mcmd"], cases, self.timeout_per_case)
        bad = []
        events = 0
        agree = 0
        for x in inc:
            bad.append(("%s of the real code in the service decoder (%s)" % (x["kind"], verif.summarize_san(x["detail"])),
                        cases[x["case"]]))
        skip = {x["case"] for x in inc}
        for i, c in enumerate(cases):
            if i in skip: continue
            o = outs.get(i, [])
            events += sum(l.count(" ev:") for l in o)
            w = service_oracle(c, o)
            if w:
                bad.append((w, c))
            d = verif.first_diff(o, mouts.get(i, []))
            if d is None:
                agree += 1
            elif not w:
                bad.append(("service-stream-correspondence: op %d impl '%s' model '%s'" % (d[0], d[1][:120], d[2][:120]), c))
        self.extra_coverage = {"service_decoder_cases": len(cases), "service_decoder_events_checked": events,
                               "service_decoder_cases_model_agrees": agree,
                               "control_flow_flags": self.flags()}
        return bad[:5]

    def flags(self):
        p = os.path.join(verif.LEAN, "ZvbiModel", "Generated", "XdsFacts.lean")
        out = {}
        try:
            for l in open(p):
                w = l.split()
                if len(w) >= 6 and w[0] == "def" and w[3] == "Bool":
                    out[w[1]] = w[5]
        except OSError:
            pass
        return out

    def signature(self, case, what):
        return what.split(":")[0]

    def nontrivial(self, case, impl_out):
        return any((" pkt " in l or " dec " in l or "cur=" in l and "cur=-" not in l) for l in impl_out)


if __name__ == "__main__":
    verif.run_check(C09())
