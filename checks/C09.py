#!/usr/bin/env python3
"""C09 - XDS packets are delivered intact, exactly once, and only with a valid checksum.

Model/theorems: lean/ZvbiModel/Xds/*, lean/ZvbiModel/Props/C09.lean.
Correspondence: every byte pair goes through vbi_xds_demux_feed (`d`) resp. vbi_decode_caption
line 284 (`s`) in harness/xds_harness.c and through the Lean step functions; per pair both print
the delivered packet, the current buffer index, XDS mode, and a digest of all buffers.
Oracle: lib/xds_util.py reference receiver (the property itself) against the real code's
deliveries, plus a service-decoder oracle (`p` ops) for programme / network information.
"""
import json, os, subprocess, sys
sys.path.insert(0, os.path.join(os.path.dirname(os.path.abspath(__file__)), "..", "lib"))
import verif
import xds_util as X

# ---- known_findings.<Cxx>.json is merged here (lib/verif.py only reads known_findings.json) ----
_load_known = verif.load_known
def _load_known_merged():
    k = _load_known()
    p = os.path.join(verif.VERIF, "known_findings.C09.json")
    if os.path.exists(p):
        k = dict(k)
        have = {f.get("id") for f in k.get("findings", [])}      # newer lib/verif.py merges the file itself
        k["findings"] = list(k.get("findings", [])) + [f for f in json.load(open(p)).get("findings", [])
                                                       if f.get("id") not in have]
    return k
verif.load_known = _load_known_merged

def strip_events(line):
    """drop the ` ev:...` groups the harness appends in `p` mode (the Lean driver does not model the
    service decoder's events; they are judged by service_oracle)"""
    if " ev:" not in line:
        return line
    out, skip = [], False
    for t in line.split(" "):
        if t.startswith("ev:"):
            skip = True
        elif t == "dec":
            skip = False
        if not skip:
            out.append(t)
    return " ".join(out)

_first_diff = verif.first_diff
def _diff_events_aware(a, b):
    """the Lean driver prints the service decoder's events for `p` ops, until a packet type its service
    model does not cover was delivered; from then on it prints ` ev?` and events are not compared"""
    aa, bb = [], []
    for i in range(max(len(a), len(b))):
        x = a[i] if i < len(a) else None
        y = b[i] if i < len(b) else None
        if x is not None and y is not None and (" ev?" in x or " ev?" in y):
            x, y = strip_events(x.replace(" ev?", "")), strip_events(y.replace(" ev?", ""))
        if x is not None: aa.append(x)
        if y is not None: bb.append(y)
    return _first_diff(aa, bb)
verif.first_diff = _diff_events_aware

SIG_A = "sep-parity-keeps-curr-sp"
SIG_B = "demux-unsupported-header-discards-current"
SIG_C = "demux-0x1n-0x4n-share-buffer"
SIG_BC = "demux-unsupported-header-and-shared-buffer"
SIG_T = "prog-type-never-announced"
SIG_CAPSVC = "capsvc-never-announced"
SIG_FLUSHASP = "flush-announces-erased-aspect"
SIG_FUTASP = "future-aspect-overwrites-current"
SIG_PIDTD = "pid-tape-delay-never-announced"


def parse_case(case):
    """-> {mode: [(op index, (b1, b2))]} for well-formed d/s/p ops"""
    by = {}
    for i, l in enumerate(case):
        w = l.split()
        if len(w) == 2 and w[0] in ("d", "s", "p", "q") and len(w[1]) == 4:
            try:
                v = bytes.fromhex(w[1])
            except ValueError:
                continue
            by.setdefault(w[0], []).append((i, (v[0], v[1])))
    return by


def parse_out(line):
    """-> dict(r, cur, xds, oob, err, pkts [(cls, sub, n, bytes, z)])"""
    w = line.split()
    d = {"oob": False, "err": None, "pkts": [], "r": None, "events": []}
    i = 1
    while i < len(w):
        t = w[i]
        if t.startswith("r="): d["r"] = int(t[2:])
        elif t == "oob": d["oob"] = True
        elif t.startswith("err:"): d["err"] = t[4:]
        elif t in ("pkt", "dec"):
            cls, sub, n = int(w[i + 1]), int(w[i + 2]), int(w[i + 3])
            data = b"" if w[i + 4] == "-" else bytes.fromhex(w[i + 4])
            z = 1
            i += 4
            if t == "pkt":
                z = int(w[i + 1].split("=")[1]); i += 1
            d["pkts"].append((cls, sub, n, data, z))
        elif t.startswith("ev:"):
            j = i + 1
            while j < len(w) and not w[j].startswith("ev:") and w[j] not in ("dec",):
                j += 1
            d["events"].append(w[i:j])
            i = j - 1
        i += 1
    return d



class ServiceMirror:
    """What the service decoder documents for the XDS packets it is handed (caption.c xds_decoder,
    libzvbi.h vbi_program_info / vbi_network), for programme id, length, name, CGMS-A (classes
    current/future) and network name, call letters, tape delay: fields equal the decoded packet
    content; VBI_EVENT_PROG_INFO on the second occurrence of a packet type with unchanged data;
    when a changed name is repeated VBI_EVENT_NETWORK_ID, and - only if the station id derived from
    call letters / name differs from the current one - a decoder reset and VBI_EVENT_NETWORK."""
    def __init__(self, type_shadow=False):
        self.type_shadow = type_shadow     # known deviation: a programme-type packet never announces
        self.type_ids = [[], []]           # type_id[] survives vbi_reset_prog_info
        self.pi = [self.fresh(0), self.fresh(1)]
        self.cycle = [0, 0]
        self.net = {"name": [], "call": [], "cycle": 0, "nuid": 0, "td": 0}

    @staticmethod
    def fresh(f):
        return {"f": f, "pin": (-1, -1, -1, -1), "td": 0, "len": (-1, -1), "el": (-1, -1, -1), "title": [], "cgms": -1,
                "type": None}

    def flush(self, c):
        self.pi[c] = self.fresh(c)
        self.cycle[c] = 0

    def feed(self, cls, typ, data):
        """-> list of predicted events: ("pi", dict) | ("net", name, call) | ("netid",)"""
        ev = []
        n = len(data)
        if cls in (0, 1):
            pi = self.pi[cls]
            neq = False
            if typ == 1:
                if n != 4: return ev
                month, day, hour, mi = data[3] & 15, data[2] & 31, data[1] & 31, data[0] & 63
                if month == 0 or month > 12 or day == 0 or day > 31 or hour > 23 or mi > 59: return ev
                new = (month - 1, day - 1, hour, mi)
                neq = new != pi["pin"]
                pi["td"] = 1 if data[3] & 0x10 else 0
                if neq:
                    self.flush(cls); pi = self.pi[cls]
                    pi["pin"], pi["td"] = new, 1 if data[3] & 0x10 else 0
            elif typ == 2:
                if n < 2 or n > 6: return ev
                buf = list(data) + [0] * 8
                lh, lm, eh, em, es = buf[1] & 63, buf[0] & 63, -1, -1, 0
                if n >= 3:
                    eh, em = buf[3] & 63, buf[2] & 63
                    if n >= 5: es = buf[4] & 63
                if lm > 59 or em > 59 or es > 59: return ev
                neq = (lh, lm) != pi["len"] or (eh, em, es) != pi["el"]
                pi["len"], pi["el"] = (lh, lm), (eh, em, es)
            elif typ == 3:
                if n < 2: return ev
                t = X.strfu(data)
                neq = t != pi["title"]
                pi["title"] = t
                if not neq:
                    if not (self.cycle[cls] & 8):
                        return ev
                    if not (self.cycle[cls] & 2):
                        self.flush(cls); pi = self.pi[cls]
                        pi["title"] = t
                        self.cycle[cls] |= 8
            elif typ == 4:
                neq = pi["type"] is None or self.type_ids[cls] != list(data)
                self.type_ids[cls] = list(data)
                pi["type"] = list(data)
                if self.type_shadow:
                    return ev
            elif typ == 8:
                if n != 1: return ev
                neq = (data[0] & 63) != pi["cgms"]
                pi["cgms"] = data[0] & 63
            else:
                return None          # a type this mirror does not cover: stop judging
            if neq:
                self.cycle[cls] |= 1 << typ
            elif self.cycle[cls] & (1 << typ):
                ev.append(("pi", dict(pi)))
                self.cycle[cls] = 0
        elif cls == 2:
            nt = self.net
            if typ == 1:
                t = X.strfu(data)
                if t != nt["name"]:
                    nt["name"], nt["cycle"] = t, 1
                elif nt["cycle"] == 1:
                    nid = X.nuid_of(nt["call"] or nt["name"])
                    if nid != nt["nuid"]:
                        # a different station: decoder reset (programme info cleared), NETWORK announced
                        if nt["nuid"]:
                            self.pi = [self.fresh(0), self.fresh(1)]
                            self.cycle = [0, 0]
                        nt["nuid"] = nid
                        ev.append(("net", list(nt["name"]), list(nt["call"]), nt["td"]))
                    ev.append(("netid",))
                    nt["cycle"] = 3
            elif typ == 2:
                t = X.strfu(data)
                if t != nt["call"]:
                    nt["call"] = t
                    if nt["cycle"] != 1:
                        nt["name"], nt["cycle"] = [], 0
            elif typ == 3:
                if n == 2:
                    nt["td"] = (data[1] & 31) * 60 + (data[0] & 63)
        return ev


def service_oracle(case, out):
    """programme / network information equals the decoding of the delivered packets and is announced
    after the documented repeat (`p` ops)"""
    w = _service_oracle(case, out, False)
    if w and w.startswith("prog-info-mismatch") and _service_oracle(case, out, True) is None:
        return SIG_T + ": caption.c xds_decoder never announces a programme type packet (local `int neq` hides the outer one)"
    return w


def _service_oracle(case, out, type_shadow):
    m = ServiceMirror(type_shadow)
    for i, l in enumerate(case):
        if not (l.startswith("p ") or l.startswith("s ")):
            continue
        if i >= len(out) or not out[i].startswith("ok "):
            if l.startswith("s "):
                continue
            return "service-decoder-output: '%s' -> '%s'" % (l, out[i] if i < len(out) else "<none>")
        o = parse_out(out[i])
        pred = []
        for cls, sub, n, data, _ in o["pkts"]:
            e = m.feed(cls, sub, list(data))
            if e is None:
                return None
            pred += e
        if l.startswith("s "):
            continue            # same decoder, but the harness prints events only for `p` ops
        got = []
        for e in o["events"]:
            kv = dict(t.split("=", 1) for t in e[1:] if "=" in t)
            if e[0] == "ev:pi":
                got.append(("pi", {"f": int(kv["f"]), "pin": tuple(int(x) for x in kv["pin"].split(".")), "td": int(kv["td"]),
                                   "len": tuple(int(x) for x in kv["len"].split(":")),
                                   "el": tuple(int(x) for x in kv["el"].split(":")),
                                   "title": list(bytes.fromhex(kv["title"])) if kv["title"] != "-" else [],
                                   "cgms": int(kv["cgms"]),
                                   "type": None if kv["type"] == "none" else
                                           (list(bytes.fromhex(kv["type"])) if kv["type"] != "-" else [])}))
            elif e[0] == "ev:net":
                got.append(("net", list(bytes.fromhex(kv["name"])) if kv["name"] != "-" else [],
                            list(bytes.fromhex(kv["call"])) if kv["call"] != "-" else [], int(kv["td"])))
            elif e[0] == "ev:netid":
                got.append(("netid",))
            else:
                got.append((e[0],))
        if got != pred:
            return "prog-info-mismatch: op %d expected %s got %s" % (i, pred, got)
    return None


# ---------------------------------------------------------------- `q` ops: every field xds_decoder writes
PI_UNSET = {"pin": "-1.-1.-1.-1", "td": "0", "len": "-1:-1", "el": "-1:-1:-1", "title": "-", "type": "none",
            "audio": "9.0.9.0", "capsvc": "-1", "caplang": "00000000", "cgms": "-1", "asp": "-1.-1.0"}
PI_UNSET.update({"d%d" % i: "-" for i in range(8)})

def parse_q(line):
    """-> (delivered packet or None, events [(kind, {k: v})], sections {"S0": {}, "S1": {}, "SN": {}, "SC": {}})"""
    w = line.split()
    pkt, events, sec, cur = None, [], {}, None
    i = 0
    while i < len(w):
        t = w[i]
        if t == "dec":
            data = b"" if w[i + 4] == "-" else bytes.fromhex(w[i + 4])
            pkt = (int(w[i + 1]), int(w[i + 2]), list(data)); i += 4; cur = None
        elif t.startswith("E:"):
            cur = {}; events.append((t[2:], cur))
            if t == "E:asp":
                cur["asp"] = w[i + 1]; i += 1
        elif t in ("S0", "S1", "SN", "SC"):
            cur = {}; sec[t] = cur
        elif "=" in t and cur is not None:
            k, v = t.split("=", 1); cur[k] = v
        i += 1
    return pkt, events, sec

def _hex(l): return bytes(l).hex() if l else "-"
def _lang(l): return 0 if l in (0, 6, 7) else l
AUDIO = [[9, 1, 4, 2, 3, 8, 9, 0], [9, 1, 5, 6, 7, 8, 9, 0]]

def dec_expect(cls, typ, d):
    """what libzvbi.h / EIA-608 say a packet means, as the tokens of the `q` dump: {token: value} for the
    programme info of class `cls` (or the network), None if the packet is to be ignored.  A value None
    means: not judged (depends on the byte behind the payload)."""
    n = len(d)
    if cls in (0, 1):
        if typ == 1:
            if n != 4: return None
            mo, da, ho, mi = d[3] & 15, d[2] & 31, d[1] & 31, d[0] & 63
            if mo == 0 or mo > 12 or da == 0 or ho > 23 or mi > 59: return None
            return {"pin": "%d.%d.%d.%d" % (mo - 1, da - 1, ho, mi), "td": "1" if d[3] & 16 else "0"}
        if typ == 2:
            if n < 2 or n > 6: return None
            lm = d[0] & 63
            em = (d[2] & 63) if n >= 3 else -1
            es = (d[4] & 63) if n >= 5 else 0
            if lm > 59 or em > 59 or es > 59: return None
            el = None if n == 3 else "%d:%d:%d" % ((d[3] & 63) if n >= 3 else -1, em, es)
            return {"len": "%d:%d" % (d[1] & 63, lm), "el": el}
        if typ == 3:
            return {"title": _hex(X.strfu(d))} if n >= 2 else None
        if typ == 4:
            return {"type": _hex(d)}
        if typ == 5:
            if n != 2: return None
            r, g = d[0] & 7, d[1] & 7
            dl = (8 if d[0] & 0x20 else 0) | (4 if d[1] & 8 else 0) | (2 if d[1] & 0x10 else 0) | (1 if d[1] & 0x20 else 0)
            if not d[0] & 8:
                return {"rating": "1/%d/0" % r} if r else None
            if not d[0] & 0x10:
                return {"rating": "2/%d/%d" % (g, dl)}
            if not d[1] & 8:
                if not d[0] & 0x20: return {"rating": "3/%d/0" % g} if g <= 6 else None
                return {"rating": "4/%d/0" % g} if g <= 5 else None
            return None
        if typ == 6:
            if n != 2: return None
            return {"audio": "%d.%d.%d.%d" % (AUDIO[0][d[0] & 7], _lang((d[0] >> 3) & 7), AUDIO[1][d[1] & 7], _lang((d[1] >> 3) & 7))}
        if typ == 7:
            if n > 8: return None
            cl, sv = [0] * 8, 0
            for b in d:
                ch = (b & 1) * 4 + ((b & 7) >> 1)
                sv |= 1 << ch
                cl[ch] = _lang((b >> 3) & 7)
            return {"capsvc": str(sv), "caplang": "".join(str(x) for x in cl)}
        if typ == 8:
            return {"cgms": str(d[0] & 63)} if n == 1 else None
        if typ == 9:
            if n > 3: return None
            if n == 1: return {"asp": None}
            return {"asp": "%d.%d.%d" % ((d[0] & 63) + 22, 262 - (d[1] & 63), 2 if n >= 3 and d[2] & 1 else 1)}
        if 0x10 <= typ <= 0x17:
            return {"d%d" % (typ & 7): _hex(X.strfu(d))}
        return None
    if cls == 2:
        if typ == 1: return {"name": _hex(X.strfu(d))}
        if typ == 2: return {"call": _hex(X.strfu(d))}
        if typ == 3: return {"td": str((d[1] & 31) * 60 + (d[0] & 63))} if n == 2 else None
    return None


def dec_oracle(case, out):
    """programme / network information equals the decoding of the delivered packets (`q` ops): after every
    delivered packet the fields of its own (class, type) hold the packet's content, every other field is
    unchanged or - only by the documented flush rules - back to unknown; PROG_INFO is sent exactly at the
    repeat of unchanged content whose type bit is pending and carries the stored information; ASPECT carries
    the stored aspect ratio; NETWORK / NETWORK_ID follow the repeat of a changed name."""
    known = [None]
    def quirk(msg):
        if known[0] is None: known[0] = msg
    fresh = dict(PI_UNSET); fresh["rating"] = "0/0/0"
    prev = {"S0": dict(fresh), "S1": dict(fresh), "SN": {"name": "-", "call": "-", "cyc": "0", "nuid": "0", "td": "0"},
            "SC": {"cyc0": "-", "cyc1": "-", "asrc": "0", "lang": "00000000"}}
    for i, l in enumerate(case):
        if not l.startswith("q "):
            if l.startswith(("s ", "p ")): return None       # mixed streams: the dump is not continuous
            continue
        if i >= len(out) or not out[i].startswith("ok "):
            return "service-decoder-output: '%s' -> '%s'" % (l, out[i] if i < len(out) else "<none>")
        if " err:" in out[i]:
            return "model-error-site-on-code: %s" % out[i][:80]
        pkt, events, sec = parse_q(out[i])
        try:
            w = _dec_judge(i, pkt, events, sec, prev)
        except _Quirk as q:
            quirk(str(q)); w = None
        if w: return w
        if pkt is not None: prev = sec
    return known[0]


class _Quirk(Exception):
    pass


def _dec_judge(i, pkt, events, sec, prev):
    if True:
        if pkt is None:
            if events: return "event-without-packet: op %d" % i
            return None
        if set(sec) != {"S0", "S1", "SN", "SC"}:
            return "service-decoder-output: no state dump at op %d" % i
        cls, typ, d = pkt
        exp = dec_expect(cls, typ, d)
        own_sec = ("S%d" % cls) if cls in (0, 1) else ("SN" if cls == 2 else None)
        where = "op %d packet %d/0x%02x %s" % (i, cls, typ, bytes(d).hex())
        fut9 = (cls == 1 and typ == 9 and exp is not None)
        # -- own fields
        changed = False
        if exp is not None:
            for k, v in exp.items():
                if v is None: changed = changed or sec[own_sec][k] != prev[own_sec][k]; continue
                if sec[own_sec][k] != v:
                    if fut9 and sec["S0"]["asp"] == v:
                        raise _Quirk(SIG_FUTASP + ": aspect ratio packet of the future class stored into the current programme (" + where + ")")
                    return "prog-info-field: %s %s.%s is %s, packet says %s" % (where, own_sec, k, sec[own_sec][k], v)
                changed = changed or prev[own_sec][k] != v
        # -- every other field
        flush_ok = {"S0": (cls == 0 and typ in (1, 3)) or (cls == 2 and typ == 1),
                    "S1": (cls == 1 and typ in (1, 3)) or (cls == 2 and typ == 1)}
        for sn in ("S0", "S1"):
            for k, v in sec[sn].items():
                if exp is not None and sn == own_sec and k in exp: continue
                o = prev[sn][k]
                if v == o: continue
                if fut9 and sn == "S0" and k == "asp":
                    raise _Quirk(SIG_FUTASP + ": aspect ratio packet of the future class stored into the current programme (" + where + ")")
                if k == "rating":
                    if flush_ok[sn] and v.split("/")[0] == "0" and v.split("/")[1:] == o.split("/")[1:]: continue
                elif flush_ok[sn] and v == PI_UNSET[k]: continue
                return "prog-info-foreign-write: %s changed %s.%s from %s to %s" % (where, sn, k, o, v)
        for k in ("name", "call", "td"):
            if exp is not None and own_sec == "SN" and k in exp: continue
            if sec["SN"][k] != prev["SN"][k] and not (k == "name" and (cls, typ) == (2, 2) and sec["SN"][k] == "-"):
                return "prog-info-foreign-write: %s changed network %s from %s to %s" % (where, k, prev["SN"][k], sec["SN"][k])
        if exp is None and sec != prev:
            return "prog-info-ignored-packet-wrote: %s" % where
        if cls == 0 and typ == 7 and exp is not None:
            lg = list(prev["SC"]["lang"])
            for b in d: lg[(b & 1) * 4 + ((b & 7) >> 1)] = exp["caplang"][(b & 1) * 4 + ((b & 7) >> 1)]
            if sec["SC"]["lang"] != "".join(lg):
                return "prog-info-field: %s channel languages %s expected %s" % (where, sec["SC"]["lang"], "".join(lg))
        elif sec["SC"]["lang"] != prev["SC"]["lang"]:
            return "prog-info-foreign-write: %s changed the channel languages" % where
        # -- events
        kinds = [k for k, _ in events]
        for k, e in events:
            if k == "pi":
                if cls not in (0, 1) or e.get("f") != str(cls):
                    return "prog-info-event: %s raised PROG_INFO f=%s" % (where, e.get("f"))
                snap = {kk: vv for kk, vv in e.items() if kk != "f"}
                if snap != sec["S%d" % cls]:
                    return "prog-info-event: %s PROG_INFO differs from the stored information" % where
            elif k == "asp":
                if (cls, typ) == (2, 1):
                    if e["asp"] != "22.262.1":
                        return "prog-info-event: %s ASPECT %s after the channel switch" % (where, e["asp"])
                elif cls in (0, 1) and typ in (1, 3):
                    # flush_prog_info: only the programme on screen (current) is announced, with what is stored now
                    if not (cls == 0 and e["asp"] == sec["S0"]["asp"]):
                        if e["asp"] == prev["S%d" % cls]["asp"]:
                            raise _Quirk(SIG_FLUSHASP + ": flush_prog_info announces the aspect ratio it has just erased"
                                         + (" - of the future programme" if cls == 1 else "") + " (" + where + ")")
                        if cls == 1 and e["asp"] == sec["S1"]["asp"]:
                            raise _Quirk(SIG_FLUSHASP + ": flush_prog_info raises ASPECT for the future programme (" + where + ")")
                        return "prog-info-event: %s ASPECT %s, stored %s" % (where, e["asp"], sec["S0"]["asp"])
                else:
                    want = sec["S%d" % (cls if cls in (0, 1) else 0)]["asp"]
                    if e["asp"] != want or cls != 0:
                        if fut9: raise _Quirk(SIG_FUTASP + ": aspect ratio packet of the future class announced as current aspect ratio (" + where + ")")
                        return "prog-info-event: %s ASPECT %s, stored %s" % (where, e["asp"], want)
            elif k == "net":
                if (e.get("name"), e.get("call"), e.get("nuid")) != (sec["SN"]["name"], sec["SN"]["call"], sec["SN"]["nuid"]):
                    return "prog-info-event: %s NETWORK differs from the stored network" % where
            elif k != "netid":
                return "prog-info-event: %s unexpected event %s" % (where, k)
        if cls == 0 and typ in (1, 3) and prev["S0"]["asp"] != PI_UNSET["asp"] and sec["S0"]["asp"] == PI_UNSET["asp"] \
                and "asp" not in kinds:
            return "prog-info-event: %s erased the current aspect ratio without ASPECT" % where
        if cls in (0, 1):
            pend = prev["SC"]["cyc%d" % cls].split(",")
            want_pi = exp is not None and not changed and str(typ) in pend
            if want_pi != ("pi" in kinds):
                if typ == 7:
                    # one root cause, two faces: naming a language always counts as a change; dropping all
                    # languages never does
                    raise _Quirk(SIG_CAPSVC + ": caption services are compared after the stored languages were cleared - "
                                 + ("a packet naming a language is never announced by its repeat" if want_pi else
                                    "a packet that drops the languages is announced as unchanged") + " (" + where + ")")
                if fut9:
                    raise _Quirk(SIG_FUTASP + ": aspect ratio packet of the future class compared with the current programme (" + where + ")")
                return "prog-info-announce: %s PROG_INFO %s, content %s, type bit %s" % (
                    where, "sent" if "pi" in kinds else "missing", "changed" if changed else "unchanged",
                    "pending" if str(typ) in pend else "clear")
            if kinds.count("pi") > 1: return "prog-info-announce: %s PROG_INFO sent twice" % where
            # "announced after the documented repeat", independent of the code's own bookkeeping: a packet that
            # changed a field of its own must leave its type bit pending, otherwise no repeat will ever announce it
            if exp is not None and changed and str(typ) not in sec["SC"]["cyc%d" % cls].split(","):
                if typ == 1 and sec[own_sec]["pin"] == prev[own_sec]["pin"]:
                    raise _Quirk(SIG_PIDTD + ": a programme id packet that changes only the tape-delay flag stores it at once "
                                 "but is never announced (the flag is not counted as a change) (" + where + ")")
                if fut9:
                    raise _Quirk(SIG_FUTASP + ": aspect ratio packet of the future class compared with the current programme (" + where + ")")
                return "prog-info-announce: %s changed its own fields but its type bit is not pending afterwards" % where
            if "asp" in kinds and typ == 9 and not changed and sec["S0"]["asp"] == prev["S0"]["asp"]:
                return "prog-info-event: %s ASPECT without a change" % where
        want_id = (cls, typ) == (2, 1) and not changed and prev["SN"]["cyc"] == "1"
        if want_id != ("netid" in kinds):
            return "network-announce: %s NETWORK_ID %s" % (where, "sent" if "netid" in kinds else "missing")
        if ("net" in kinds) != (want_id and sec["SN"]["nuid"] != prev["SN"]["nuid"]):
            return "network-announce: %s NETWORK %s" % (where, "sent" if "net" in kinds else "missing")
    return None


def frame_oracle(case, out):
    """vbi_xds_demux_feed_frame: only field-2 caption lines (id CAPTION_525_F2 or CAPTION_525, line 284 or unknown)
    reach the XDS demultiplexer - never field-1 caption, other services or other lines; the packets sent on
    field 2 are delivered exactly as the reference receiver says whatever the rest of the frame carries; FALSE
    is returned iff a field-2 line had a parity error (the rest of that frame is not looked at)."""
    fed, got = [], []
    any_frame = False
    for i, l in enumerate(case):
        w = l.split()
        if not w or w[0] != "frame":
            continue
        try:
            n = int(w[1], 0)
            if n < 0 or len(w) != 2 + 3 * n: raise ValueError
            lines = [(int(w[2 + 3 * k], 0), int(w[3 + 3 * k], 0), bytes.fromhex(w[4 + 3 * k])) for k in range(n)]
            if any(len(d) != 2 or a < 0 or b < 0 for a, b, d in lines): raise ValueError
        except (ValueError, IndexError):
            if i < len(out) and out[i] != "rej parse":
                return "frame-op-accepted: '%s' -> '%s'" % (l, out[i])
            continue
        any_frame = True
        if i >= len(out) or not out[i].startswith("ok "):
            return "rejected-op: '%s' -> '%s'" % (l, out[i] if i < len(out) else "<none>")
        want_r = 1
        for ident, line, d in lines:
            if ident in (0x40, 0x60) and line in (284, 0):
                fed.append((d[0], d[1]))
                if not (X.parity_ok(d[0]) and X.parity_ok(d[1])):
                    want_r = 0
                    break
        o = parse_out(out[i])
        if o["err"] or o["oob"]:
            return "model-error-site-on-code: %s" % (o["err"] or "oob")
        if o["r"] != want_r:
            return "frame-return-value: r=%s, expected %d for '%s'" % (o["r"], want_r, l[:120])
        for cls, sub, n2, data, z in o["pkts"]:
            if not (1 <= n2 <= 32) or len(data) != n2 or z != 1:
                return "delivered-length: %d" % n2
            got.append((cls, sub, data))
    if not any_frame:
        return None
    exp, conf = X.reference(fed, "d")
    if conf and got != exp:
        k = 0
        while k < min(len(exp), len(got)) and exp[k] == got[k]:
            k += 1
        fmt = lambda l: [(c, t, d.hex()) for c, t, d in l[k:k + 2]] or "nothing more"
        return ("frame-delivery-mismatch: the packets sent on field 2 are not what is delivered (%d expected / %d delivered, "
                "first difference at #%d: expected %s got %s)" % (len(exp), len(got), k, fmt(exp), fmt(got)))
    return None


def wire_nul(rng, cls, sub, payload, p_nul=0.0):
    """wire form; with p_nul some characters travel alone in a pair (c, NUL) in the middle of the packet"""
    body, i = [], 0
    while i < len(payload):
        if i + 1 < len(payload) and rng.random() >= p_nul:
            body.append((payload[i], payload[i + 1])); i += 2
        else:
            body.append((payload[i], 0)); i += 1
    s7 = 2 * cls + 1 + sub + sum(a + b for a, b in body) + 0x0F
    return [(2 * cls + 1, sub)] + body + [(0x0F, (-s7) % 128)]


class C09(verif.Spec):
    prop = "C09"
    comp = "xds"
    lean_modules = ["ZvbiModel.Props.C09", "ZvbiModel.Props.C09Sep", "ZvbiModel.Props.C09Hist"]
    harness = "xds_harness"
    harness_link_lib = True
    timeout_per_case = 2.0
    partial_note = ("service decoder: complete model `Dec` (every packet type, field and event of xds_decoder) tied to the code by "
                    "field-by-field correspondence and a field-level oracle; proved by induction over ALL packet histories "
                    "(Props/C09Hist): every field group the decoder exposes (10 groups per programme, 3 network fields) equals the "
                    "decoding of the last accepted packet of its (class, type) after the last flush reaching it, unknown if none; the "
                    "flushes are characterised; every PROG_INFO event carries the stored fields; classes MISC.. are inert; "
                    "announcement on the repeat is proved for length/elapsed, CGMS-A, title, network name and open for the other "
                    "groups (prog_info_announced_on_repeat_full, def); one deviation of the current tree (tape-delay flag never "
                    "announced) is proved as counterexample and reported as known finding")
    assumptions = ["little-endian int layout for the buffer[-1]/buffer[-2] overlay of caption.c (only on the path the "
                   "model reports as out of bounds)",
                   "the caption decoder proper does not touch cc->xds / curr_sp / sub_packet (checked by grep and by "
                   "the correspondence run, which routes caption pairs through the real caption decoder)"]
    trusted_base = ["translate/gen_xds.py (extents, guards, subclass -> buffer layout, control-flow flags; extents cross-checked by the "
                    "`extents` op, flags by the corpus replays)",
                    "harness/xds_harness.c incl. the macro that redirects the xds_decoder call to a printing hook",
                    "lib/xds_util.py reference receiver = my reading of EIA-608 XDS packet framing",
                    "Dec.lean: array extents and caption ids are constants cross-checked by the harness op `extents2`",
                    "translate/gen_xdsdec.py (five control-flow flags of xds_decoder / flush_prog_info read from src/caption.c; "
                    "cross-checked by the per-field correspondence run)"]
    open_statements = ["C09Hist.prog_info_announced_on_repeat_full (announcement on the repeat for EVERY group over reachable states; "
                       "proved: length/elapsed and CGMS-A in any state (C09Hist.prog_info_announced_on_repeat), title and network name "
                       "(C09 round 2), the event payload over all histories; missing: rating (needs the invariant dlsv = 0 unless TV_US), "
                       "audio, caption services, type list / description lines (array change flag = C-string change), aspect "
                       "(ASPECT event in front), programme id date (flush in the first call))"]

    # ------------------------------------------------------------------ generation
    # functions the line-coverage report (thorough tier / VERIF_COVERAGE=1) lists besides the anchors: the harness renames
    # the definition of xds_decoder, flush_prog_info and xds_strfu are its helpers
    scope_functions = ["xds_decoder_real", "flush_prog_info", "xds_strfu"]

    def gen_cases(self, rng, tier):
        N = 4000 if tier == "quick" else 40000
        cases = [["extents"]]
        # a slice of the service-decoder streams (`q` ops) in the main run as well: they take part in the per-case
        # correspondence / oracle loop and in the line-coverage measurement (which looks at the first 4000 cases only;
        # the full set runs in extra_checks)
        import random as _random
        _dc = self.gen_dec_cases(_random.Random(rng.randrange(1 << 30)), "quick")
        cases += _dc[1:41] + _dc[-220:]
        streams = []          # (tag, raw pairs)

        def pk(universe="any", n=None, bad_ck=False):
            cls, sub = X.rand_class_type(rng, universe)
            if n is None:
                n = rng.choice([1, 2, 3, 4, 6, 7, 15, 16, 29, 30, 31, 32, rng.randrange(1, 33)])
            p = X.Packet(cls, sub, X.rand_payload(rng, n))
            if bad_ck:
                p.ck = (p.ck + rng.randrange(1, 128)) % 128
            return p

        # 1. every payload length 0..40 (single packet, good and bad checksum), all class bytes
        for n in range(0, 41):
            for bad in (False, True):
                p = X.Packet(*X.rand_class_type(rng, "both"), X.rand_payload(rng, n))
                if bad: p.ck = (p.ck + 1 + rng.randrange(127)) % 128
                streams.append(("len", [(X.par(a), X.par(b)) for a, b in p.wire()]))
        # 2. all (class byte, type) headers: start + 2 chars + end, sampled types incl. 0x18.., 0x40..0x4F
        for c1 in range(1, 15, 2):
            for sub in list(range(0, 0x1A)) + [0x20, 0x3F, 0x40, 0x41, 0x47, 0x48, 0x4F, 0x50, 0x7F]:
                p = X.Packet((c1 - 1) >> 1, sub, X.rand_payload(rng, 2))
                streams.append(("hdr", [(X.par(a), X.par(b)) for a, b in p.wire()]))
        # 3. interleavings of 2..5 packets and caption runs (inside what both tables support)
        for _ in range(N):
            k = rng.randrange(2, 6)
            pkts = [pk("both" if rng.random() < 0.8 else "any", bad_ck=rng.random() < 0.1) for _ in range(k)]
            st = X.merge(rng, pkts, safe=True)
            streams.append(("merge", X.raw(st)))
        # 4. unrestricted interleavings: unsupported classes / shared buffers may interrupt (known deviations)
        for _ in range(N // 6):
            k = rng.randrange(2, 5)
            pkts = [pk("any") for _ in range(k)]
            streams.append(("merge-any", X.raw(X.merge(rng, pkts, safe=False))))
        # 5. single faults on a sender stream: parity flip, byte replaced, pair dropped, pair duplicated
        for _ in range(N):
            k = rng.randrange(1, 4)
            st = X.raw(X.merge(rng, [pk("both") for _ in range(k)], safe=True))
            i = rng.randrange(len(st))
            f = rng.random()
            a, b = st[i]
            if f < 0.45:
                if rng.random() < 0.5: a ^= 0x80
                else: b ^= 0x80
                st[i] = (a, b)
                tag = "fault-parity"
            elif f < 0.65:
                v = X.par(rng.randrange(128))
                st[i] = (v, b) if rng.random() < 0.5 else (a, v)
                tag = "fault-byte"
            elif f < 0.85:
                del st[i]
                tag = "fault-drop"
            else:
                st.insert(i, st[i])
                tag = "fault-dup"
            if st:
                streams.append((tag, st))
        # 6. boundary: NUL-padded pairs in the middle so that the count is odd near the limit
        for _ in range(N // 6):
            cls, sub = X.rand_class_type(rng, "both")
            body, n = [], 0
            target = rng.randrange(26, 40)
            while n < target:
                if rng.random() < 0.25:
                    body.append((rng.randrange(0x20, 0x80), 0)); n += 1
                else:
                    body.append((rng.randrange(0x20, 0x80), rng.randrange(1, 0x80))); n += 2
            s7 = 2 * cls + 1 + sub + sum(a + b for a, b in body) + 0x0F
            w = [(2 * cls + 1, sub)] + body + [(0x0F, (-s7) % 128)]
            streams.append(("boundary", [(X.par(a), X.par(b)) for a, b in w]))
        # 7. network name / call letters (caption.c flushes every buffer when a change is announced)
        for _ in range(N // 12):
            names = [X.rand_payload(rng, rng.randrange(2, 9)) for _ in range(2)]
            seq = []
            for _ in range(rng.randrange(4, 9)):
                r = rng.random()
                if r < 0.6: seq.append(X.Packet(2, 1, rng.choice(names)))
                elif r < 0.75: seq.append(X.Packet(2, 2, rng.choice(names)[:4]))
                else: seq.append(pk("both"))
            st = []
            openp = pk("both", n=8)
            w = openp.wire()
            st += w[:3]
            for p in seq:
                st += p.wire()
            st += [openp.cont()] + w[3:]
            streams.append(("network", [(X.par(a), X.par(b)) for a, b in st]))
        # 8. malformed: random pairs biased to the XDS control range, random parity
        for _ in range(N // 3):
            st = []
            for _ in range(rng.randrange(1, 60)):
                r = rng.random()
                if r < 0.3: a = rng.randrange(1, 0x10)
                elif r < 0.4: a = rng.randrange(0x10, 0x20)
                elif r < 0.9: a = rng.randrange(0x20, 0x80)
                else: a = rng.randrange(256)
                r = rng.random()
                if r < 0.3: b = rng.randrange(0, 0x19)
                elif r < 0.9: b = rng.randrange(0x20, 0x80)
                else: b = rng.randrange(256)
                a = X.par(a) if rng.random() < 0.93 else a
                b = X.par(b) if rng.random() < 0.93 else b
                st.append((a & 255, b & 255))
            streams.append(("malformed", st))
        # 9. malformed: valid stream, then pairs shuffled locally
        for _ in range(N // 6):
            st = X.raw(X.merge(rng, [pk("any") for _ in range(rng.randrange(1, 4))], safe=False))
            for _ in range(rng.randrange(1, 4)):
                i, j = rng.randrange(len(st)), rng.randrange(len(st))
                st[i], st[j] = st[j], st[i]
            streams.append(("shuffled", st))
        # 10. vbi_xds_demux_feed_frame: frames mixing field-1 caption, field-2 XDS, other services, every id tagging
        frame_cases = []
        F1, F2, C525 = 0x20, 0x40, 0x60
        for _ in range(N // 8):
            st = X.raw(X.merge(rng, [pk("noalias") for _ in range(rng.randrange(1, 4))], safe=True))
            if rng.random() < 0.25:
                i = rng.randrange(len(st)); a, b = st[i]; st[i] = (a ^ 0x80, b) if rng.random() < 0.5 else (a, b ^ 0x80)
            style2 = rng.choice([None, (F2, 284), (F2, 0), (C525, 284), (C525, 0)])
            style1 = rng.choice([None, (F1, 21), (F1, 0), (C525, 21)])
            ops, k = [], 0
            while k < len(st):
                lines = []
                def f1line():
                    r = rng.random()
                    if r < 0.45: q = (rng.randrange(0x20, 0x80), rng.randrange(0x20, 0x80))
                    elif r < 0.7: q = rng.choice(X.CAPTION_CTRL)
                    elif r < 0.85: q = (rng.randrange(1, 0x10), rng.randrange(0, 0x80))      # looks like an XDS control pair
                    else: q = (0, 0)
                    t = style1 or rng.choice([(F1, 21), (F1, 0), (C525, 21)])
                    return (t[0], t[1], X.par(q[0]), X.par(q[1]))
                if rng.random() < 0.8: lines.append(f1line())
                for _ in range(rng.choice([0, 1, 1, 1, 1, 2])):
                    if k < len(st):
                        t = style2 or rng.choice([(F2, 284), (F2, 0), (C525, 284), (C525, 0)])
                        lines.append((t[0], t[1], st[k][0], st[k][1])); k += 1
                for _ in range(rng.choice([0, 0, 1, 2])):
                    # lines that must be skipped: other services, sets of ids, caption ids on other lines
                    t = rng.choice([(0x2, 7), (0x4, 16), (0x400, 23), (0x8, 22), (0x10, 335), (0, 0), (F2 | 0x2, 284), (C525 | 0x400, 0),
                                    (F2, 285), (F2, 21), (C525, 283), (C525, 22), (F1 | 0x2, 0), (0x80, 284), (0x1000, 0)])
                    lines.append((t[0], t[1], X.par(rng.randrange(128)), X.par(rng.randrange(128))))
                if rng.random() < 0.5: rng.shuffle(lines)
                # keep the order of the field-2 pairs
                f2 = [l for l in lines if l[0] in (F2, C525) and l[1] in (284, 0)]
                f2s = sorted(f2, key=lambda l: st.index((l[2], l[3])) if (l[2], l[3]) in st else 0)
                it = iter(f2s)
                lines = [next(it) if (l[0] in (F2, C525) and l[1] in (284, 0)) else l for l in lines]
                ops.append("frame %d %s" % (len(lines), " ".join("0x%x %d %s" % (i, ln, X.hx(a, b)) for i, ln, a, b in lines)) if lines
                           else "frame 0")
            frame_cases.append(ops)
        frame_cases.append(["frame", "frame 1", "frame 1 0x40 284", "frame 1 0x40 284 80", "frame 2 0x40 284 8080", "frame -1",
                            "frame 1 zz 284 8080", "frame 1 0x40 284 8080 1"])
        self._tags = {}
        for c in frame_cases:
            self._tags["\n".join(c)] = "frame"
        sc = []
        for tag, st in streams:
            for mode in ("d", "s"):
                c = X.ops(mode, st)
                self._tags["\n".join(c)] = tag + "/" + mode
                sc.append(c)
        # order: a sample of every kind of stream first (every step-th one), then the frames, then the rest - the
        # line-coverage measurement looks at the first 4000 cases, which should not be frames only (thorough tier)
        step = max(1, len(sc) // 1500)
        cases += sc[::step] + frame_cases + [c for i, c in enumerate(sc) if i % step]
        # malformed op lines
        cases.append(["d", "d 80", "d 8080 80", "s zz80", "s 808080", "z 8080", "q", "q 80", "extents2 1", "d 0x80", "extents 1", "s -"])
        return cases

    def classify(self, case):
        t = getattr(self, "_tags", {}).get("\n".join(case))
        if t: return t
        return "corpus/" + (case[0].split()[0] if case else "empty")

    # ------------------------------------------------------------------ oracle
    def oracle(self, case, out):
        if len(out) != len(case):
            return "output-count: %d outputs for %d ops" % (len(out), len(case))
        fr = frame_oracle(case, out)
        if fr:
            return fr
        by = parse_case(case)
        for mode in ("d", "s", "p", "q"):
            if mode not in by:
                continue
            rmode = "d" if mode == "d" else "s"
            pairs = [p for _, p in by[mode]]
            got, seen_oob = [], False
            fault_seen = False
            for (i, (b1, b2)) in by[mode]:
                if not out[i].startswith("ok "):
                    return "rejected-op: '%s' -> '%s'" % (case[i], out[i])
                o = parse_out(out[i])
                bad = not (X.parity_ok(b1) and X.parity_ok(b2))
                fault_seen = fault_seen or bad
                if o["err"]:
                    return "model-error-site-on-code: %s" % o["err"]
                if o["oob"]:
                    if mode != "d" and fault_seen:
                        return SIG_A + ": caption.c xds_separator stores at buffer[count-2] with count < 2 after a parity error"
                    return "store-below-buffer: %s op %d" % (mode, i)
                if mode == "d" and o["r"] != (0 if bad else 1):
                    return "demux-return-value: r=%s for pair %02x%02x" % (o["r"], b1, b2)
                for cls, sub, n, data, z in o["pkts"]:
                    if not (1 <= n <= 32) or len(data) != n:
                        return "delivered-length: %d" % n
                    if z != 1:
                        return "delivered-not-nul-terminated"
                    ok = X.d_accepts(cls, sub) if mode == "d" else X.s_accepts(cls, sub)
                    if not ok:
                        return "delivered-outside-table: %d/0x%02x" % (cls, sub)
                    got.append((cls, sub, data))
            if mode == "p":
                w = service_oracle(case, out)
                if w:
                    return w
            if mode == "q":
                w = dec_oracle(case, out)
                if w:
                    return w
            exp, conf = X.reference(pairs, rmode)
            if not conf or got == exp:
                continue
            if mode == "d":
                # known deviations, as variants of the reference.  The shared 0x1n/0x4n buffer is tried first;
                # "a refused header discards the current packet" only while the source still does that
                # (generated flag demuxRejectKeepsCurrent = false), otherwise it would be a regression
                if got == X.reference(pairs, "d", alias=True)[0]:
                    return SIG_C + ": vbi_xds_demux_feed keeps subclasses 0x1n and 0x4n in one buffer"
                if self.flags().get("demuxRejectKeepsCurrent") != "true":
                    if got == X.reference(pairs, "d", reject_kills=True)[0]:
                        return SIG_B + ": vbi_xds_demux_feed loses the packet that a header of an unsupported class/type interrupts"
                    if got == X.reference(pairs, "d", alias=True, reject_kills=True)[0]:
                        return SIG_BC + ": both known deviations of vbi_xds_demux_feed in one stream"
            k = 0
            while k < min(len(exp), len(got)) and exp[k] == got[k]:
                k += 1
            fmt = lambda l: [(c, t, d.hex()) for c, t, d in l[k:k + 2]] or "nothing more"
            return ("delivery-mismatch: mode %s, %d expected / %d delivered, first difference at delivery #%d: "
                    "expected %s got %s" % (mode, len(exp), len(got), k, fmt(exp), fmt(got)))
        return None


    # ------------------------------------------------------------------ service decoder oracle (`p` ops)
    def gen_service_cases(self, rng, tier):
        N = 400 if tier == "quick" else 6000
        cases = []
        for _ in range(N):
            titles = [X.rand_payload(rng, rng.randrange(2, 33)) for _ in range(2)]
            if rng.random() < 0.3: titles[0] = [0x20, 0x20] + titles[0][:20]
            names = [X.rand_payload(rng, rng.randrange(1, 20)) for _ in range(2)]
            pins = [[0x40 | rng.randrange(60), 0x40 | rng.randrange(24), 0x40 | rng.randrange(1, 32),
                     0x40 | rng.randrange(1, 13) | rng.choice([0, 0x10])] for _ in range(2)]
            pins.append([0x40 | 61, 0x40 | 25, 0x40, 0x40 | 13])       # invalid on purpose
            lens = [[0x40 | rng.randrange(64) for _ in range(rng.choice([2, 3, 4, 5, 6]))] for _ in range(2)]
            types = [[rng.randrange(0x20, 0x80) for _ in range(rng.randrange(1, 33))] for _ in range(2)]
            types.append(types[0][:max(1, len(types[0]) // 2)])
            wide = rng.random() < 0.4
            typed = rng.random() < 0.15          # programme-type packets (known finding on the current tree)
            st = []
            for _ in range(rng.randrange(3, 14)):
                cls = rng.choice([0, 0, 0, 1])
                r = rng.random()
                if r < 0.25: p = X.Packet(cls, 3, rng.choice(titles))
                elif r < 0.40: p = X.Packet(cls, 1, rng.choice(pins))
                elif r < 0.55: p = X.Packet(cls, 2, rng.choice(lens))
                elif r < 0.62: p = X.Packet(cls, 8, [0x40 | rng.randrange(4)])
                elif r < 0.65 and typed: p = X.Packet(cls, 4, rng.choice(types))
                elif r < 0.85: p = X.Packet(2, 1, rng.choice(names))
                elif r < 0.93: p = X.Packet(2, 2, rng.choice(names)[:4])
                else: p = X.Packet(2, 3, [0x40 | rng.randrange(60), 0x40 | rng.randrange(24)])
                if wide and rng.random() < 0.35:
                    # types only the Lean service model covers (the Python mirror stops judging there),
                    # and now and then one neither covers (6, 7, 9: the model prints ` ev?` from then on)
                    r = rng.random()
                    if r < 0.3: p = X.Packet(cls, 5, [0x40 | rng.randrange(64), 0x40 | rng.randrange(64)])
                    elif r < 0.55: p = X.Packet(cls, 4, rng.choice(types))
                    elif r < 0.9: p = X.Packet(cls, 0x10 + rng.randrange(8), rng.choice(titles))
                    else: p = X.Packet(cls, rng.choice([6, 7, 9]), [0x40 | rng.randrange(64), 0x40 | rng.randrange(64)])
                if rng.random() < 0.07:
                    p.ck = (p.ck + 1) % 128
                for _ in range(rng.choice([1, 2, 2, 3])):
                    st += p.wire()
                    if rng.random() < 0.3:
                        st += X.caption_run(rng)
            cases.append(X.ops("p", [(X.par(a), X.par(b)) for a, b in st]))
        return cases

    # ------------------------------------------------------------------ complete service decoder (`q` ops)
    def gen_dec_cases(self, rng, tier):
        """packet sequences over every (class, type) xds_decoder handles, valid and malformed lengths,
        repeated so that the second-occurrence rules fire, some characters sent as (c, NUL) mid-packet"""
        N = 400 if tier == "quick" else 5000
        cases = [["extents2"]]
        b6 = lambda: 0x40 | rng.randrange(64)
        def text(lo=1, hi=32):
            t = X.rand_payload(rng, rng.randrange(lo, hi + 1))
            if rng.random() < 0.25: t = ([0x20] * rng.randrange(1, 3) + t)[:32]
            return t
        # every payload length 1..32 for the types that write arrays, every class
        for n in range(1, 33):
            for cls, typ in ((0, 3), (1, 3), (0, 4), (1, 0x10), (0, 0x17), (2, 1), (2, 2), (0, 7), (0, 9), (0, 2), (3, 1)):
                w = wire_nul(rng, cls, typ, X.rand_payload(rng, n))
                cases.append(X.ops("q", [(X.par(a), X.par(b)) for a, b in w + w]))
        # a programme id packet twice, then the same date with the tape-delay flag flipped, three times (both classes)
        for cls in (0, 1):
            for _ in range(3):
                d0 = [b6(), 0x40 | rng.randrange(24), 0x40 | rng.randrange(1, 32), 0x40 | rng.randrange(1, 13) | rng.choice([0, 0x10])]
                d1 = d0[:3] + [d0[3] ^ 0x10]
                st = []
                for d, k in ((d0, 2), (d1, 3), (d0, 2)):
                    st += wire_nul(rng, cls, 1, d) * k
                cases.append(X.ops("q", [(X.par(a), X.par(b)) for a, b in st]))
        for _ in range(N):
            pool = {}
            def pick(key, mk):
                l = pool.setdefault(key, [])
                if len(l) < 2: l.append(mk())
                return rng.choice(l)
            st = []
            p_nul = rng.choice([0.0, 0.0, 0.15])
            focus = rng.choice([None, None, 1, 3, 5, 6, 7, 9])
            for _ in range(rng.randrange(4, 18)):
                r = rng.random()
                cls = rng.choice([0, 0, 0, 1])
                if r < 0.62:
                    typ = focus if (focus and rng.random() < 0.5) else rng.choice(
                        [1, 1, 2, 3, 3, 4, 5, 6, 7, 7, 8, 9, 9, 0x10 + rng.randrange(8), rng.choice([0x0A, 0x0F, 0x0D])])
                    if typ == 1:
                        mk = lambda: [b6(), 0x40 | rng.randrange(26), 0x40 | rng.randrange(32), 0x40 | rng.randrange(14) | rng.choice([0, 0x10])]
                        if rng.random() < 0.1: mk = lambda: [b6() for _ in range(rng.choice([3, 5]))]
                    elif typ == 2: mk = lambda: [b6() for _ in range(rng.randrange(1, 8))]
                    elif typ == 3: mk = lambda: text()
                    elif typ == 4: mk = lambda: X.rand_payload(rng, rng.randrange(1, 33))
                    elif typ == 5: mk = lambda: [b6() for _ in range(rng.choice([2, 2, 2, 1, 3]))]
                    elif typ == 6: mk = lambda: [b6() for _ in range(rng.choice([2, 2, 2, 1, 3]))]
                    elif typ == 7: mk = lambda: [b6() for _ in range(rng.randrange(1, 10))]
                    elif typ == 8: mk = lambda: [b6() for _ in range(rng.choice([1, 1, 1, 2]))]
                    elif typ == 9: mk = lambda: [b6() for _ in range(rng.randrange(1, 5))]
                    else: mk = lambda: text()
                    data = pick((cls, typ), mk)
                elif r < 0.85:
                    cls, typ = 2, rng.choice([1, 1, 1, 2, 3, 4])
                    if typ == 3: mk = lambda: [b6() for _ in range(rng.choice([2, 2, 1, 3]))]
                    else: mk = lambda: text(1, 32 if rng.random() < 0.3 else 8)
                    data = pick((cls, typ), mk)
                else:
                    # class MISC: every case label of xds_decoder (lengths right and wrong), types that fall into its
                    # `default`, the out-of-band channel packet 3/0x40 (refused by xds_separator: types >= 0x18 have no
                    # buffer there, so that case label is dead code), and the classes the separator has no row for
                    cls = rng.choice([3, 3, 3, 3, 4, 5, 6])
                    typ = rng.choice([1, 2, 3, 4, 1, 2, 3, 4, 5, 0x0F, 0x10, 0x17, 0x40, 0x41])
                    data = [b6() for _ in range(rng.choice([1, 2, 6, 6, rng.randrange(1, 8)]))]
                w = wire_nul(rng, cls, typ, data, p_nul)
                if rng.random() < 0.05:
                    w[-1] = (0x0F, (w[-1][1] + 1) % 128)
                for _ in range(rng.choice([1, 2, 2, 3])):
                    st += w
                    if rng.random() < 0.25: st += X.caption_run(rng)
                if rng.random() < 0.06:
                    # a continue pair for a buffer nothing was started in, payload, end pair: "can't continue"
                    c2, t2 = rng.choice([0, 1, 2, 3]), rng.choice([0x0B, 0x0E, 0x16])
                    st += [(2 * c2 + 2, t2), (b6(), b6()), (0x0F, rng.randrange(128))]
            raw = [(X.par(a), X.par(b)) for a, b in st]
            if rng.random() < 0.2:
                # one transmission error: the packet it hits must vanish without a trace in any field
                i = rng.randrange(len(raw)); a, b = raw[i]
                raw[i] = (a ^ 0x80, b) if rng.random() < 0.5 else (a, b ^ 0x80)
            cases.append(X.ops("q", raw))
        return cases

    def dec_flags(self):
        """the control-flow facts translate/gen_xdsdec.py read from src/caption.c for the model `Dec`"""
        import re
        out = {}
        try:
            for m in re.finditer(r"def (\w+) : Bool := (true|false)",
                                 open(os.path.join(verif.LEAN, "ZvbiModel", "Generated", "XdsDecFlags.lean")).read()):
                out[m.group(1)] = m.group(2) == "true"
        except OSError:
            pass
        return out, ([] if len(out) == 5 else ["Generated/XdsDecFlags.lean missing or incomplete"])

    def extra_checks(self, ctx):
        bad = self.extra_checks_svc(ctx)
        cases = self.gen_dec_cases(ctx["rng"], ctx["tier"])
        outs, inc = verif.run_side(ctx["hcmd"], cases, self.timeout_per_case)
        mouts, _ = verif.run_side(ctx["mcmd"], cases, self.timeout_per_case)
        for x in inc:
            bad.append(("%s of the real code in the service decoder (%s)" % (x["kind"], verif.summarize_san(x["detail"])),
                        cases[x["case"]]))
        skip = {x["case"] for x in inc}
        agree = pkts = 0
        seen = set()
        for i, c in enumerate(cases):
            if i in skip: continue
            o = outs.get(i, [])
            pkts += sum(1 for l in o if " dec " in l)
            w = dec_oracle(c, o)
            if w and w.split(":")[0] not in seen:
                seen.add(w.split(":")[0])
                bad.append((w, c))
            d = verif.first_diff(o, mouts.get(i, []))
            if d is None:
                agree += 1
            elif "corr" not in seen:
                seen.add("corr")
                bad.append(("service-decoder-correspondence: op %d impl '%s' model '%s'" % (d[0], d[1][:400], d[2][:400]), c))
        code, fbad = self.dec_flags()
        for f in fbad:
            bad.append(("dec-quirk-flag: " + f, ["extents2"]))
        self.extra_coverage.update({"dec_cases": len(cases), "dec_cases_model_agrees": agree, "dec_packets_judged": pkts,
                                    "dec_control_flow_flags": code})
        return bad[:8]

    def extra_checks_svc(self, ctx):
        cases = self.gen_service_cases(ctx["rng"], ctx["tier"])
        outs, inc = verif.run_side(ctx["hcmd"], cases, self.timeout_per_case)
        mouts, _ = verif.run_side(ctx["mcmd"], cases, self.timeout_per_case)
        bad = []
        events = 0
        agree = 0
        for x in inc:
            bad.append(("%s of the real code in the service decoder (%s)" % (x["kind"], verif.summarize_san(x["detail"])),
                        cases[x["case"]]))
        skip = {x["case"] for x in inc}
        for i, c in enumerate(cases):
            if i in skip: continue
            o = outs.get(i, [])
            events += sum(l.count(" ev:") for l in o)
            w = service_oracle(c, o)
            if w:
                bad.append((w, c))
            d = verif.first_diff(o, mouts.get(i, []))
            if d is None:
                agree += 1
            elif not w:
                bad.append(("service-stream-correspondence: op %d impl '%s' model '%s'" % (d[0], d[1][:120], d[2][:120]), c))
        self.extra_coverage = {"service_decoder_cases": len(cases), "service_decoder_events_checked": events,
                               "service_decoder_cases_model_agrees": agree,
                               "control_flow_flags": self.flags()}
        return bad[:5]

    def flags(self):
        p = os.path.join(verif.LEAN, "ZvbiModel", "Generated", "XdsFacts.lean")
        out = {}
        try:
            for l in open(p):
                w = l.split()
                if len(w) >= 6 and w[0] == "def" and w[3] == "Bool":
                    out[w[1]] = w[5]
        except OSError:
            pass
        return out

    def signature(self, case, what):
        return what.split(":")[0]

    def nontrivial(self, case, impl_out):
        return any((" pkt " in l or " dec " in l or "cur=" in l and "cur=-" not in l) for l in impl_out)


if __name__ == "__main__":
    verif.run_check(C09())
