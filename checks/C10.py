#!/usr/bin/env python3
"""C10 - the Teletext cache is a coherent, bounded, reference-safe page store.

Correspondence: lean/Driver/Cache.lean (model) vs harness/cache_harness.c (src/cache.c), op by op,
including a digest of the complete cache state after every operation.
Oracle (independent of the Lean model): `Abs` below is the abstract store of the property - a map
(network, page, subpage key) -> most recently stored version with most-recently-used order for
wildcard look-ups - written from the property statement and the documented key rule; it is run
against the implementation's answers.  The structural part of the property (counters, lists,
memory accounting) is judged by the audit walker inside the harness (`a=` field of every answer).
"""
import itertools, json, os, re, subprocess, sys
sys.path.insert(0, os.path.join(os.path.dirname(os.path.abspath(__file__)), "..", "lib"))
import verif

CLOCK, UNKNOWN, ANY = 0x79, 0xFF, 0x3F7F

# ---------------------------------------------------------------------------------------------
# abstract spec
# ---------------------------------------------------------------------------------------------
def is_bcd(n):
    """every digit 0..9 (documented meaning of vbi_is_bcd for the 7 low digits)"""
    return all(((n >> s) & 15) <= 9 for s in range(0, 28, 4))

def digits_greater(bcd, maximum):
    """any digit of bcd greater than the corresponding digit of maximum"""
    return any(((bcd >> s) & 15) > ((maximum >> s) & 15) for s in range(0, 28, 4))

def put_key(ptype, pgno, subno):
    """(stored subpage number, mask selecting the version to replace) - EN 300 706 A.1 as read by libzvbi"""
    if is_bcd(pgno):
        if subno == 0:
            return 0, 0
        if ptype == CLOCK or subno >= 0x100:
            if digits_greater(subno, 0x2959) or subno > 0x2300:
                return 0, 0
            return subno, 0
        if digits_greater(subno, 0x79):
            return 0, 0
        return subno, 0xFF
    return subno, 0xF

def valid_pgno(p):
    return 0x100 <= p <= 0x8FF and (p & 0xFF) != 0xFF

_ALLV = None
def put_replaces_all():
    """documented behaviour of a store under a single-version key (mask 0): with
    fixes/C10-put-replaces-all-versions.diff in the source ALL cached versions of the page number are replaced, before it
    only the most recently used one (finding F17).  Which text the source has is read by translate/gen_cache.py."""
    global _ALLV
    if _ALLV is None:
        t = open(os.path.join(verif.LEAN, "ZvbiModel", "Generated", "CacheLayout.lean")).read()
        _ALLV = "def putReplacesAllVersions : Bool := true" in t
    return _ALLV


_LAYOUT = {}


def page_size(func, x26, x28):
    """the size rule of cache_page_size () as documented in cache-priv.h (bytes the page function needs), over the struct
    sizes the translator's compiled probe reports - written from the struct, not from cache.c's switch"""
    if not _LAYOUT:
        t = open(os.path.join(verif.VERIF, "lean", "ZvbiModel", "Generated", "CacheLayout.lean")).read()
        for m in re.finditer(r"def (\w+) : Nat := (\d+)", t):
            _LAYOUT[m.group(1)] = int(m.group(2))
    L = _LAYOUT
    if func in (-1, 0):      # PAGE_FUNCTION_UNKNOWN, LOP
        if x28 & 0x13: return L["hdrSize"] + L["extLopSize"]
        if x26: return L["hdrSize"] + L["enhLopSize"]
        return L["hdrSize"] + L["lopSize"]
    if func in (2, 3): return L["hdrSize"] + L["popSize"]
    if func in (4, 5): return L["hdrSize"] + L["drcsSize"]
    if func == 9: return L["hdrSize"] + L["aitSize"]
    return L["fullSize"]


class Entry:
    __slots__ = ("net", "pgno", "subno", "func", "x26", "x28", "tag", "live", "refs")

    def __init__(self, net, pgno, subno, func, x26, x28, tag):
        self.net, self.pgno, self.subno, self.func, self.x26, self.x28, self.tag = net, pgno, subno, func, x26, x28, tag
        self.live, self.refs = True, 1


class LNet:
    def __init__(self, reset):
        self.entries = []      # most recently stored / looked up first
        self.ptype = {}
        self.default_type = UNKNOWN if reset else 0
        self.hi = {}           # pgno -> highest subno stored since the statistics were initialised
        self.hi_known = reset  # statistics known to be freshly initialised
        self.fuzzy = False     # a subcode was stored under page types inherited from a recycled network


class Abs:
    """abstract store + the client's handle tables; `feed` checks one answer of the implementation"""

    def __init__(self):
        self.nets = []
        self.nh = []
        self.ph = []
        self.deleted = False
        self.pressure = False
        self.n_addnet = 0
        self.purged = False     # a purge happened: zombie networks may exist, the counter rules below are off
        self.prev = None        # (n_cached_pages, n_cached_networks) after the previous op
        self.last_unref = None  # (entry, last reference released) of the unref being judged

    # -- helpers
    def net_of(self, h):
        return self.nh[h] if 0 <= h < len(self.nh) else None

    def page_of(self, h):
        return self.ph[h] if 0 <= h < len(self.ph) else None

    def held_pages(self):
        return [i for i, e in enumerate(self.ph) if e is not None]

    def held_nets(self):
        return [i for i, n in enumerate(self.nh) if n is not None]

    def find(self, net, pgno, subno, mask):
        for e in net.entries:
            if e.pgno == pgno and (e.subno & mask) == (subno & mask):
                return e
        return None

    def touch(self, net, e):
        net.entries.remove(e)
        net.entries.insert(0, e)

    # -- one op; `out` is the implementation's answer (without digest); returns None or complaint
    def feed(self, op, out):
        w = op.split()
        res = out.split(" | ")[0]
        if self.deleted:
            return None if res == "rej deleted" else "op after delete answered '%s'" % res
        k = w[0]
        self.last_unref = None
        try:
            r = getattr(self, "op_" + k)(w, res)
        except (AttributeError, ValueError, IndexError):
            return None if res.startswith("rej") else "malformed op accepted: '%s' -> '%s'" % (op, res)
        return r or self.counters(k, out)

    QUIET = ("get", "ref", "iscached", "hisubno", "foreach", "ptype", "statreset", "netref", "copy")

    def counters(self, k, out):
        """nothing leaves the cache without a reason (no memory limit in force, no purge so far): look-ups,
        references, statistics never change the number of cached pages / networks; releasing a page reference
        frees at most that page, and only when it had been replaced - in particular the page's network and its
        other pages stay (an unreferenced network is kept until the network limit is exceeded)"""
        m = re.search(r" \| c=(\d+) m=\d+ n=(\d+) ", out)
        if not m:
            return None
        cur = (int(m.group(1)), int(m.group(2)))
        prev, self.prev = self.prev, cur
        if prev is None or self.pressure or self.purged or k == "purge":
            return None
        if k in self.QUIET and cur != prev:
            return "'%s' changed the number of cached pages / networks: %s -> %s" % (k, prev, cur)
        if k == "unref" and self.last_unref is not None:
            e, last = self.last_unref
            if e.net.fuzzy:
                return None
            exp = (prev[0] - 1, prev[1]) if (last and not e.live) else prev
            if cur != exp:
                return ("releasing a page reference changed the number of cached pages / networks %s -> %s, expected %s "
                        "(pages or a network left the cache although no limit is exceeded)" % (prev, cur, exp))
        return None

    @staticmethod
    def num(s, mx, neg=False):
        """decimal or 0x-hex exactly as hutil.h / Driver.Util accept them"""
        sign = 1
        if neg and s.startswith("-"):
            sign, s = -1, s[1:]
        if re.fullmatch(r"0x[0-9a-fA-F]+", s):
            v = int(s[2:], 16)
        elif re.fullmatch(r"[0-9]+", s):
            v = int(s, 10)
        else:
            raise ValueError
        if v > mx:
            raise ValueError
        return sign * v

    def expect(self, res, exp):
        return None if res == exp else "expected '%s' got '%s'" % (exp, res)

    def op_sizes(self, w, res):
        return None

    def op_dump(self, w, res):
        return None

    def op_addnet(self, w, res):
        if len(w) != 1: raise ValueError
        n = LNet(reset=False)
        n.hi_known = (self.n_addnet == 0)     # the first network of a cache is freshly allocated
        self.n_addnet += 1
        self.nets.append(n)
        self.nh.append(n)
        return self.expect(res, "ok n%d" % (len(self.nh) - 1))

    def op_netref(self, w, res):
        if len(w) != 2: raise ValueError
        n = self.net_of(self.num(w[1], 1000000))
        self.nh.append(n)
        if n is None:
            return self.expect(res, "rej handle")
        return self.expect(res, "ok n%d" % (len(self.nh) - 1))

    def op_netunref(self, w, res):
        if len(w) != 2: raise ValueError
        h = self.num(w[1], 1000000)
        if self.net_of(h) is None:
            return self.expect(res, "rej handle")
        self.nh[h] = None
        return self.expect(res, "ok")

    def op_chsw(self, w, res):
        if len(w) != 2: raise ValueError
        h = self.num(w[1], 1000000)
        if self.net_of(h) is None:
            self.nh.append(None)
            return self.expect(res, "rej handle")
        self.nh[h] = None
        n = LNet(reset=True)
        self.n_addnet += 1
        self.nets.append(n)
        self.nh.append(n)
        return self.expect(res, "ok n%d" % (len(self.nh) - 1))

    def op_statreset(self, w, res):
        if len(w) != 2: raise ValueError
        n = self.net_of(self.num(w[1], 1000000))
        if n is None:
            return self.expect(res, "rej handle")
        busy = any(e is not None and e.net is n for e in self.ph) or bool(n.entries)
        if self.pressure and res in ("ok", "rej busy"):
            busy = res != "ok"
        if busy:
            return self.expect(res, "rej busy")   # only a network without pages is re-initialised
        n.ptype, n.default_type, n.hi, n.hi_known, n.fuzzy = {}, UNKNOWN, {}, True, False
        return self.expect(res, "ok")

    def op_ptype(self, w, res):
        if len(w) != 4: raise ValueError
        n = self.net_of(self.num(w[1], 1000000)); pgno = self.num(w[2], 0xFFFF); t = self.num(w[3], 255)
        if n is None:
            return self.expect(res, "rej handle")
        if not valid_pgno(pgno):
            return self.expect(res, "rej pgno")
        n.ptype[pgno] = t
        return self.expect(res, "ok")

    def page_line(self, h, e):
        return "ok p%d %d %d %d %d %d %d" % (h, e.pgno, e.subno, e.func, e.x26, e.x28, e.refs)

    def check_page(self, res, h, e):
        """res = 'ok p<h> pgno subno func x26 x28 ref pri tag'"""
        f = res.split()
        exp = self.page_line(h, e).split()
        if f[:len(exp)] != exp or len(f) != len(exp) + 2 or f[-1] != str(e.tag):
            return "expected '%s <pri> %d' got '%s'" % (" ".join(exp), e.tag, res)
        return None

    def op_put(self, w, res):
        if len(w) != 8: raise ValueError
        n = self.net_of(self.num(w[1], 1000000)); pgno = self.num(w[2], 0xFFFF); subno = self.num(w[3], 0xFFFF)
        func = self.num(w[4], 1 << 62, neg=True); x26 = self.num(w[5], 0xFFFF); x28 = self.num(w[6], 0xFFFF); tag = self.num(w[7], 0xFFFFFF)
        if func < -5 or func > 20: raise ValueError
        h = len(self.ph)
        self.ph.append(None)
        if n is None:
            return self.expect(res, "rej handle")
        if not (0x100 <= pgno <= 0x8FF):
            return self.expect(res, "rej pgno")
        if (pgno & 0xFF) == 0xFF:
            return self.expect(res, "ok null")
        if self.pressure and (res == "ok null" or res.startswith("err ")):
            return None     # out of memory is a legal answer once a memory limit is in force
        sub, mask = put_key(n.ptype.get(pgno, n.default_type), pgno, subno)
        if not n.hi_known and pgno not in n.ptype and put_key(CLOCK, pgno, subno) != (sub, mask):
            # a recycled network keeps the page types of its predecessor until they are
            # re-initialised (libzvbi always does, see vbi_chsw_reset): either reading of the
            # subcode is acceptable and the versions of this network are no longer predicted
            n.fuzzy = True
            f = res.split()
            if len(f) > 3 and f[3] == str(put_key(CLOCK, pgno, subno)[0]):
                sub = int(f[3])
        old = self.find(n, pgno, sub & mask, mask)
        olds = [] if old is None else [old]
        if old is not None and mask == 0 and put_replaces_all():
            olds = [x for x in n.entries if x.pgno == pgno]
        for x in olds:
            n.entries.remove(x)
            x.live = False
        e = Entry(n, pgno, sub, func, x26, x28, tag)
        n.entries.insert(0, e)
        self.ph[h] = e
        # cache_network_add_page (5e41e82): the recorded range starts over when the new page is the only
        # allocated version of its page number (replaced versions still held by a client count)
        others = sum(1 for x in n.entries if x.pgno == pgno and x is not e)
        others += len({id(x) for x in self.ph if x is not None and not x.live and x.refs > 0 and x.net is n and x.pgno == pgno})
        n.hi[pgno] = sub if others == 0 else max(n.hi.get(pgno, 0), sub)
        return self.check_page(res, h, e)

    def lookup(self, n, pgno, subno, mask, res):
        """-> (entry or None, complaint)"""
        if not valid_pgno(pgno):
            return None, None
        if subno == ANY:
            mask = 0
        return self.find(n, pgno, subno, mask), None

    def op_get(self, w, res):
        if len(w) != 5: raise ValueError
        n = self.net_of(self.num(w[1], 1000000)); pgno = self.num(w[2], 0xFFFF); subno = self.num(w[3], 0xFFFF)
        mask = self.num(w[4], 0xFFFFFFFF)
        h = len(self.ph)
        self.ph.append(None)
        if n is None:
            return self.expect(res, "rej handle")
        if self.pressure or n.fuzzy:
            # unreferenced versions may have been evicted: only what is returned can be judged
            f = res.split()
            if res == "ok null":
                return None
            if len(f) != 10 or not valid_pgno(pgno):
                return "get answered '%s'" % res
            m = 0 if subno == ANY else mask
            cand = [e for e in n.entries if str(e.tag) == f[-1] and e.pgno == pgno and (e.subno & m) == (subno & m)]
            if not cand:
                return "get returned a page that is not stored under this key: '%s'" % res
            e = cand[0]
        else:
            e, _ = self.lookup(n, pgno, subno, mask, res)
            if e is None:
                return self.expect(res, "ok null")
        self.touch(n, e)
        e.refs += 1
        self.ph[h] = e
        return self.check_page(res, h, e)

    def op_iscached(self, w, res):
        if len(w) != 4: raise ValueError
        n = self.net_of(self.num(w[1], 1000000)); pgno = self.num(w[2], 0xFFFF); subno = self.num(w[3], 0xFFFF)
        if n is None:
            return self.expect(res, "rej handle")
        e, _ = self.lookup(n, pgno, subno, 0xFFFFFFFF, res)
        if self.pressure or n.fuzzy:
            return None if res in ("ok 0", "ok 1") else "iscached answered '%s'" % res
        if e is None:
            return self.expect(res, "ok 0")
        self.touch(n, e)
        return self.expect(res, "ok 1")

    def op_hisubno(self, w, res):
        if len(w) != 3: raise ValueError
        n = self.net_of(self.num(w[1], 1000000)); pgno = self.num(w[2], 0xFFFF)
        if n is None:
            return self.expect(res, "rej handle")
        if not (0x100 <= pgno <= 0x8FF):
            return self.expect(res, "rej pgno")
        if not res.startswith("ok "):
            return "hisubno answered '%s'" % res
        if n.hi_known and not self.pressure:
            return self.expect(res, "ok %d" % n.hi.get(pgno, 0))
        return None

    def op_ref(self, w, res):
        if len(w) != 2: raise ValueError
        e = self.page_of(self.num(w[1], 1000000))
        self.ph.append(e)
        if e is None:
            return self.expect(res, "rej handle")
        e.refs += 1
        return self.expect(res, "ok p%d" % (len(self.ph) - 1))

    def op_unref(self, w, res):
        if len(w) != 2: raise ValueError
        h = self.num(w[1], 1000000)
        e = self.page_of(h)
        if e is None:
            return self.expect(res, "rej handle")
        self.ph[h] = None
        e.refs -= 1
        self.last_unref = (e, e.refs == 0)
        # held page intact until released, also when replaced (zombie) or its network was dropped
        return self.expect(res, "ok %d %d %d" % (e.pgno, e.subno, e.tag))

    def op_copy(self, w, res):
        """cache_page_copy of a held page: cache_page_size (src) bytes, content of the held version, cache untouched"""
        if len(w) != 2: raise ValueError
        e = self.page_of(self.num(w[1], 1000000))
        if e is None:
            return self.expect(res, "rej handle")
        return self.expect(res, "ok %d %d %d %d %d %d same %d" % (page_size(e.func, e.x26, e.x28), e.pgno, e.subno, e.func,
                                                                  e.x26, e.x28, e.tag))

    def op_foreach(self, w, res):
        if len(w) != 6: raise ValueError
        n = self.net_of(self.num(w[1], 1000000)); pgno = self.num(w[2], 0xFFFF); self.num(w[3], 0xFFFF)
        stop = self.num(w[5], 64)
        if w[4] not in ("fwd", "rev"): raise ValueError
        if n is None:
            return self.expect(res, "rej handle")
        if not (0x100 <= pgno <= 0x8FF) or stop == 0:
            return self.expect(res, "rej pgno")
        f = res.split()
        if len(f) != 3 or not f[1].startswith("r=") or not f[2].startswith("v="):
            return "foreach answered '%s'" % res
        if f[1] not in ("r=0", "r=1", "r=-1"):
            return "page walk did not end: '%s'" % f[1]
        vis = [] if f[2] == "v=-" else f[2][2:].split(",")
        if f[1] == "r=0" and (vis or any(True for _ in n.entries)) and not self.pressure:
            return "page walk returned 0 with pages cached"
        for v in vis:
            pg, sb, tag, _wr = v.split(".")
            if tag == "corrupt":
                return "page walk delivered a corrupt page"
            cand = [e for e in n.entries if e.pgno == int(pg) and e.subno == int(sb)]
            if not cand:
                if n.fuzzy: continue
                return "page walk delivered %s.%s which is not stored" % (pg, sb)
            if not (self.pressure or n.fuzzy) and str(cand[0].tag) != tag:
                return "page walk delivered a stale version of %s.%s" % (pg, sb)
            self.touch(n, cand[0])
        return None

    def op_purge(self, w, res):
        if len(w) != 1: raise ValueError
        self.purged = True
        for n in self.nets:
            for e in list(n.entries):
                if e.refs == 0:
                    n.entries.remove(e); e.live = False
        return self.expect(res, "ok")

    def op_setlimit(self, w, res):
        if len(w) != 2: raise ValueError
        self.num(w[1], 2147483647)
        self.pressure = True
        return self.expect(res, "ok")

    def op_delete(self, w, res):
        if len(w) != 1: raise ValueError
        self.deleted = True
        pages = {id(e) for e in self.ph if e is not None}
        nets = {id(n) for n in self.nh if n is not None} | {id(e.net) for e in self.ph if e is not None}
        # everything the client released must be freed; what it still holds is leaked (documented)
        return self.expect(res, "ok leaked pages=%d nets=%d" % (len(pages), len(nets)))


# ---------------------------------------------------------------------------------------------
# generators
# ---------------------------------------------------------------------------------------------
PGNOS = [0x100, 0x101, 0x172, 0x111, 0x150, 0x1A0, 0x1AF, 0x2FF, 0x8FE, 0x899]
PGNOS_BAD = [0x0FF, 0x900, 0x8FF, 0, 0xFFFF]
SUBNOS = [0, 0, 1, 2, 3, 9, 0x0A, 0x10, 0x79, 0x7A, 0x80, 0x99, 0x100, 0x102, 0x159, 0x160, 0x2300, 0x2301, 0x2359, 0x2959,
          0x3F7E, ANY]
MASKS = [0, 0xF, 0xFF, 0xFFFFFFFF, 0xFFFFFFFF, 0x3F7F, 0xF0]
FUNCS = [0, 0, 0, 0, -1, 2, 3, 4, 5, 9, 1, 6]


class Gen:
    """builds one case while tracking the client's handles with the abstract spec"""

    def __init__(self, rng, pgnos=None, subnos=None, uniform=False):
        self.rng, self.ops, self.abs = rng, [], Abs()
        self.pgnos, self.subnos, self.uniform = pgnos or PGNOS, subnos or SUBNOS, uniform
        self.tag = 0

    def emit(self, op):
        self.ops.append(op)
        self._dry(op)

    def _dry(self, op):
        """advance the abstract spec assuming the implementation is right (answers are synthesised)"""
        a = self.abs
        w = op.split()
        k = w[0]
        try:
            if k in ("get", "iscached"):
                n = a.net_of(int(w[1], 0)); pgno = int(w[2], 0); subno = int(w[3], 0)
                mask = int(w[4], 0) if k == "get" else 0xFFFFFFFF
                e = None
                if n is not None:
                    e, _ = a.lookup(n, pgno, subno, mask, "")
                if k == "get":
                    a.ph.append(None)
                if e is not None:
                    a.touch(n, e)
                    if k == "get":
                        e.refs += 1; a.ph[-1] = e
            elif k == "foreach":
                pass
            else:
                a.feed(op, "?")
        except (ValueError, IndexError):
            pass

    def net(self):
        hs = self.abs.held_nets()
        return self.rng.choice(hs) if hs else 0

    def page(self):
        hs = self.abs.held_pages()
        return self.rng.choice(hs) if hs else None

    def put(self, nh=None, pgno=None, subno=None):
        r = self.rng
        self.tag += 1
        func = 0 if self.uniform else r.choice(FUNCS)
        x26 = 0 if self.uniform else r.choice([0, 0, 0, 1, 0x8000])
        x28 = 0 if self.uniform else r.choice([0, 0, 0, 1, 2, 0x10, 4])
        self.emit("put %d 0x%x 0x%x %d %d %d %d" % (self.net() if nh is None else nh,
                  r.choice(self.pgnos) if pgno is None else pgno, r.choice(self.subnos) if subno is None else subno,
                  func, x26, x28, self.tag))
        return len(self.abs.ph) - 1

    def get(self, nh=None):
        r = self.rng
        self.emit("get %d 0x%x 0x%x 0x%x" % (self.net() if nh is None else nh, r.choice(self.pgnos), r.choice(self.subnos),
                                              r.choice(MASKS)))
        return len(self.abs.ph) - 1

    def unref(self, h=None):
        if h is None:
            h = self.page()
        if h is not None:
            self.emit("unref %d" % h)

    def release_all(self):
        for h in self.abs.held_pages():
            self.emit("unref %d" % h)
        for h in self.abs.held_nets():
            self.emit("netunref %d" % h)


def case_decoder(rng, n):
    """the way libzvbi 0.2 itself uses the cache: one network, no reference survives a call"""
    g = Gen(rng, pgnos=rng.sample(PGNOS, 4) + [0x100], subnos=[0, 0, 1, 2, 3, 0x10, 0x79, 0x80, ANY])
    g.emit("addnet")
    g.emit("statreset 0")     # vbi_decoder_new: vbi_teletext_init
    for _ in range(n):
        k = rng.random()
        if k < 0.45:
            h = g.put()
            if rng.random() < 0.15: g.emit("copy %d" % h)    # the way vbi_fetch_vt_page takes a private copy
            g.emit("unref %d" % h)
        elif k < 0.7:
            h = g.get()
            if g.abs.page_of(h) is not None: g.emit("unref %d" % h)
        elif k < 0.8:
            g.emit("iscached %d 0x%x 0x%x" % (g.net(), rng.choice(g.pgnos), rng.choice(g.subnos)))
        elif k < 0.88:
            g.emit("hisubno %d 0x%x" % (g.net(), rng.choice(g.pgnos)))
        elif k < 0.93:
            g.emit("foreach %d 0x%x 0x%x %s %d" % (g.net(), rng.choice(g.pgnos), rng.choice(g.subnos),
                                                      rng.choice(["fwd", "rev"]), rng.randrange(1, 6)))
        elif k < 0.97:
            g.emit("chsw %d" % g.net())
        else:
            g.emit("ptype %d 0x%x %d" % (g.net(), rng.choice(g.pgnos), rng.choice([CLOCK, 0, 1, UNKNOWN])))
    g.emit("dump")
    g.release_all()
    g.emit("delete")
    return g.ops


def case_client(rng, n, pressure=False):
    """a client of the cache API that keeps references, several networks, purge, teardown"""
    uniform = pressure and rng.random() < 0.5
    g = Gen(rng, uniform=uniform)
    g.emit("addnet")
    if pressure:
        g.limit = lambda: g.emit("setlimit %d" % ((rng.randrange(0, 12) * 1564 + rng.choice([0, 100, 1564, 4504]))
                                                     if uniform else (rng.randrange(400, 30000) * 4 + 2)))
        if rng.random() < 0.5: g.limit()
    for _ in range(n):
        k = rng.random()
        if k < 0.30:
            h = g.put()
            if rng.random() < 0.6: g.emit("unref %d" % h)
        elif k < 0.46:
            h = g.get()
            if g.abs.page_of(h) is not None and rng.random() < 0.5: g.emit("unref %d" % h)
        elif k < 0.48:
            h = g.page()
            g.emit("copy %d" % (h if h is not None and rng.random() < 0.9 else rng.randrange(0, len(g.abs.ph) + 2)))
        elif k < 0.62:
            g.unref()
        elif k < 0.66:
            h = g.page()
            if h is not None: g.emit("ref %d" % h)
        elif k < 0.70:
            g.emit("iscached %d 0x%x 0x%x" % (g.net(), rng.choice(g.pgnos), rng.choice(g.subnos)))
        elif k < 0.73:
            g.emit("hisubno %d 0x%x" % (g.net(), rng.choice(g.pgnos)))
        elif k < 0.77:
            g.emit("foreach %d 0x%x 0x%x %s %d" % (g.net(), rng.choice(g.pgnos), rng.choice(g.subnos),
                                                      rng.choice(["fwd", "rev"]), rng.randrange(1, 6)))
        elif k < 0.82:
            g.emit("chsw %d" % g.net())
        elif k < 0.86:
            g.emit("addnet")
        elif k < 0.89:
            g.emit("netref %d" % g.net())
        elif k < 0.93:
            if g.abs.held_nets(): g.emit("netunref %d" % g.net())
        elif k < 0.95:
            g.emit("ptype %d 0x%x %d" % (g.net(), rng.choice(g.pgnos), rng.choice([CLOCK, 0, 1, UNKNOWN])))
        elif k < 0.96:
            g.emit("statreset %d" % g.net())
        elif k < 0.975:
            g.emit("purge")
        elif k < 0.985:
            g.emit("dump")
        elif pressure:
            g.limit()
        else:
            g.emit("unref %d" % rng.randrange(0, max(1, len(g.abs.ph) + 2)))   # possibly stale handle
    g.emit("dump")
    if rng.random() < 0.7:
        g.release_all()
    g.emit("delete")
    if rng.random() < 0.3:
        g.emit("addnet")
    return g.ops


def case_dupkey(rng, n):
    """one BCD page number, subpage / clock-time subcodes mixed (EN 300 706 A.1 key classes)"""
    pg = rng.choice([0x101, 0x150, 0x100, 0x899])
    g = Gen(rng, pgnos=[pg], subnos=[0, 1, 1, 2, 0x79, 0x102, 0x102, 0x2300, 0x159])
    g.emit("addnet")
    hold = rng.random() < 0.3
    for _ in range(n):
        k = rng.random()
        if k < 0.6:
            h = g.put()
            if not hold or rng.random() < 0.7: g.emit("unref %d" % h)
        elif k < 0.8:
            h = g.get()
            if g.abs.page_of(h) is not None: g.emit("unref %d" % h)
        elif k < 0.9:
            g.emit("hisubno %d 0x%x" % (g.net(), pg))
        elif k < 0.95:
            g.emit("ptype %d 0x%x %d" % (g.net(), pg, rng.choice([CLOCK, 1])))
        else:
            g.unref()
    g.emit("dump")
    g.release_all()
    g.emit("delete")
    return g.ops


ALPHABET = ["put 0x101 1", "put 0x101 2", "put 0x101 0x102", "put 0x100 0", "put 0x1A0 0x11", "get 0x101 0x3f7f 0",
            "get 0x101 1 0xff", "unref-old", "unref-new", "chsw", "purge", "iscached 0x101 2", "netref", "netunref"]


def case_enum(rng, seq, hold):
    g = Gen(rng, uniform=True)
    g.emit("addnet")
    for a in seq:
        w = a.split()
        if w[0] == "put":
            h = g.put(pgno=int(w[1], 0), subno=int(w[2], 0))
            if not hold: g.emit("unref %d" % h)
        elif w[0] == "get":
            g.emit("get %d %s %s %s" % (g.net(), w[1], w[2], w[3]))
        elif w[0] == "unref-old":
            hs = g.abs.held_pages()
            if hs: g.emit("unref %d" % hs[0])
        elif w[0] == "unref-new":
            hs = g.abs.held_pages()
            if hs: g.emit("unref %d" % hs[-1])
        elif w[0] in ("chsw", "netref", "netunref"):
            if g.abs.held_nets(): g.emit("%s %d" % (w[0], g.net()))
            else: g.emit("addnet")
        elif w[0] == "iscached":
            g.emit("iscached %d %s %s" % (g.net(), w[1], w[2]))
        else:
            g.emit(a)
    g.emit("dump")
    g.release_all()
    g.emit("delete")
    return g.ops


def case_malformed(rng, n):
    words = ["put", "get", "ref", "unref", "addnet", "netref", "netunref", "chsw", "purge", "delete", "dump", "sizes",
             "foreach", "iscached", "hisubno", "ptype", "statreset", "setlimit", "copy", "frob", "PUT", "pu", "0", "-1"]
    vals = ["0", "1", "2", "-1", "0x101", "0x100", "0x8ff", "0x900", "65536", "4294967296", "0xffffffff", "abc", "0x",
            "fwd", "rev", "1e3", "99999999999999999999", "7", "0x3f7f", "-0"]
    ops = ["addnet", "put 0 0x101 1 0 0 0 1"]
    for _ in range(n):
        k = rng.random()
        if k < 0.5:
            ops.append(" ".join([rng.choice(words)] + [rng.choice(vals) for _ in range(rng.randrange(0, 9))]))
        elif k < 0.7:
            ops.append("put %s 0x101 %s %s %s %s %s" % tuple(rng.choice(vals) for _ in range(6)))
        elif k < 0.85:
            ops.append("get 0 %s %s %s" % tuple(rng.choice(vals) for _ in range(3)))
        else:
            ops.append("%s %d" % (rng.choice(["unref", "ref", "netunref", "netref", "chsw", "copy"]), rng.randrange(0, 6)))
    ops.append("dump")
    return ops


class C10(verif.Spec):
    prop = "C10"
    comp = "cache"
    lean_modules = ["ZvbiModel.Props.C10", "ZvbiModel.Props.C10Ttx", "ZvbiModel.Props.C10Evict", "ZvbiModel.Props.C10Hi",
                    "ZvbiModel.Props.C10Stat", "ZvbiModel.Props.C10Sim"]
    harness = "cache_harness"
    harness_link_lib = True
    harness_extra = ["-DDLIST_CONSISTENCY=1"]
    timeout_per_case = 5.0
    partial_note = ("full, for both source shapes of _vbi_cache_put_page (as found / with fixes/C10-put-replaces-all-versions.diff; "
                    "the translator reads which one the source has): bookkeeping invariant incl. memory_used <= limit (all operations, "
                    "all histories, any memory limit, eviction paths), held_page_intact, eviction respects references, recycle only of "
                    "unreferenced networks, networks kept on page release / until the network limit is exceeded, look-up refinement, "
                    "channel switch, teardown, hi_subno_agrees under the exact no-wrap hypothesis (Tame) and, repaired shape, under a bound "
                    "on the page references clients hold (hi_subno_agrees_refbound); the unconditional statement is refuted "
                    "(hi_subno_agrees_full_counterexample: 65538-operation witness proved by closed-form induction, replayed on the "
                    "real code); max_subpages high-water mark, n_subpages <= max_subpages, size rule of cache_page_size for every "
                    "page function (Props/C10Stat.lean); store refinement "
                    "(refines_map_put, sim_put) is proved for the shape as found; counters-exact holds modulo 65536 for uint16_t "
                    "n_subpages and the page count per page number is unbounded on the shape as found (F17, proved witnesses); for the "
                    "repaired shape unique_key_repaired (the cache is a map) and version_bound_repaired (<= 256 cached versions per "
                    "page number) and the list form of the store refinement (aputR, MRU order) are proved; both shapes of the start look-up of _vbi_cache_foreach_page "
                    "(fixes/C17-turn-3f7f.diff) are modelled and proved; round 6 (Props/C10Sim.lean): cache_page_unref leaves the abstract map alone "
                    "(live network, page fits the limit), no eviction between calls, wildcard look-up returns the page the previous look-up "
                    "found (seed C10-f), Sim with the decoder model survives unref / page-type write / channel switch; "
                    "walk order/termination are C17's")
    assumptions = ["clients pass only pointers they hold a reference on (the harness / driver enforce it: `rej handle`)",
                   "0x100 <= pgno <= 0x8FF for put / hi_subno / foreach (asserted by cache_network_page_stat; callers guarantee it)",
                   "subpage numbers and designation sets fit 16 bits; unsigned int counters do not overflow (2^32 events)",
                   "malloc succeeds (the out-of-memory path of put is not modelled)",
                   "store refinement (refines_map_put) assumes memory is not short - true in libzvbi 0.2 while the cache holds "
                   "<= 0x800*80 pages (limit_unreachable_0_2); F17 shows the page count itself is not bounded"]
    open_statements = []   # hi_subno_agrees_full: settled in round 5 - REFUTED (Props/C10Hi.lean hi_subno_agrees_full_counterexample,
                           # both source shapes, replayed on the real code); what holds instead: hi_subno_agrees_refbound.
                           # refines_map_put_repaired_full: proved (Props/C10Evict.lean refines_map_put_repaired)
    trusted_base = ["lean/ZvbiModel/Cache/Model.lean: hand-written reading of src/cache.c (representation argued in NOTES/C10.md); "
                    "tied to the code by the correspondence run: every answer carries a digest of the complete cache state",
                    "translate/gen_cache.py (struct sizes, HASH_SIZE, death_row extent, limits; cross-checked by the `sizes` op)",
                    "harness/cache_harness.c audit walker (independent recomputation of every list and counter after each op) and "
                    "checks/C10.py `Abs` (abstract map oracle written from the property statement)",
                    "the hash table is modelled as one MRU sequence restricted per bucket (no behaviour of cache.c depends on the "
                    "bucket; the driver prints per bucket with HASH_SIZE from the translator)"]

    def model_lines(self, cases):
        p = subprocess.run([verif.model_exe(), "cache"], input=verif.flatten(cases).encode(), stdout=subprocess.PIPE,
                           timeout=600)
        return verif.split_cases(p.stdout.decode())

    def gen_cases(self, rng, tier):
        quick = tier == "quick"
        cases = [["sizes"]]
        kinds = {}
        def add(kind, c):
            kinds[id(c)] = kind
            cases.append(c)
        for _ in range(500 if quick else 3000):
            add("decoder", case_decoder(rng, rng.choice([10, 30, 80, 200])))
        for _ in range(700 if quick else 4000):
            add("client", case_client(rng, rng.choice([10, 30, 60, 150, 400 if not quick else 150])))
        for _ in range(200 if quick else 1000):
            add("dupkey", case_dupkey(rng, rng.choice([10, 40, 120])))
        # bounded-exhaustive histories over a small alphabet
        depth = 3 if quick else 4
        for seq in itertools.product(ALPHABET, repeat=depth):
            if rng.random() < (0.6 if quick else 0.65):
                continue
            add("enum", case_enum(rng, seq, hold=rng.random() < 0.5))
        for _ in range(300 if quick else 1500):
            seq = [rng.choice(ALPHABET) for _ in range(rng.randrange(5, 9))]
            add("enum", case_enum(rng, seq, hold=rng.random() < 0.5))
        # memory pressure (the limit is a constant in 0.2; the harness pokes the field): the cases are
        # cut where the model predicts undefined behaviour of the C code (see NOTES/C10.md, latent defects)
        press = [case_client(rng, rng.choice([20, 60, 150]), pressure=True) for _ in range(300 if quick else 1500)]
        try:
            outs = self.model_lines(press)
            self.cut = 0
            for i, c in enumerate(press):
                o = outs.get(i, [])
                for j, l in enumerate(o):
                    if l.startswith("err "):
                        press[i] = c[:j]
                        self.cut += 1
                        break
        except Exception as ex:   # without a model the pressure cases are not run
            verif.log("model pre-run failed: %r" % ex)
            press = []
        for c in press:
            add("pressure", c)
        for _ in range(60 if quick else 300):
            add("malformed", case_malformed(rng, 40))
        # the line-coverage run of lib/cov.py takes the first 4000 cases: a share of every kind goes to the front so that
        # the eviction paths (delete_surplus_pages, the death-row passes of put) are inside its budget in every tier
        front, rest, seen = [], [], {}
        for c in cases[1:]:
            k = kinds.get(id(c), "?")
            seen[k] = seen.get(k, 0) + 1
            (front if seen[k] <= 250 else rest).append(c)
        cases = cases[:1] + front + rest
        self._kinds = {"\n".join(c): kinds[id(c)] for c in cases if id(c) in kinds}
        self.extra_coverage = {"pressure_cases_cut_at_predicted_ub": getattr(self, "cut", 0)}
        return cases

    def classify(self, case):
        return getattr(self, "_kinds", {}).get("\n".join(case), case[0].split()[0] if case else "empty")

    def oracle(self, case, out):
        if len(out) != len(case):
            return "output count %d != ops %d" % (len(out), len(case))
        a = Abs()
        dup = None
        for i, (op, o) in enumerate(zip(case, out)):
            if o.endswith(" a=dup-key"):
                # two retrievable versions under one key (finding F17): everything else is still judged
                dup = dup or "audit: dup-key (op %d '%s')" % (i, op.split()[0])
            elif " a=" in o and not o.endswith(" a=ok"):
                return "audit: %s (op %d '%s')" % (o.rsplit(" a=", 1)[1], i, op.split()[0])
            if "corrupt" in o:
                return "corrupt page content (op %d '%s')" % (i, op.split()[0])
            w = a.feed(op, o)
            if w:
                return "map: op %d '%s': %s" % (i, op, w)
        return dup

    def signature(self, case, what):
        if what.startswith("audit:"):
            return "audit:" + what.split()[1]
        if what.startswith("map:"):
            m = what.split("'")
            return "map:" + (m[1].split()[0] if len(m) > 1 else "?")
        if what.startswith("crash") or what.startswith("hang"):
            return what.split("(")[0].strip() + ":" + ("assert" if "Assertion" in what else "san")
        return what.split(":")[0]

    def extra_checks(self, ctx):
        """generated layout constants == what the compiled code says"""
        res = []
        o, _ = verif.run_side(ctx["hcmd"], [["sizes"]])
        m, _ = verif.run_side(ctx["mcmd"], [["sizes"]])
        if o.get(0) != m.get(0) or not o.get(0):
            res.append(("layout constants differ: impl %s model %s" % (o.get(0), m.get(0)), ["sizes"]))
        return res


def _load_known():
    """known_findings.json plus this component's own file (the shared file is not mine to edit)"""
    k = _orig_load_known()
    p = os.path.join(verif.VERIF, "known_findings.C10.json")
    if os.path.exists(p):
        mine = json.load(open(p)).get("findings", [])
        have = {(f.get("property"), f.get("id")) for f in k.get("findings", [])}
        k.setdefault("findings", []).extend(f for f in mine if (f.get("property"), f.get("id")) not in have)
    return k


_orig_load_known = verif.load_known
verif.load_known = _load_known

if __name__ == "__main__":
    verif.run_check(C10())
