#!/usr/bin/env python3
"""C08 - Closed Caption display memory follows EIA-608 for every command sequence.

Correspondence: src/caption.c (harness/cc_harness.c, through vbi_decode / vbi_fetch_cc_page, plus the
decoder's internal scalars) vs the Lean model `Cc.step` (driver `cc`), op by op.
Property oracle, on the real code's output only:
  (a) at every visibility point of a well-formed caption script the fetched page equals the page the
      independent reference model `Eia608` (driver `cc608`) makes visible, cell for cell;
  (b) event_on_change: a fetched page that differs from the previously fetched one was announced by a
      VBI_EVENT_CAPTION for that page in between;
  (c) cursor invariants on every `st` line (1 <= col1 <= col <= 33, row <= 14, window inside the page,
      `line` = row * 34 cells into the hidden page);
  (d) pairs of one field never change the four channels of the other field;
  (e) a page fetched again with no pair / channel switch in between reports an empty dirty region (y0 > y1, roll 0):
      vbi_fetch_cc_page hands the pending changes over exactly once.
"""
import json, os, re, subprocess, sys
sys.path.insert(0, os.path.join(os.path.dirname(os.path.abspath(__file__)), "..", "lib"))
import verif


def chsw_fixed():
    """translator fact: is `ch->hidden = 0` executed before set_cursor() in vbi_caption_channel_switched?"""
    try:
        t = open(os.path.join(verif.LEAN, "ZvbiModel", "Generated", "CcConsts.lean")).read()
        return "chswHiddenResetFirst : Bool := true" in t
    except OSError:
        return False

# ------------------------------------------------------------------ sender (47 CFR 15.119 code tables)
def par(b):
    b &= 0x7F
    return b | (0x80 if bin(b).count("1") % 2 == 0 else 0)

PAC_ROW = {0: (1, 0), 1: (1, 1), 2: (2, 0), 3: (2, 1), 4: (5, 0), 5: (5, 1), 6: (6, 0), 7: (6, 1), 8: (7, 0),
           9: (7, 1), 10: (0, 0), 11: (3, 0), 12: (3, 1), 13: (4, 0), 14: (4, 1)}
MISC = {"RCL": 0x20, "BS": 0x21, "AOF": 0x22, "AON": 0x23, "DER": 0x24, "RU2": 0x25, "RU3": 0x26, "RU4": 0x27,
        "FON": 0x28, "RDC": 0x29, "TR": 0x2A, "RTD": 0x2B, "EDM": 0x2C, "CR": 0x2D, "ENM": 0x2E, "EOC": 0x2F}
# basic characters whose code is ASCII and not a space (word material)
WORDCH = [c for c in range(0x21, 0x80)]


class Tx:
    """builds the op lines of one service's script; `f` field (0/1), `k` channel bit"""
    def __init__(self, rng, f, k, dbl=None):
        self.rng, self.f, self.k = rng, f, k
        self.ops = []          # list of units; each unit = list of op lines (kept together when interleaving)
        self.cur = []
        self.dbl = dbl

    def raw(self, a, b):
        self.cur.append("cc %d %02x%02x" % (self.f, par(a), par(b)))

    def ctrl(self, c1low, c2):
        a = 0x10 | (self.k << 3) | c1low
        self.raw(a, c2)
        d = self.dbl if self.dbl is not None else (self.rng.random() < 0.85)
        if self.f == 0 and d:
            self.raw(a, c2)

    def misc(self, name):
        self.ctrl(4 if self.rng.random() < 0.8 else 5, MISC[name])

    def pac(self, row, indent=None, colour=0, underline=0):
        c1low, hi = PAC_ROW[row]
        if indent is not None:
            c2 = 0x40 | (hi << 5) | 0x10 | ((indent // 4) << 1) | underline
        else:
            c2 = 0x40 | (hi << 5) | (colour << 1) | underline
        self.ctrl(c1low, c2)

    def midrow(self, colour, underline=0):
        self.ctrl(1, 0x20 | (colour << 1) | underline)

    def special(self, n):
        self.ctrl(1, 0x30 | n)

    def tab(self, n):
        self.ctrl(7, 0x20 | n)

    def text(self, chars):
        """chars: list of 7-bit codes; packed two per pair, odd tail padded with NUL as second byte"""
        i = 0
        while i < len(chars):
            a = chars[i]
            b = chars[i + 1] if i + 1 < len(chars) else 0
            self.raw(a, b)
            i += 2

    def fetch(self, pgno=None):
        self.cur.append("fetch %d" % (pgno if pgno is not None else self.pgno()))

    def pgno(self, text=False):
        return (4 if text else 0) + self.f * 2 + self.k + 1

    def st(self, text=False):
        self.cur.append("st %d" % (self.pgno(text) - 1))

    def cut(self):
        if self.cur:
            self.ops.append(self.cur)
            self.cur = []


def words(rng, maxlen, end_space=True):
    """word material: printable non-space characters separated by single spaces; ends with a space"""
    out = []
    while len(out) < maxlen - 1:
        n = rng.randrange(1, 7)
        w = [rng.choice(WORDCH) if rng.random() < 0.3 else rng.randrange(0x41, 0x5B) for _ in range(n)]
        if len(out) + len(w) + 1 > maxlen:
            break
        out += w + [0x20]
    if not out:
        out = [0x41, 0x20]
    if not end_space:
        out = out[:-1]
    return out


def script_pop_on(rng, tx, ncap):
    """RCL ENM (PAC [tab] text)* [EDM] EOC, fetched after EOC"""
    for _ in range(ncap):
        tx.misc("RCL"); tx.misc("ENM")
        if rng.random() < 0.3:
            tx.fetch()                            # loading must not disturb the caption on display
        rows = rng.sample(range(15), rng.randrange(1, 5))
        for r in rows:
            colour = 0
            if rng.random() < 0.6:
                indent = rng.choice([0, 0, 4, 8, 12, 16, 20, 24, 28])
                tx.pac(r, indent=indent, underline=rng.randrange(2) if rng.random() < 0.2 else 0)
                col = 1 + indent
            else:
                colour = rng.randrange(8)
                tx.pac(r, colour=colour, underline=rng.randrange(2) if rng.random() < 0.2 else 0)
                col = 1
            if rng.random() < 0.3:
                n = rng.randrange(1, 4); tx.tab(n); col += n
            if rng.random() < 0.15:
                tx.misc("FON")                    # flash on (libzvbi and the reference: pen attribute, next mid-row code clears it)
            room = 33 - col
            if rng.random() < 0.15:
                room += rng.randrange(1, 6)       # run into the last column: cursor stays, cell overwritten
            t = words(rng, max(2, rng.randrange(2, max(3, room))), end_space=rng.random() < 0.3)
            tx.text(t)
            if rng.random() < 0.3 and col + len(t) < 28:
                # mid-row code (a space with the new attributes), italics only on white text
                c = rng.randrange(7) if (colour not in (0, 7) or rng.random() < 0.7) else 7
                tx.midrow(c, rng.randrange(2))
                tx.text(words(rng, rng.randrange(2, 5), end_space=False))
            if rng.random() < 0.25:
                # special characters, also in the middle of a row (refines_Eia608_scripts_popon_special)
                for _ in range(rng.randrange(1, 3)):
                    tx.special(rng.choice([0, 1, 2, 3, 4, 5, 6, 7, 8, 10, 11, 12, 13, 14, 15]))
                if rng.random() < 0.5:
                    tx.text(words(rng, rng.randrange(1, 4), end_space=False))
            if rng.random() < 0.15:
                tx.fetch()
        if rng.random() < 0.3:
            tx.misc("EDM")
            if rng.random() < 0.5:
                tx.fetch()
        tx.misc("EOC")
        tx.fetch()
        if rng.random() < 0.3:
            tx.st()
        tx.cut()


def script_roll_up(rng, tx, nlines, force_pac=False):
    """RUn [PAC] (text CR)*, fetched after completed words and after CR"""
    n = rng.randrange(2, 5)
    tx.misc("RU%d" % n)
    base = 14
    if force_pac or rng.random() < 0.6:
        base = rng.choice([0, 1, 2, 3, 13, 14, rng.randrange(15)])
        tx.pac(base, indent=rng.choice([0, 0, 0, 4, 8]))
    tx.fetch()
    tx.cut()
    for _ in range(nlines):
        tx.misc("RU%d" % n)                 # resume (needed after another service used the field)
        if rng.random() < 0.5:
            tx.pac(base, indent=rng.choice([0, 0, 4]))
        t = words(rng, rng.randrange(3, 30))
        if rng.random() < 0.25 and len(t) < 28:
            # special characters at the head of the line (refines_Eia608_scripts_rollup_special)
            for _ in range(rng.randrange(1, 3)):
                tx.special(rng.choice([0, 1, 2, 3, 4, 5, 6, 7, 8, 10, 11, 12, 13, 14, 15]))
        tx.text(t)
        if len(t) % 2 == 0 and rng.random() < 0.6:
            tx.fetch()
        if rng.random() < 0.25 and len(t) < 26:
            # a correction: extra characters, backspaces over them, delete to end of row (visible after DER)
            m = rng.randrange(1, 4)
            tx.text([rng.randrange(0x41, 0x5B) for _ in range(2 * m)])
            for _ in range(rng.randrange(1, 2 * m + 1)):
                tx.dbl = True; tx.misc("BS"); tx.dbl = None
            tx.misc("DER")
            tx.fetch()
        tx.misc("CR")
        tx.fetch()
        if rng.random() < 0.2:
            tx.st()
        tx.cut()
    if rng.random() < 0.3:
        # resume first: after a text unit of the same data channel EDM would be "EDM in text mode" (class text-edm)
        tx.misc("RU%d" % n); tx.misc("EDM"); tx.fetch(); tx.cut()


def script_roll_depth(rng, tx):
    """roll-up scripts that change the depth RU2 <-> RU3 <-> RU4 in every order WITHOUT leaving roll-up mode, with PACs to every
    row - also rows 1..3, where the window does not fit above the base row and the PAC handler moves it down - before and after
    the change, then carriage returns.  libzvbi erases and returns to row 15 on a new depth (15.119 (f)(1)(iii) keeps the base
    row: a deviation kept out of the reference comparison, class `ru-depth`); what is judged here: no crash, the cursor / window
    invariants on every `st`, event_on_change."""
    top = [0, 0, 1, 1, 2, 2, 3]
    n = rng.randrange(2, 5)
    tx.misc("RU%d" % n); tx.st()
    for _ in range(rng.randrange(2, 7)):
        if rng.random() < 0.8:
            tx.pac(rng.choice(top) if rng.random() < 0.6 else rng.randrange(15), indent=rng.choice([0, 0, 4, 28]))
            tx.st()
        if rng.random() < 0.6:
            tx.text(words(rng, rng.randrange(3, 12)))
        if rng.random() < 0.4:
            for _ in range(rng.randrange(1, 3)):
                tx.dbl = True; tx.misc("CR"); tx.dbl = None
            tx.st()
        # another depth, still in roll-up mode: larger and smaller, every order
        n = rng.choice([d for d in (2, 3, 4) if d != n])
        tx.misc("RU%d" % n); tx.st()
        if rng.random() < 0.4:
            tx.pac(rng.choice(top) if rng.random() < 0.6 else rng.randrange(15), indent=rng.choice([0, 0, 4]))
            tx.st()
        if rng.random() < 0.5:
            tx.text(words(rng, rng.randrange(3, 10)))
        for _ in range(rng.randrange(1, 4)):
            tx.dbl = True; tx.misc("CR"); tx.dbl = None
        tx.st()
        if rng.random() < 0.5:
            tx.fetch()
    tx.cut()


def script_paint_on(rng, tx, nrows):
    tx.misc("RDC"); tx.misc("EDM"); tx.fetch(); tx.cut()
    for r in rng.sample(range(15), nrows):
        tx.misc("RDC")
        tx.pac(r, indent=rng.choice([0, 4, 8, 16]))
        t = words(rng, rng.randrange(3, 16))
        if len(t) % 2:
            t = t[:-1] + [0x41, 0x20]
        if rng.random() < 0.3:
            for _ in range(rng.randrange(1, 3)):
                tx.special(rng.choice([0, 1, 2, 3, 4, 5, 6, 7, 8, 10, 11, 12, 13, 14, 15]))
        tx.text(t)
        tx.fetch()
        tx.cut()


def script_text(rng, tx, nlines):
    tx.misc("TR"); tx.cut()
    for _ in range(nlines):
        tx.misc("RTD")
        t = words(rng, rng.randrange(3, 33))
        tx.text(t)
        if len(t) % 2 == 0 and rng.random() < 0.5:
            tx.fetch(tx.pgno(True))
        tx.misc("CR")
        tx.fetch(tx.pgno(True))
        tx.cut()


SPECIALS = [0, 1, 2, 3, 4, 5, 6, 7, 8, 10, 11, 12, 13, 14, 15]


def fill_row(rng, tx, col):
    """characters from column `col` up to and including column 32 (the cursor is then parked behind the last column), now and
    then a few more (each replaces the character in column 32); mostly letters, a space here and there, never at the end"""
    n = 33 - col
    if rng.random() < 0.3:
        n += rng.randrange(1, 4)
    t = [0x20 if rng.random() < 0.12 else (rng.choice(WORDCH) if rng.random() < 0.3 else rng.randrange(0x41, 0x5B)) for _ in range(n)]
    t[-1] = rng.randrange(0x30, 0x3A)          # a digit in column 32: easy to spot in a replay
    if t[0] == 0x20:
        t[0] = 0x41
    tx.text(t)


def full_row_edge(rng, tx, istext):
    """with the cursor parked at the last column of a FULL row: Transparent Space, Tab Offset, Backspace, special characters,
    mid-row codes, more characters (15.119: printing characters replace column 32, the Transparent Space erases it, BS erases
    it and moves to column 32, a Tab Offset does nothing)"""
    kinds = ["ts", "ts", "ts", "tab", "bs", "spec", "chars", "tsx"]
    if not istext:
        kinds.append("midrow")
    for _ in range(rng.randrange(1, 4)):
        k = rng.choice(kinds)
        if k == "ts":
            tx.special(9)
        elif k == "tsx":
            # Transparent Space, then column 32 is written again (the cursor must still be parked)
            tx.special(9)
            if rng.random() < 0.5:
                tx.text([rng.randrange(0x41, 0x5B)])
            else:
                tx.special(rng.choice(SPECIALS))
        elif k == "tab":
            tx.tab(rng.randrange(1, 4))
        elif k == "bs":
            n = rng.randrange(1, 4)
            for _ in range(n):
                tx.dbl = True; tx.misc("BS"); tx.dbl = None
            r = rng.random()
            if r < 0.4:
                # the erased cells are typed again, up to column 32 or one short of it
                tx.text([rng.randrange(0x41, 0x5B) for _ in range(rng.randrange(max(1, n - 1), n + 1))])
            elif r < 0.6:
                tx.special(9)
            elif r < 0.7:
                tx.tab(rng.randrange(1, 4))
            elif r < 0.85:
                # Tab Offset back to (or against) the right margin, then one more Backspace: shows where the tab left the cursor
                tx.tab(rng.randrange(1, 4))
                tx.dbl = True; tx.misc("BS"); tx.dbl = None
        elif k == "spec":
            tx.special(rng.choice(SPECIALS))
        elif k == "chars":
            tx.text([rng.randrange(0x41, 0x5B) for _ in range(rng.randrange(1, 3))])
        elif k == "midrow":
            tx.midrow(rng.randrange(7), rng.randrange(2))


def script_full_row(rng, tx, mode):
    """rows filled to column 32 followed by Transparent Space / Tab Offset / BS / special characters / mid-row codes, in all
    four modes (seed C08-g: the Transparent Space with the cursor parked at the last column must erase column 32); the row is
    made visible by EOC (pop-on), DER / PAC to another row / two idle NUL pairs (paint-on), CR / DER (roll-up, text)"""
    def start(row=None):
        col = 1
        if row is not None:
            if rng.random() < 0.5:
                i = rng.choice([0, 0, 4, 8, 16, 24, 28])
                tx.pac(row, indent=i, underline=rng.randrange(2) if rng.random() < 0.2 else 0)
                col = 1 + i
            else:
                tx.pac(row, colour=rng.randrange(7), underline=rng.randrange(2) if rng.random() < 0.2 else 0)
        if rng.random() < 0.2:
            n = rng.randrange(1, 4); tx.tab(n); col += n
        return col
    if mode == "pop":
        for _ in range(rng.randrange(1, 3)):
            tx.misc("RCL"); tx.misc("ENM")
            for r in rng.sample(range(15), rng.randrange(1, 4)):
                fill_row(rng, tx, start(r))
                full_row_edge(rng, tx, False)
            tx.misc("EOC"); tx.fetch()
            if rng.random() < 0.3:
                tx.fetch()
            tx.cut()
    elif mode == "paint":
        tx.misc("RDC"); tx.misc("EDM"); tx.fetch(); tx.cut()
        rows = rng.sample(range(15), rng.randrange(2, 5))
        for j, r in enumerate(rows[:-1]):
            tx.misc("RDC")
            fill_row(rng, tx, start(r))
            full_row_edge(rng, tx, False)
            v = rng.choice(["der", "pac", "nul"] if tx.f == 0 else ["der", "pac"])
            if v == "der":
                tx.misc("DER")
            elif v == "pac":
                tx.pac(rows[j + 1], indent=0)
            else:
                tx.cur.append("cc 0 8080"); tx.cur.append("cc 0 8080")
            tx.fetch(); tx.cut()
    elif mode == "roll":
        n = rng.randrange(2, 5)
        tx.misc("RU%d" % n)
        base = 14
        if rng.random() < 0.5:
            base = rng.choice([3, 7, 13, 14, rng.randrange(3, 15)])
            tx.pac(base, indent=0)
        tx.fetch(); tx.cut()
        for _ in range(rng.randrange(1, 5)):
            tx.misc("RU%d" % n)
            fill_row(rng, tx, start(base if rng.random() < 0.4 else None))
            full_row_edge(rng, tx, False)
            if rng.random() < 0.3:
                tx.misc("DER"); tx.fetch()
            tx.misc("CR"); tx.fetch(); tx.cut()
    else:
        page = tx.pgno(True)
        tx.misc("TR"); tx.cut()
        for _ in range(rng.randrange(1, 18)):
            tx.misc("RTD")
            fill_row(rng, tx, start(None))
            full_row_edge(rng, tx, True)
            if rng.random() < 0.3:
                tx.misc("DER"); tx.fetch(page)
            tx.misc("CR"); tx.fetch(page); tx.cut()


class RowView:
    """the sender's own view of the rows it has written (which columns hold a character), so that
    destructive-vs-non-destructive cursor moves (PAC indent, tab offset) are only sent over empty cells"""
    def __init__(self):
        self.occ = {}
        self.row, self.col = 14, 1

    def cells(self, r=None):
        return self.occ.setdefault(self.row if r is None else r, set())

    def typed(self, n):
        for _ in range(n):
            c = min(self.col, 32)
            self.cells().add(c)
            if self.col <= 32:
                self.col += 1

    def free(self, a, b, r=None):
        return not any(c in self.cells(r) for c in range(a, b))


def edit_ops(rng, tx, rv, istext, allow_edm, synced=False):
    """one correction in the middle of a row; returns True when the result is visible at once (fetch allowed)"""
    kinds = ["bs", "bsder", "der", "tab", "enm", "nul"]
    if allow_edm:
        kinds += ["edm", "edm", "edm"]
    if not istext:
        kinds += ["midrow"]
    k = rng.choice(kinds)
    if k in ("bs", "bsder"):
        n = rng.randrange(1, 5)
        for _ in range(n):
            tx.dbl = True; tx.misc("BS"); tx.dbl = None
            if rv.col > 1:
                rv.col -= 1
                rv.cells().discard(rv.col)
        if k == "bs":
            return False                       # visible with the next completed word
    if k in ("der", "bsder"):
        tx.misc("DER")
        rv.occ[rv.row] = {c for c in rv.cells() if c < rv.col}
        return True
    if k == "tab":
        n = rng.randrange(1, 4)
        if rv.col + n <= 32 and rv.free(rv.col, rv.col + n):
            tx.tab(n)
            rv.col += n
        return False
    if k == "enm":
        tx.misc("ENM")
        return False
    if k == "edm":
        tx.misc("EDM")
        if not istext:
            rv.occ = {}
            return True
        # inside a text transmission EDM belongs to the caption service (EIA-608-B 7.7): the text row is unchanged and
        # on display only if the text before ended at a visibility point
        return synced
    if k == "nul":
        # two NUL pairs: libzvbi's idle word break (field 1 only; on field 2 a NUL pair never reaches the decoder)
        if tx.f == 0:
            tx.cur.append("cc 0 8080"); tx.cur.append("cc 0 8080")
            return True
        return False
    if k == "midrow":
        if rv.col <= 30:
            tx.midrow(rng.randrange(7), rng.randrange(2))
            rv.typed(1)
            return True
        return False
    return False


def edited_row(rng, tx, rv, istext, allow_edm, page):
    """text, then corrections and more text on the SAME row, a fetch at every visibility point"""
    for seg in range(rng.randrange(1, 5)):
        room = 32 - rv.col
        if room < 3:
            break
        es = rng.random() < 0.8
        t = words(rng, rng.randrange(3, max(4, min(room, 14))), end_space=es)
        if len(t) > room:
            t = t[:room]
            es = False
        tx.text(t)
        rv.typed(len(t))
        vis = bool(es and t and t[-1] == 0x20)
        if vis:
            tx.fetch(page)
        if rng.random() < 0.85:
            if edit_ops(rng, tx, rv, istext, allow_edm, vis):
                tx.fetch(page)


def script_paint_edit(rng, tx, nrows):
    """paint-on with corrections inside rows: RDC EDM (RDC PAC text (BS* | DER | TO | EDM | ENM | mid-row | NUL NUL | text)*)*;
    a PAC may come back to a row that holds text (indent only over empty cells)"""
    page = tx.pgno()
    rv = RowView()
    tx.misc("RDC"); tx.misc("EDM"); tx.fetch(); tx.cut()
    pool = rng.sample(range(15), max(1, min(15, nrows)))
    for _ in range(nrows + rng.randrange(0, 3)):
        r = rng.choice(pool)
        tx.misc("RDC")
        if rng.random() < 0.75:
            # indent form; libzvbi overwrites the indent with transparent spaces: only over empty cells
            i = rng.choice([i for i in (0, 4, 8, 12, 16, 20) if rv.free(1, 1 + i, r)])
            tx.pac(r, indent=i)
            rv.row, rv.col = r, 1 + i
        else:
            tx.pac(r, colour=rng.randrange(7))
            rv.row, rv.col = r, 1
        edited_row(rng, tx, rv, False, True, page)
        tx.cut()


def script_text_edit(rng, tx, nlines, allow_edm):
    """text mode with corrections inside rows: TR (RTD text (BS* | DER | TO | ENM | NUL NUL | text)* CR)*;
    with `allow_edm` also EDM, which EIA-608 applies to the CAPTION memory of the data channel"""
    page = tx.pgno(True)
    rv = RowView()
    rv.row = 0
    tx.misc("TR"); tx.cut()
    for _ in range(nlines):
        tx.misc("RTD")
        edited_row(rng, tx, rv, True, allow_edm, page)
        if allow_edm:
            tx.fetch(tx.pgno())
        tx.misc("CR")
        if rv.row < 14:
            rv.row += 1
        else:
            rv.occ = {r - 1: c for r, c in rv.occ.items() if r >= 1}
        rv.occ[rv.row] = set()
        rv.col = 1
        tx.fetch(page)
        tx.cut()


def premode_data(rng, f, n):
    """printable data (and NUL pairs, now and then a PAC / BS / CR, which need a mode too) of field `f` that is NOT preceded by
    any mode-setting command of that field: the standard has no service to put it into, it is discarded.  Every few pairs the
    four pages of the field are fetched (they must stay blank) """
    out = []
    pages = ["fetch %d" % (g + 1) for g in (2 * f, 2 * f + 1, 2 * f + 4, 2 * f + 5)]
    for _ in range(n):
        r = rng.random()
        if r < 0.7:
            t = words(rng, rng.randrange(2, 9))
            if len(t) % 2:
                t.append(0)
            out += ["cc %d %02x%02x" % (f, par(t[i]), par(t[i + 1])) for i in range(0, len(t), 2)]
        elif r < 0.8:
            if f == 0:
                out += ["cc 0 8080"] * rng.randrange(1, 4)
        elif r < 0.9:
            c1low, hi = PAC_ROW[rng.randrange(15)]
            l = "cc %d %02x%02x" % (f, par(0x10 | (rng.randrange(2) << 3) | c1low), par(0x40 | (hi << 5) | rng.randrange(32)))
            out += [l, l] if f == 0 else [l]
        else:
            l = "cc %d %02x%02x" % (f, par(0x14 | (rng.randrange(2) << 3)), par(MISC[rng.choice(["BS", "CR", "DER"])]))
            out += [l, l] if f == 0 else [l]
        if rng.random() < 0.4:
            out += rng.sample(pages, rng.randrange(1, 5))
    return out + pages


def interleave(rng, streams):
    """streams: list of lists of units; units of one stream stay in order"""
    idx = [0] * len(streams)
    out = []
    while True:
        live = [i for i in range(len(streams)) if idx[i] < len(streams[i])]
        if not live:
            return out
        i = rng.choice(live)
        out.append(streams[i][idx[i]])
        idx[i] += 1


def xds_packet(rng):
    """an XDS packet for field 2: start / continue pair (class 0x01..0x0E, type), data pairs, and - two times in three - the end
    pair 0x0F + checksum; otherwise the packet is left open, to be interrupted by the caption control code that follows"""
    lines = ["cc 1 %02x%02x" % (par(rng.randrange(1, 0x0F)), par(rng.randrange(1, 0x70)))]
    for _ in range(rng.randrange(0, 7)):
        lines.append("cc 1 %02x%02x" % (par(rng.randrange(0x20, 0x80)), par(rng.randrange(0x20, 0x80))))
    if rng.random() < 0.66:
        lines.append("cc 1 %02x%02x" % (par(0x0F), par(rng.randrange(0x80))))
    return lines


def xds_lines(case):
    """indices of the op lines that belong to XDS by the standard's interleaving rule (EIA-608-B 9.x): on field 2 a pair with
    first byte 0x01..0x0E opens / continues a packet, 0x0F closes it, a caption control code 0x10..0x1F suspends it; all other
    pairs belong to XDS while a packet is open"""
    out, xds = set(), False
    for i, l in enumerate(case):
        t = l.split()
        if len(t) != 3 or t[0] != "cc" or t[1] != "1" or len(t[2]) != 4:
            continue
        c1 = int(t[2][:2], 16) & 0x7F
        if 1 <= c1 <= 0x0E:
            xds = True; out.add(i)
        elif c1 == 0x0F:
            xds = False; out.add(i)
        elif 0x10 <= c1 <= 0x1F:
            xds = False
        elif xds:
            out.add(i)
    return out


def merge_fields(rng, a, b):
    """two lists of op lines (one per field) interleaved line by line, each keeping its order"""
    out, i, j = [], 0, 0
    while i < len(a) or j < len(b):
        if j >= len(b) or (i < len(a) and rng.random() < 0.5):
            out.append(a[i]); i += 1
        else:
            out.append(b[j]); j += 1
    return out


def starts_with_control(unit):
    t = unit[0].split() if unit else []
    return len(t) == 3 and t[0] == "cc" and len(t[2]) == 4 and 0x10 <= (int(t[2][:2], 16) & 0x7F) <= 0x1F


def field_script(rng, f, services, force_pac=False, xds=False):
    """services: list of (k, kind) for one field -> flat op lines; `xds` (field 2): XDS packets between the units"""
    streams = []
    for k, kind in services:
        tx = Tx(rng, f, k)
        if kind == "pop":
            script_pop_on(rng, tx, rng.randrange(1, 4))
        elif kind == "roll":
            script_roll_up(rng, tx, rng.randrange(1, 8), force_pac)
        elif kind == "paint":
            script_paint_on(rng, tx, rng.randrange(1, 4))
        elif kind == "paintx":
            script_paint_edit(rng, tx, rng.randrange(1, 5))
        elif kind == "textx":
            script_text_edit(rng, tx, rng.randrange(1, 18), False)
        elif kind == "textedm":
            script_text_edit(rng, tx, rng.randrange(1, 6), True)
        elif kind.startswith("full-"):
            script_full_row(rng, tx, kind[5:])
        else:
            script_text(rng, tx, rng.randrange(1, 20))
        tx.cut()
        streams.append(tx.ops)
    units = interleave(rng, streams)
    if xds:
        # every unit starts with a caption control code (mode / resume command), which suspends an open packet
        units = [x for u in units for x in (([xds_packet(rng)] if starts_with_control(u) and rng.random() < 0.6 else []) + [u])]
    return [l for u in units for l in u]


END_DUMP = ["st %d" % i for i in range(9)] + ["glob"]

# ---- the character repertoire of 47 CFR 15.119 (g) and EIA-608-B 6.4.2, typed as characters
STD_BASIC_SUBST = {0x2A: "á", 0x5C: "é", 0x5E: "í", 0x5F: "ó", 0x60: "ú", 0x7B: "ç", 0x7C: "÷", 0x7D: "Ñ", 0x7E: "ñ", 0x7F: "■"}
STD_SPECIAL = "®°½¿™¢£♪à èâêîôû"
STD_EXT2 = "ÁÉÓÚÜü‘¡*'—©℠•“”ÀÂÇÈÊËëÎÏïÔÙùÛ«»"
STD_EXT3 = "ÃãÍÌìÒòÕõ{}\\^_|~ÄäÖöß¥¤│ÅåØø┌┐└┘"
assert len(STD_SPECIAL) == 16 and len(STD_EXT2) == 32 and len(STD_EXT3) == 32
# accepted deviation (NOTES round 5): "em dash" 0x12 0x2A is returned as U+2500 so that it joins the corner pieces
STD_ACCEPTED = {0x122A: "\u2500"}


def std_caption_char(c, up):
    """what vbi_caption_unicode(c, up) has to return by the standard's chart (0 = not a character)"""
    if c < 0x80:
        ch = STD_BASIC_SUBST.get(c, chr(c)) if c >= 0x20 else None
    else:
        c &= 0xFFFFFFFF & ~0x0800           # the data-channel bit of the first byte does not select a character
        hi, lo = c >> 8, c & 0xFF
        if hi == 0x11 and 0x30 <= lo <= 0x3F:
            ch = STD_SPECIAL[lo - 0x30]
        elif hi == 0x12 and 0x20 <= lo <= 0x3F:
            ch = STD_ACCEPTED.get(c, STD_EXT2[lo - 0x20])
        elif hi == 0x13 and 0x20 <= lo <= 0x3F:
            ch = STD_EXT3[lo - 0x20]
        else:
            ch = None
    if ch is None:
        return 0
    if up and len(ch.upper()) == 1:         # Python's Unicode data base; sharp s has no single upper-case character
        ch = ch.upper()
    return ord(ch)


def field_of_line(l):
    """which field's stream an op line belongs to: 0 / 1, 2 = both (channel switch), None = neither / unknown"""
    t = l.split()
    try:
        if t[0] == "cc" and len(t) == 3 and t[1] in ("0", "1"):
            return int(t[1])
        if t[0] == "fetch" and len(t) == 2 and 1 <= int(t[1]) <= 8:
            return ((int(t[1]) - 1) >> 1) & 1
        if t[0] in ("st",) and len(t) == 2 and 0 <= int(t[1]) <= 7:
            return (int(t[1]) >> 1) & 1
        if t[0] in ("raw", "tail") and len(t) == 3 and 0 <= int(t[1]) <= 7 and t[2] in ("0", "1"):
            return (int(t[1]) >> 1) & 1
        if l == "chsw":
            return 2
    except ValueError:
        pass
    return None
NOREF = ("margin", "ru-depth", "caption-unicode")      # classes judged without the reference display (invariants, events, crashes only)


class C08(verif.Spec):
    prop = "C08"
    comp = "cc"
    lean_modules = ["ZvbiModel.Props.C08", "ZvbiModel.Props.C08Paint", "ZvbiModel.Props.C08Fields", "ZvbiModel.Props.C08Lang",
                    "ZvbiModel.Props.C08Special", "ZvbiModel.Props.C08Edge", "ZvbiModel.Props.C08Parity",
                    "ZvbiModel.Props.C08Fetch"]
    harness = "cc_harness"
    harness_link_lib = True
    timeout_per_case = 5.0
    partial_note = ("refinement to Eia608 is proved for well-formed pop-on streams, roll-up and paint-on scripts (refines_Eia608_scripts_*: "
                    "byte pairs on field 1 / CC1, fetched page = reference page at every visibility point, by induction over the script "
                    "grammar; for every caption channel at channel level) and checked differentially on the real code for those scripts plus "
                    "mid-row codes, tabs, BS/DER, text mode, all four channels and both fields; corrections inside a row (BS, DER, TO, EDM) in paint-on / "
                    "roll-up / text mode are proved (refines_Eia608_edits_partial; with Transparent Space at every cursor position incl. the parked "
                    "cursor and mid-row codes: refines_Eia608_edits_ts_partial) and checked up to solid spaces, which 15.119 (d)(1) leaves to the "
                    "decoder; the byte-level rules of vbi_decode_caption (parity errors, NUL bytes, 0x01..0x0F) are proved on the model for all states (C08Parity); the unrestricted refinement statement is false "
                    "(F46, proved counterexample), the unrestricted event statement is false without the two F45 repairs and proved with them; "
                    "special characters inside pop-on / roll-up / paint-on scripts are proved at channel level (refines_Eia608_scripts_*_special), not at "
                    "byte level; the two fields are separated at trace level for the per-field curr_chan (fields_independent_trace / _full / _fetch); "
                    "vbi_caption_unicode is proved against the standard's chart with one accepted deviation (em dash 0x12 0x2A as U+2500); "
                    "xds_separator / itv_separator themselves are not modelled (only the cc->xds gate)")
    assumptions = ["nul_ct and the event counter do not overflow (2^31 null pairs)",
                   "vbi_decode is called with monotone frame times (no time-gap initiated channel switch)"]
    open_statements = ["Zvbi.Props.C08.refines_Eia608_full (false: refines_Eia608_counterexample, F46; true instances: refines_Eia608_scripts_*)",
                       "Zvbi.Props.C08.event_on_change_full (false on a tree without the F45 repairs: event_on_change_counterexample; "
                       "proved with them: event_on_change_repaired)"]
    trusted_base = ["translate/gen_cclang.py (the four character tables with both columns, every comparison / mask / index offset of vbi_caption_unicode; "
                    "cross-checked by the `cu` sweep of the correspondence run)",
                    "Cc/SpecChars.lean + STD_* of checks/C08.py: two transcriptions of the character chart of 15.119 (g) / EIA-608-B 6.4.2",
                    "translate/gen_cc.py (constants, tables, eight source facts: chsw statement order, PAC window clamp, RUx clear(), CR update guard, "
                    "mid-row italics colour, curr_chan per field, EDM/ENM re-addressed to the caption channel, curr_chan reset on channel switch; constants cross-checked by `layout`/`st`/`glob`, the facts by the correspondence run)",
                    "harness/cc_harness.c + lean/Driver/Cc.lean (correspondence incl. internal scalars of all nine channels)",
                    "Cc/Spec.lean Eia608: my transcription of 47 CFR 15.119; solid-space rule as libzvbi lays it out"]

    # ---------------------------------------------------------------- generation
    def gen_cases(self, rng, tier):
        N = 1 if tier == "quick" else 8
        cases, self._wf = [], {}
        fixed = chsw_fixed()

        def add(c, wf=None):
            cases.append(c)
            if wf:
                self._wf["\n".join(c)] = wf
        add(["layout"] + END_DUMP + ["fetch %d" % i for i in (-1, 0, 1, 8, 9)] + ["tail 4 0", "raw 8 1"])
        # 0. vbi_caption_unicode: every code two 7/8-bit bytes can form, both columns, plus 32-bit arguments
        for base in range(0, 0x2000, 0x400):
            add(["cu %08x %d" % (c, u) for c in range(base, base + 0x400) for u in (0, 1)], "caption-unicode")
        edge = [0x2000, 0x1fff, 0x1b40, 0x1b3f, 0x1340, 0x1a40, 0x9130, 0x11130, 0xffff, 0x10020, 0x10041, 0x80000041, 0x7fffffff,
                0x80000000, 0xffffffff, 0xfffff7ff, 0xffff1130, 0x80001930, 0x1130 << 8, 0x0920, 0x0820, 0x087f, 0x0100]
        edge += [rng.getrandbits(32) for _ in range(300)] + [rng.getrandbits(14) | (rng.getrandbits(1) << 31) for _ in range(100)]
        add(["cu %08x %d" % (c, rng.randrange(2)) for c in edge] +
            ["cu", "cu 41 0", "cu 00000041", "cu 00000041 2", "cu 0000004g 0", "cu 0000000041 1", "cu 00000041 -1", "cu - 0"],
            "caption-unicode")
        kinds = ["pop", "roll", "paint", "text"]
        # 1. one service
        for _ in range(260 * N):
            f, k, kind = rng.randrange(2), rng.randrange(2), rng.choice(kinds)
            add(field_script(rng, f, [(k, kind)]) + END_DUMP, "wf-single-" + kind)
        # 2. several services of one field
        for _ in range(120 * N):
            f = rng.randrange(2)
            sv = rng.sample([(0, "cap"), (1, "cap"), (0, "text"), (1, "text")], rng.randrange(2, 5))
            sv = [(k, rng.choice(kinds[:3]) if c == "cap" else "text") for k, c in sv]
            add(field_script(rng, f, sv) + END_DUMP, "wf-field")
        # 3. both fields, same channel bit and same class on both (libzvbi routes by one shared selector)
        for _ in range(100 * N):
            k = rng.randrange(2)
            kind = rng.choice(kinds)
            kind2 = "text" if kind == "text" else rng.choice(kinds[:3])
            a = field_script(rng, 0, [(k, kind)])
            b = field_script(rng, 1, [(k, kind2)])
            add(merge_fields(rng, a, b) + END_DUMP, "wf-2field")
        # 3b. corrections in the middle of rows in paint-on and text mode (EDM / ENM / DER / BS / TO / mid-row / idle
        #     word break, then more text on the same row).  The solid spaces are left unconstrained here (`note lenient`).
        LEN = ["note lenient"]
        for _ in range(110 * N):
            f, k = rng.randrange(2), rng.randrange(2)
            add(LEN + field_script(rng, f, [(k, "paintx")]) + END_DUMP, "wf-edit-paint")
        for _ in range(50 * N):
            f, k = rng.randrange(2), rng.randrange(2)
            add(LEN + field_script(rng, f, [(k, "textx")]) + END_DUMP, "wf-edit-text")
        for _ in range(40 * N):
            f = rng.randrange(2)
            sv = rng.sample([(0, "cap"), (1, "cap"), (0, "text"), (1, "text")], rng.randrange(2, 5))
            sv = [(k, rng.choice(["paintx", "paintx", "pop", "roll"]) if c == "cap" else "textx") for k, c in sv]
            add(LEN + field_script(rng, f, sv) + END_DUMP, "wf-edit-field")
        for _ in range(30 * N):
            k = rng.randrange(2)
            if rng.random() < 0.7:
                a = field_script(rng, 0, [(k, "paintx")]); b = field_script(rng, 1, [(k, rng.choice(["paintx", "pop", "roll"]))])
            else:
                a = field_script(rng, 0, [(k, "textx")]); b = field_script(rng, 1, [(k, "textx")])
            add(LEN + merge_fields(rng, a, b) + END_DUMP, "wf-edit-2field")
        # 3c. EDM inside a text-mode transmission: EIA-608 applies it to the caption memory of the data channel
        for _ in range(16 * N):
            f, k = rng.randrange(2), rng.randrange(2)
            # half of them with a pop-on caption of the same data channel on display: EDM must erase THAT
            sv = [(k, "textedm")] if rng.random() < 0.5 else [(k, "pop"), (k, "textedm")]
            add(LEN + field_script(rng, f, sv) + END_DUMP, "text-edm")
        # 3d. XDS packets on field 2 between the units of caption / text services of field 2 (closed by 0x0F or left open and
        #     suspended by the next caption control code): the captions must be those of the script without the packets
        for _ in range(50 * N):
            sv = rng.sample([(0, "cap"), (1, "cap"), (0, "text"), (1, "text")], rng.randrange(1, 3))
            sv = [(k, rng.choice(kinds[:3]) if c == "cap" else "text") for k, c in sv]
            b = field_script(rng, 1, sv, xds=True)
            if rng.random() < 0.4:
                b = merge_fields(rng, field_script(rng, 0, [(sv[0][0], sv[0][1])]), b)
            add(b + END_DUMP, "xds-gate")
        # 3e. rows filled to column 32, then Transparent Space / Tab Offset / BS / special characters / mid-row codes with the
        #     cursor parked at the last column, in pop-on, paint-on, roll-up and text mode (seed C08-g)
        for n in range(80 * N):
            f, k = rng.randrange(2), rng.randrange(2)
            add(LEN + field_script(rng, f, [(k, "full-" + ["pop", "paint", "roll", "text"][n % 4])]) + END_DUMP, "wf-fullrow")
        # 4. both fields, different channel bit or class: finding F18 expected
        for _ in range(20 * N):
            k = rng.randrange(2)
            if rng.random() < 0.5:
                a = field_script(rng, 0, [(k, "pop")]); b = field_script(rng, 1, [(1 - k, "pop")])
            else:
                a = field_script(rng, 0, [(k, "pop")]); b = field_script(rng, 1, [(k, "text")])
            add(merge_fields(rng, a, b) + END_DUMP, "xfield")
        # 5. channel switch inside structured captioning (only where the line pointer stays valid, F17)
        for _ in range(30 * N):
            f, k = rng.randrange(2), rng.randrange(2)
            tx = Tx(rng, f, k, dbl=True)
            ncap = rng.randrange(0, 3)
            script_pop_on(rng, tx, ncap)
            ops = [l for u in tx.ops for l in u if not l.startswith("fetch") and not l.startswith("st ")]
            neoc = ncap * (1 if f == 0 else 1)
            c = list(ops)
            if fixed or neoc % 2 == 0:
                c.append("chsw")
            # a PAC follows the switch: vbi_caption_channel_switched keeps underline/italic/flash of the old pen
            c += field_script(rng, f, [(k, rng.choice(kinds))], force_pac=True)
            add(c + END_DUMP, "chsw")
        # 5b. data of one field BEFORE any mode-setting command of that field (fresh decoder, or after a channel switch / reset
        #     that followed any history), pair by pair between the pairs of an active service of the OTHER field:
        #     the data is discarded, the field's four pages stay blank, the other field's captions are unaffected
        for _ in range(70 * N):
            fa = 0 if rng.random() < 0.6 else 1   # field with the active service
            fb = 1 - fa                            # field without a mode command
            k = 0 if rng.random() < 0.6 else 1
            c = []
            tag = "premode"
            if fixed and rng.random() < 0.5:
                # any history on both fields, then the reset
                pk = rng.choice(kinds)
                pre = merge_fields(rng, field_script(rng, fb, [(rng.randrange(2), pk)]),
                                   field_script(rng, fa, [(rng.randrange(2), rng.choice(kinds))]) if rng.random() < 0.5 else [])
                c += [l for l in pre if not l.startswith("fetch") and not l.startswith("st ")] + ["chsw"]
                if pk == "text":
                    tag = "premode-chsw-text"   # a text service was current on the silent field before the reset (finding chsw-curr-chan)
            a = field_script(rng, fa, [(k, rng.choice(kinds))], force_pac=True)
            b = premode_data(rng, fb, rng.randrange(2, 9))
            add(c + merge_fields(rng, a, b) + END_DUMP, tag)
        # 6. malformed: random control pairs (valid parity, any second byte), random bytes, bad op lines
        for _ in range(260 * N):
            c = []
            chsw_ok = fixed
            for _ in range(rng.randrange(5, 120)):
                r = rng.random()
                f = rng.randrange(2)
                if r < 0.45:
                    a = 0x10 | rng.randrange(16)
                    b = rng.choice([0x20 | rng.randrange(16), 0x40 | rng.randrange(64), rng.randrange(128),
                                    rng.choice(list(MISC.values()))])
                    if rng.random() < 0.35:
                        a = (a & 0x18) | rng.choice([4, 5])
                        b = rng.choice(list(MISC.values()))
                    line = "cc %d %02x%02x" % (f, par(a), par(b))
                    c.append(line)
                    if rng.random() < 0.5:
                        c.append(line)
                elif r < 0.8:
                    t = [rng.choice([0x20, 0x20, rng.randrange(0x20, 0x80)]) for _ in range(2)]
                    if rng.random() < 0.1:
                        t[rng.randrange(2)] = 0
                    c.append("cc %d %02x%02x" % (f, par(t[0]), par(t[1])))
                elif r < 0.86:
                    c.append("cc %d %02x%02x" % (f, rng.randrange(256), rng.randrange(256)))
                elif r < 0.875:
                    # byte level: a control first byte with the NUL filler 0x80 (good parity, value 0) or a parity error as second
                    # byte; a parity error in the first byte with a good / bad second byte (mutants of the parity tests)
                    a, b = par(0x10 | rng.randrange(16)), par(rng.choice(list(MISC.values()) + [0x39, 0x41, 0x20]))
                    q = rng.randrange(4)
                    if q == 0:
                        b = 0x80
                    elif q == 1:
                        b ^= 0x80
                    elif q == 2:
                        a ^= 0x80
                    else:
                        a, b = par(rng.randrange(0x20, 0x80)) ^ 0x80, par(rng.randrange(0x20, 0x80)) ^ (0x80 * rng.randrange(2))
                    c.append("cc %d %02x%02x" % (f, a, b))
                    if rng.random() < 0.5:
                        c.append("fetch %d" % rng.randrange(1, 9))
                elif r < 0.89:
                    c.append("cc 0 8080")
                elif r < 0.91:
                    c.append("cc 1 %02x%02x" % (par(rng.choice([1, 2, 3, 5, 0x0F])), par(rng.randrange(0x20, 0x80))))
                elif r < 0.96:
                    c.append("fetch %d" % rng.choice([1, 2, 3, 4, 5, 6, 7, 8, rng.randrange(-2, 11)]))
                elif r < 0.97 and chsw_ok:
                    c.append("chsw")
                elif r < 0.985:
                    c.append(rng.choice(["st %d" % rng.randrange(9), "raw %d %d" % (rng.randrange(9), rng.randrange(2)),
                                         "tail %d %d" % (rng.randrange(9), rng.randrange(2)), "glob"]))
                else:
                    c.append(rng.choice(["cc 2 8080", "cc 0 80", "cc 0 zz80", "cc", "fetch", "fetch x", "st 9", "st -1",
                                         "raw 0 2", "bogus 1", "cc 0 808080", "tail 9 0", "glob 1", "fetch 5000"]))
            add(c + END_DUMP + ["tail %d %d" % (i, p) for i in (0, 4) for p in (0, 1)])
        # 7. text channels to the bottom row and beyond (candidate F10: CR clears line[0..34])
        for _ in range(10 * N):
            f, k = rng.randrange(2), rng.randrange(2)
            tx = Tx(rng, f, k)
            tx.misc("TR")
            for _ in range(rng.randrange(14, 20)):
                tx.text(words(rng, 6)); tx.misc("CR")
            tx.cut()
            i = tx.pgno(True) - 1
            add([l for u in tx.ops for l in u] + ["tail %d 0" % i, "tail %d 1" % i, "raw %d 0" % i] + END_DUMP, "wf-bottom")
        # 8. right and left margin: every cursor command with the cursor in columns 30..33 and 1..2, all modes
        for _ in range(60 * N):
            f, k = rng.randrange(2), rng.randrange(2)
            tx = Tx(rng, f, k)
            mode = rng.choice(["RCL", "RDC", "RU2", "RU3", "RU4", "TR"])
            tx.misc(mode)
            istext = mode == "TR"
            for _ in range(rng.randrange(1, 5)):
                if not istext or rng.random() < 0.3:
                    tx.pac(rng.randrange(15), indent=rng.choice([28, 28, 24, 0]))
                tx.text([rng.randrange(0x21, 0x7F) for _ in range(rng.choice([0, 1, 2, 3, 4, 5, 6]))])
                for _ in range(rng.randrange(1, 8)):
                    r = rng.random()
                    if r < 0.3:
                        tx.tab(rng.randrange(1, 4))
                    elif r < 0.45:
                        tx.misc("BS")
                    elif r < 0.55:
                        tx.misc("DER")
                    elif r < 0.65:
                        tx.special(9)
                    elif r < 0.75:
                        tx.midrow(rng.randrange(8), rng.randrange(2))
                    elif r < 0.8:
                        tx.ctrl(7, rng.choice([0x2D, 0x2E, 0x2F]))
                    elif r < 0.85:
                        tx.misc("CR")
                    elif r < 0.9:
                        tx.ctrl(0, 0x20 | rng.randrange(16))
                    else:
                        tx.text([rng.randrange(0x20, 0x7F), rng.choice([0x20, 0x41])])
                    tx.st(istext)
                if rng.random() < 0.5:
                    tx.fetch(tx.pgno(istext))
            tx.cut()
            i = tx.pgno(istext) - 1
            add([l for u in tx.ops for l in u] + ["raw %d 0" % i, "raw %d 1" % i, "tail %d 0" % i, "tail %d 1" % i] + END_DUMP, "margin")
        # 9. roll-up depth changes inside roll-up mode around the top rows (seed C01-h: window start above row 0)
        for _ in range(60 * N):
            f, k = rng.randrange(2), rng.randrange(2)
            tx = Tx(rng, f, k)
            script_roll_depth(rng, tx)
            i = tx.pgno() - 1
            add([l for u in tx.ops for l in u] + ["raw %d 0" % i, "raw %d 1" % i] + END_DUMP, "ru-depth")
        # the two event-less display changes of finding F19 are isolated between fetches of the pages they can touch
        def isolate(c):
            out, i = [], 0
            while i < len(c):
                l = c[i]
                k = self.silent_kind(l) if l.startswith("cc ") else None
                if k is None:
                    out.append(l); i += 1
                    continue
                j = i
                while j < len(c) and c[j] == l:
                    j += 1
                t = l.split()
                g = 2 * int(t[1]) + ((int(t[2][:2], 16) >> 3) & 1)
                fs = ["fetch %d" % (g + 1), "fetch %d" % (g + 5)]
                out += fs + c[i:j] + fs
                i = j
            return out
        for n, c in enumerate(cases):
            if self._wf.get("\n".join(c), "margin") in NOREF and c and c[0] != "layout":
                tag = self._wf.pop("\n".join(c), None)
                cases[n] = isolate(c)
                if tag:
                    self._wf["\n".join(cases[n])] = tag
        # expected pages of the reference model for the well-formed cases
        self._expect = {}
        wf = [c for c in cases if self._wf.get("\n".join(c), "margin") not in NOREF]
        if wf:
            drop = [xds_lines(c) if self._wf.get("\n".join(c)) == "xds-gate" else set() for c in wf]
            fed = [[l for j, l in enumerate(c) if j not in d] for c, d in zip(wf, drop)]
            p = subprocess.run([verif.model_exe(), "cc608"], input=verif.flatten(fed).encode(), stdout=subprocess.PIPE, timeout=1200)
            outs = verif.split_cases(p.stdout.decode())
            for i, c in enumerate(wf):
                o = list(outs.get(i, []))
                if drop[i] and len(o) == len(fed[i]):
                    it = iter(o)
                    o = ["ok xds" if j in drop[i] else next(it) for j in range(len(c))]
                self._expect["\n".join(c)] = o
        return cases

    def classify(self, case):
        t = getattr(self, "_wf", {}).get("\n".join(case))
        if t:
            return t
        if case and case[0] == "layout":
            return "layout"
        return "malformed" if any(l.startswith("cc ") for l in case) else "corpus"

    # ---------------------------------------------------------------- oracle
    BLANK = {True: "510*20.f8", False: "510*20.e0"}

    def oracle(self, case, out):
        if len(out) != len(case):
            return "output count %d != ops %d" % (len(out), len(case))
        key = "\n".join(case)
        tag = getattr(self, "_wf", {}).get(key)
        exp = getattr(self, "_expect", {}).get(key)
        if tag is None:
            tag, exp = self.corpus_expect(case, key)
        if tag is None and "--replay" in sys.argv and any(l.startswith("fetch") for l in case):
            # a replay file written by an earlier run: compare its fetches with the reference model as well
            p = subprocess.run([verif.model_exe(), "cc608"], input=verif.flatten([case]).encode(), stdout=subprocess.PIPE, timeout=120)
            tag, exp = "replay", verif.split_cases(p.stdout.decode()).get(0, [])
        # (c) cursor invariants, (d) other field untouched
        fields = {l.split()[1] for l in case if l.startswith("cc ") and len(l.split()) == 3}
        has_chsw = "chsw" in case
        for op, o in zip(case, out):
            if o.startswith("rej oob"):
                return "harness reports out-of-bounds"
            if op.startswith("cu ") and o.startswith("ok "):
                t = op.split()
                want = std_caption_char(int(t[1], 16), t[2] == "1")
                if int(o[3:], 16) != want:
                    return "caption_unicode: code %x (to_upper=%s) gives U+%04X, the standard's chart has U+%04X" % (
                        int(t[1], 16), t[2], int(o[3:], 16), want)
            if op.startswith("st ") and o.startswith("ok mode="):
                d = dict(x.split("=") for x in o.split()[1:])
                col, col1, row, row1, roll = (int(d[x]) for x in ("col", "col1", "row", "row1", "roll"))
                lp, off = d["line"].split(":")
                if lp != d["hidden"]:
                    return "F17 line pointer not in hidden page (line=%s hidden=%s)" % (d["line"], d["hidden"])
                if not (1 <= col1 <= col <= 33 and 0 <= row <= 14 and roll >= 1 and 0 <= row1 and row1 + roll <= 15
                        and int(off) == row * 34):
                    return "cursor invariant broken: " + o
                i = int(op.split()[1])
                if not has_chsw and len(fields) == 1 and i < 8:
                    other = (i >> 1) & 1 != int(next(iter(fields)))
                    if other and o != ("ok mode=%d col=1 col1=1 row=%d row1=%d roll=%d nul=0 hidden=0 line=0:%d attr=0.f8" %
                                       ((4, 0, 0, 15, 0) if i >= 4 else (0, 14, 12, 3, 476))):
                        return "pairs of field %s changed channel %d of the other field" % (next(iter(fields)), i)
        # (b) event on change
        w = self.event_on_change(case, out)
        if w:
            return w
        # (e) the dirty region is handed over once
        w = self.dirty_once(case, out)
        if w:
            return w
        # (a) refinement to Eia608 at the visibility points
        if exp is not None and tag and tag not in NOREF:
            if len(exp) != len(out):
                return "reference model produced %d lines for %d ops" % (len(exp), len(out))
            lenient = "note lenient" in case
            for n, (op, o, e) in enumerate(zip(case, out, exp)):
                if not op.startswith("fetch"):
                    continue
                got = o.split(" ", 2)[2] if o.startswith("ok d=") else o
                want = e[3:] if e.startswith("ok ") else e
                want, _, mem = want.partition(" m=")
                if got != want:
                    if tag == "f20":
                        return "F20 mid-row italics: page differs from Eia608 (colour reset to white)"
                    if tag == "xfield":
                        return "F18 page differs from Eia608 when fields with different channel/class are interleaved"
                    d = None
                    if lenient and mem:
                        d = self.lenient_diff(got, want, mem)
                        if d is None:
                            continue
                    if tag in ("premode-chsw-text", "chsw-curr"):
                        return "chsw-curr-chan: page %s shows data received after a channel switch without a mode command (curr_chan survives the reset)" % op.split()[1]
                    if tag in ("text-edm", "edm-text"):
                        return "EDM-in-text-mode: page %s differs from Eia608 after Erase Displayed Memory in a text transmission" % op.split()[1]
                    return "page differs from Eia608 [%s] at op %d (%s)%s: got %s want %s" % (tag, n, op, d or "", got[:120], want[:120])
        return None

    @staticmethod
    def unrle(text):
        out = []
        for run in text.split(","):
            n, _, tok = run.partition("*")
            out += [tok] * int(n)
        return out

    @classmethod
    def lenient_diff(cls, got, want, mem):
        """comparison that leaves the solid spaces to the decoder (47 CFR 15.119 (d)(1): they `may` be added): a cell in
        which the reference display memory holds nothing must show no glyph (a space, any attributes); every cell
        the memory does hold must match exactly.  -> None or ' row r col c'"""
        try:
            g, w, m = cls.unrle(got), cls.unrle(want), cls.unrle(mem)
        except ValueError:
            return " (unparsable page)"
        if not (len(g) == len(w) == len(m) == 510):
            return " (page size)"
        for i in range(510):
            if g[i] == w[i]:
                continue
            # caption pages only: an empty memory cell prints as 20.e0 (a stored cell is never transparent)
            if m[i] == "20.e0" and g[i].split(".")[0] == "20":
                continue
            return " row %d col %d" % (i // 34, i % 34)
        return None

    CORPUS_TAGS = {"f18-": "xfield", "f20-": "f20", "wf-": "wf-corpus", "edm-text-": "edm-text", "chsw-curr-": "chsw-curr"}

    def corpus_expect(self, case, key):
        """corpus files named f18-* / wf-* are compared with the reference model too"""
        if not hasattr(self, "_corpus"):
            self._corpus = {}
            for f, lines in verif.corpus_cases(self.prop):
                for pre, tag in self.CORPUS_TAGS.items():
                    if f.startswith(pre):
                        p = subprocess.run([verif.model_exe(), "cc608"], input=verif.flatten([lines]).encode(),
                                           stdout=subprocess.PIPE, timeout=120)
                        self._corpus["\n".join(lines)] = (tag, verif.split_cases(p.stdout.decode()).get(0, []))
        return self._corpus.get(key, (None, None))

    def event_on_change(self, case, out):
        def reset():
            return ({p: self.BLANK[p > 4] for p in range(1, 9)}, {p: 0 for p in range(1, 9)}, {p: [] for p in range(1, 9)})
        prev, evs, since = reset()   # page text at the previous fetch (initially blank), events / pairs since then
        for op, o in zip(case, out):
            t = op.split()
            if not t or not o.startswith("ok"):
                continue
            if t[0] == "chsw":
                prev, evs, since = reset()
            elif t[0] == "cc" and o.startswith("ok ev="):
                e = o[6:].strip()
                if e != "-":
                    for x in e.split(","):
                        if int(x) in evs:
                            evs[int(x)] += 1
                for p in since:
                    since[p].append(op)
            elif t[0] == "fetch" and o.startswith("ok d="):
                p = int(t[1])
                text = o.split(" ", 2)[2]
                if prev[p] != text and evs[p] == 0:
                    return "event_on_change: page %d changed without a caption event%s" % (p, self.erase_pattern(since[p], ((p - 1) >> 1) & 1))
                prev[p], evs[p], since[p] = text, 0, []
        return None

    @staticmethod
    def dirty_once(case, out):
        """vbi_fetch_cc_page resets the dirty fields of the page it copied (y0 = ROWS, y1 = -1, roll = 0): a second fetch of the
        same page, with nothing decoded in between, must report that nothing is pending"""
        fetched = set()
        for op, o in zip(case, out):
            t = op.split()
            if not t:
                continue
            if t[0] in ("cc", "chsw"):
                fetched.clear()
            elif t[0] == "fetch" and len(t) == 2 and o.startswith("ok d="):
                d = o.split(" ", 2)[1][2:].split(",")
                if t[1] in fetched:
                    try:
                        y0, y1, roll = (int(x) for x in d)
                    except ValueError:
                        return "dirty region unparsable: " + o[:40]
                    if y0 <= y1 or roll != 0:
                        return "dirty_once: page %s fetched twice with nothing decoded in between still reports pending changes (d=%s)" % (t[1], ",".join(d))
                fetched.add(t[1])
        return None

    @staticmethod
    def silent_kind(line):
        """RU / CR / None for one `cc f hex` line (as libzvbi decodes it: second byte < 0x40, low nibble)"""
        t = line.split()
        try:
            a, b = int(t[2][:2], 16) & 0x7F, int(t[2][2:], 16) & 0x7F
        except (ValueError, IndexError):
            return None
        if 0x10 <= a <= 0x1F and b < 0x40 and (a & 7) in (4, 5):
            if (b & 15) in (5, 6, 7):
                return "RU"
            if (b & 15) == 13:
                return "CR"
        return None

    @classmethod
    def erase_pattern(cls, ops, field):
        """finding F19 is recognised only when ALL pairs of this page's field since the previous fetch are roll-up
        commands (erase on arrival in pop-on mode) or all are carriage returns (CR in pop-on mode); the generators
        fetch the affected pages directly before and after every such command, so anything else stays a violation"""
        kinds = [cls.silent_kind(l) for l in ops if len(l.split()) == 3 and l.split()[1] == str(field)]
        if kinds and all(k == "RU" for k in kinds):
            return " (after RUx)"
        if kinds and all(k == "CR" for k in kinds):
            return " (after CR)"
        return ""

    def signature(self, case, what):
        if what.startswith("F17"):
            return "F17-chsw-line-pointer"
        if what.startswith("F18"):
            return "F18-cross-field-routing"
        if what.startswith("F20"):
            return "F20-midrow-italics-resets-colour"
        if what.startswith("chsw-curr-chan"):
            return "chsw-keeps-curr-chan"
        if what.startswith("EDM-in-text-mode"):
            return "EDM-in-text-mode-erases-text-not-caption"
        m = re.match(r"event_on_change: page \d+ changed without a caption event( \(after \w+\))?", what)
        if m:
            return "F19-no-event" + (m.group(1) or "").replace(" ", "-")
        if what.startswith("page differs from Eia608"):
            return "refines-Eia608 " + what.split("]")[0].split("[")[-1]
        return re.sub(r"\d+", "N", what.split(":")[0])

    # ---------------------------------------------------------------- impl-only probes
    def projection_probe(self, ctx):
        """fields_independent_full on the REAL code: a history with pairs of both fields is run again with the ops of one
        field only (its pairs, the fetches / dumps of its pages and channels, every channel switch); every output line the
        sub-history keeps must be identical (events, fetched pages incl. dirty region, scalars, raw memories; of `glob`
        the part the field owns).  Known finding F44 (shared curr_chan) would show here."""
        res = []
        cand = [c for c in ctx["cases"] if any(l.startswith("cc 0 ") for l in c) and any(l.startswith("cc 1 ") for l in c)]
        if not cand:
            return res
        n = 150 if ctx["tier"] == "quick" else 1200
        step = max(1, len(cand) // n)
        cand = cand[::step][:n]
        full, _inc = verif.run_side(ctx["hcmd"], cand, 5.0)
        subs, keep = [], []
        for ci, c in enumerate(cand):
            for f in (0, 1):
                idx = [i for i, l in enumerate(c) if field_of_line(l) in (f, 2) or l == "glob"]
                subs.append([c[i] for i in idx]); keep.append((ci, f, idx))
        sub_out, inc = verif.run_side(ctx["hcmd"], subs, 5.0)
        for x in inc[:3]:
            res.append(("crash of the real code on a one-field sub-history (%s)" % verif.summarize_san(x["detail"]), subs[x["case"]]))
        bad = set(x["case"] for x in inc)

        def own(l, f):
            # of `glob`: last[] belongs to field 1, curr_chan[f] to field f, the XDS gate to field 2
            m = re.match(r"ok last=(\w+) curr=(\d+)(?:,(\d+))? xds=(\d)$", l)
            if not m:
                return l
            if m.group(3) is None:
                return l        # shared selector: compared as a whole (finding F44 territory)
            return "last=%s curr=%s" % (m.group(1), m.group(2)) if f == 0 else "curr=%s xds=%s" % (m.group(3), m.group(4))
        self.projection_runs = 0
        for si, (ci, f, idx) in enumerate(keep):
            if si in bad:
                continue
            a, b = full.get(ci, []), sub_out.get(si, [])
            if len(a) != len(cand[ci]) or len(b) != len(idx):
                continue
            self.projection_runs += 1
            for k, i in enumerate(idx):
                if own(a[i], f) != own(b[k], f):
                    res.append(("fields_independent: field %d, `%s` answers differently after the whole history and after the field's own "
                                "sub-history (%s / %s)" % (f + 1, cand[ci][i].split()[0], a[i][:60], b[k][:60]), cand[ci][:i + 1]))
                    break
            if len(res) >= 3:
                break
        if os.environ.get("C08_VERBOSE"):
            print("projection probe: %d one-field sub-histories compared" % self.projection_runs)
        return res

    def extra_checks(self, ctx):
        """F17 demonstration on the real code: after a channel switch text of CC1 lands in CC2's memory"""
        res = []
        if ctx["hcmd"] is None:
            return res
        res += self.projection_probe(ctx)
        def c2(name, f=0, k=0):
            l = "cc %d %02x%02x" % (f, par(0x14 | (k << 3)), par(MISC[name]))
            return [l, l] if f == 0 else [l]
        demo = c2("RCL") + c2("EOC") + ["chsw"] + c2("RDC") + ["cc 0 %02x%02x" % (par(0x41), par(0x42)), "cc 0 %02x80" % par(0x20),
                                                             "raw 1 0", "raw 1 1"]
        o, inc = verif.run_side(ctx["hcmd"], [demo], 5.0)
        lines = o.get(0, [])
        if inc:
            res.append(("crash of the real code in the F17 probe (%s)" % verif.summarize_san(inc[0]["detail"]), demo))
        elif len(lines) == len(demo) and (not lines[-2].endswith(" 510*20.e0") or not lines[-1].endswith(" 510*20.e0")):
            res.append(("F17 text for CC1 written into the page memory of CC2 after a channel switch", demo))
        return res


if __name__ == "__main__":
    verif.run_check(C08())
