#!/usr/bin/env python3
"""C11 - event handlers run exactly once, in order, and may re-register from callbacks."""
import itertools, json, os, subprocess, sys, time
sys.path.insert(0, os.path.join(os.path.dirname(os.path.abspath(__file__)), "..", "lib"))
import verif

NFN, CAP = 6, 48
TTX = 2
USERS = [0, 1, 2, 7, 4294967295]
MASKS = [1, 2, 4, 6, 8, 0x10, 0x40, 0x80, 0xC0, 0x100, 0x108, 0x400, 0x800, 0x802, 0xFFFFFFFF, 0x7FFFFFFF, 0x80000000]
EVS = [2, 2, 2, 4, 8, 1, 0x40, 0x80, 0x100, 0x800, 6, 0xFFFFFFFF, 0, 0x80000000]



# ---------------------------------------------------------------------------------------
# parsing of ops and outputs
# ---------------------------------------------------------------------------------------
def parse_call(ws):
    """-> dict(kind, fn, user, mask, oom) or None; mirrors the driver"""
    def n32(s):
        try:
            v = int(s, 0) if s.startswith("0x") else int(s)
        except ValueError:
            return None
        return v if 0 <= v < 2 ** 32 and not s.startswith(("-", "+")) else None
    def fn(s):
        v = n32(s)
        return v if v is not None and v < NFN else None
    if not ws:
        return None
    k = ws[0]
    if k in ("reg", "reg!", "add", "add!") and len(ws) == 4:
        f, u, m = fn(ws[1]), n32(ws[2]), n32(ws[3])
        if None in (f, u, m): return None
        return dict(kind=k[:3], fn=f, user=u, mask=m, oom=k.endswith("!"))
    if k == "unreg" and len(ws) == 3:
        f, u = fn(ws[1]), n32(ws[2])
        if None in (f, u): return None
        return dict(kind="reg", fn=f, user=u, mask=0, oom=False)
    if k == "remove" and len(ws) == 2:
        f = fn(ws[1])
        if f is None: return None
        return dict(kind="add", fn=f, user=0, mask=0, oom=False)
    return None

def parse_script(w):
    if w == "-": return []
    parts = w.split(";")
    if len(parts) > 8: return None
    out = []
    for p in parts:
        c = parse_call(p.split(":"))
        if c is None: return None
        out.append(c)
    return out

def names(c, r):
    """does call c name record r = (id, fn, user, mask)"""
    return r[1] == c["fn"] and (c["kind"] == "add" or r[2] == c["user"])

def parse_out(line):
    """'ok e e | id:fn:user:mask ... | em=.. cur=.. lk=.. [acq=..]' -> dict or None"""
    if not line.startswith("ok") or " | " not in line + " ":
        return None
    try:
        a, b, c = line[2:].split("|")
    except ValueError:
        return None
    ents = []
    for e in a.split():
        f = e.split(":")
        ents.append((f[0],) + tuple(int(x) if x != "?" else -1 for x in f[1:]))
    chain = [tuple(int(x) for x in r.split(":")) for r in b.split()]
    kv = dict(x.split("=") for x in c.split())
    return dict(ents=ents, chain=chain, em=int(kv["em"]), cur=kv["cur"], lk=int(kv["lk"]),
                acq=(int(kv["acq"]) if "acq" in kv else None))



def parse_lcall(ws):
    """call of the second list (script syntax) -> dict or None; mirrors the driver"""
    def n32(x):
        try:
            v = int(x, 0) if x.startswith("0x") else int(x)
        except ValueError:
            return None
        return v if 0 <= v < 2 ** 32 and not x.startswith(("-", "+")) else None
    def fn(x):
        v = n32(x)
        return v if v is not None and v < NFN else None
    if not ws: return None
    k = ws[0]
    if k in ("add", "add!") and len(ws) == 4:
        f, u, m = fn(ws[1]), n32(ws[2]), n32(ws[3])
        if None in (f, u, m): return None
        return dict(kind="add", fn=f, user=u, mask=m, oom=k.endswith("!"))
    if k == "rm" and len(ws) == 3:
        f, u = fn(ws[1]), n32(ws[2])
        if None in (f, u): return None
        return dict(kind="add", fn=f, user=u, mask=0, oom=False)
    if k in ("rmrec", "rmev", "send") and len(ws) == 2:
        v = n32(ws[1])
        if v is None: return None
        return dict(kind=k, arg=v)
    return None

def parse_lscript(w):
    if w == "-": return []
    parts = w.split(";")
    if len(parts) > 8: return None
    out = []
    for p in parts:
        c = parse_lcall(p.split(":"))
        if c is None: return None
        out.append(c)
    return out

def parse_lout(line):
    if not line.startswith("ok"): return None
    try:
        a, b, c = line[2:].split("|")
    except ValueError:
        return None
    ents = []
    for e in a.split():
        f = e.split(":")
        ents.append((f[0],) + tuple(int(x) if x != "?" else -1 for x in f[1:]))
    chain = [[int(x) for x in r.split(":")] for r in b.split()]
    kv = dict(x.split("=") for x in c.split())
    return dict(ents=ents, chain=chain, em=int(kv["em"]), rc=int(kv["rc"]))

def enable_flags(old, new):
    """spec of vbi_event_enable: a service is reset exactly when it becomes requested"""
    f = 0
    if new & 2 and not old & 2: f |= 1
    if new & 4 and not old & 4: f |= 2
    if (new & ~old) & 0x108: f |= 4
    if new & 0x10 and not old & 0x10: f |= 8
    if new & 0xC0 and not old & 0xC0: f |= 16
    if new & 0x800 and not old & 0x800: f |= 32
    return f


# ---------------------------------------------------------------------------------------
# running the harness: incident budget and attribution (lib/verif.py is shared, so the two functions
# the check driver looks up at call time are wrapped here)
# ---------------------------------------------------------------------------------------
MAX_INCIDENTS = 2          # crashes / hangs of the real code after which the remaining cases are not run
SHRINK_WALL_S = 30.0       # wall clock budget of all shrinking of one run
_orig_run_side, _orig_shrink = verif.run_side, verif.shrink_case
_state = {"cut": None, "unrun": set(), "shrink_t0": None}


def _once(cmd, text, to, env):
    try:
        p = subprocess.run(cmd, input=text.encode(), stdout=subprocess.PIPE, stderr=subprocess.PIPE, timeout=to, env=env)
        return p.returncode, p.stdout.decode("utf-8", "replace"), p.stderr.decode("utf-8", "replace"), False
    except subprocess.TimeoutExpired as ex:
        return -9, (ex.stdout or b"").decode("utf-8", "replace"), (ex.stderr or b"").decode("utf-8", "replace"), True


def _detail(se):
    """sanitizer report / watchdog message, with the PHASE line of the harness kept in front"""
    ph = [l for l in se.split("\n") if l.startswith(("PHASE: ", "ERROR: HANG"))]
    return "\n".join(ph[:2]) + "\n" + verif._clip(se)


def run_side(cmd, cases, timeout_per_case=5.0, env=None, min_timeout=20.0):
    """verif.run_side for the harness, with these differences:
    (1) attribution: the harness tears the previous case down (vbi_decoder_delete) when it reads `case k`; it
        says so in a PHASE line (watchdog and AddressSanitizer reports), and an incident in that phase belongs
        to case k-1; k is then run again.  Without a PHASE line (UBSan, assert) an incident before the first
        output line of case k is re-tried on k-1 alone.
    (2) the harness's own watchdog (exit code 94; 1 s CPU or 5 s wall per op / teardown) is a hang, not a crash;
        in a batch it is confirmed by running the case alone (a starved process on the shared machine is no hang).
    (3) after MAX_INCIDENTS incidents the remaining cases are not run: every one of them can cost two watchdog
        periods (two mutants of vbi_event_handler_register made every teardown spin: ~5000 x 10 s, the check
        never reported).  The model side is cut at the same case and the oracle skips what was not run."""
    if cmd[0] == verif.model_exe():
        if _state["cut"] is not None and len(cases) > 1:
            cases = cases[:_state["cut"]]
        return _orig_run_side(cmd, cases, timeout_per_case, env, min_timeout)
    outputs, incidents = {}, []
    start, n = 0, len(cases)
    e = dict(os.environ); e.update(verif.SAN_ENV)
    if env: e.update(env)
    alone_to = max(min_timeout, timeout_per_case * 4)
    while start < n:
        if len(incidents) >= MAX_INCIDENTS:
            if n > 1:
                _state["cut"] = start
                _state["unrun"] = {id(c) for c in cases[start:]}
            break
        rc, so, se, hung = _once(cmd, verif.flatten(cases[start:], start), max(min_timeout, timeout_per_case * (n - start)), e)
        got = verif.split_cases(so)
        outputs.update(got)
        if rc == 0 and not hung:
            break
        last = max(got.keys()) if got else start
        who, resume = last, last + 1
        if "PHASE: teardown of the previous case" in se and last > start:
            who, resume = last - 1, last
        elif "PHASE: " not in se and last > start and not got.get(last) and not hung:
            rc2, so2, se2, hung2 = _once(cmd, verif.flatten([cases[last - 1]], last - 1), alone_to, e)
            if rc2 != 0 or hung2:
                who, resume, rc, se, hung = last - 1, last, rc2, se2, hung2
        if n > 1 and (hung or rc == 94):
            # watchdog (of the harness or of this driver): attributed only when the case alone fails too
            rc2, so2, se2, hung2 = _once(cmd, verif.flatten([cases[who]], who), alone_to, e)
            if rc2 == 0 and not hung2:
                outputs.update(verif.split_cases(so2))
                C11.stats["harness_watchdog_false_alarms"] = C11.stats.get("harness_watchdog_false_alarms", 0) + 1
                start = resume
                continue
            rc, se, hung = rc2, se2, hung2
        kind = "hang" if (hung or rc == 94) else "crash"
        incidents.append({"case": who, "kind": kind, "rc": rc,
                          "detail": ("no progress within the driver's watchdog\n" if hung else "") + _detail(se)})
        start = resume
    return outputs, incidents


def shrink_case(case, still_fails, budget=200):
    """ddmin of verif with a wall clock budget: a candidate that still hangs costs a watchdog period"""
    if _state["shrink_t0"] is None:
        _state["shrink_t0"] = time.time()
    def still(c):
        return time.time() - _state["shrink_t0"] < SHRINK_WALL_S and still_fails(c)
    return _orig_shrink(case, still, budget)


verif.run_side, verif.shrink_case = run_side, shrink_case


class C11(verif.Spec):
    prop = "C11"
    comp = "ev"
    lean_modules = ["ZvbiModel.Props.C11", "ZvbiModel.Props.C11Enable"]
    harness = "ev_harness"
    harness_link_lib = True
    harness_extra = ["-Wl,--wrap=calloc", "-Wl,--wrap=malloc"]
    timeout_per_case = 0.1
    partial_note = ("ttx_acquired_iff_handler is proved for the model's gate (event_mask & TTX_EVENTS, constants and the gate "
                    "expression regenerated from packet.c); that the Teletext decoder really ignores packets < 30 is judged "
                    "by the oracle (`ttx` op) on the real code, not proved. Deliveries end only for behaviours that stop "
                    "adding handlers (send_terminates); for the others every statement is about terminated deliveries. "
                    "vbi_event_enable: the program is regenerated statement by statement and proved to reset exactly the requested "
                    "classes; what the called reset functions do inside their object is not modelled (observed by sentinels, op `enab`).")
    assumptions = ["single thread (cross-thread use is C20); pthread_mutex_trylock fails iff this thread holds the default mutex",
                   "allocation failure is outside the property (injected only so that model and code are compared on that path too)",
                   "a callback does not raise events itself (vbi_decode / vbi_send_event from a handler self-deadlocks on the "
                   "non-recursive mutex and is documented as forbidden)",
                   "masks and event types are 32 bit (C int)"]
    trusted_base = ["translate/gen_evenable.py (statements of vbi_event_enable -> Generated/EvEnable.lean; fails on anything it does not know; "
                    "cross-checked by the `enab` op on the real function)",
                    "translate/gen_ev.py (event bits, TTX_EVENTS gate, vbi_event_enable branch sets; cross-checked by the `consts` op)",
                    "harness/ev_harness.c + lean/Driver/Ev.lean (correspondence of add/remove/register/unregister/send incl. callbacks)",
                    "record ids in the harness come from watching vbi->handlers (shadow list), not from the model"]
    open_statements = []
    stats = {}
    extra_coverage = {"behaviour_stats": stats}

    def bump(self, k, n=1):
        self.stats[k] = self.stats.get(k, 0) + n

    # -----------------------------------------------------------------------------------
    def rand_call(self, rng, live, in_script=True):
        """a call as script text (':' separated); biased towards existing handlers"""
        k = rng.random()
        if live and k < 0.7:
            f, u = rng.choice(live)
        else:
            f, u = rng.randrange(NFN), rng.choice(USERS)
        k = rng.random()
        if k < 0.30: return "unreg:%d:%d" % (f, u)
        if k < 0.65: return "reg:%d:%d:%d" % (f, u, rng.choice(MASKS))
        if k < 0.75: return "remove:%d" % f
        if k < 0.90: return "add:%d:%d:%d" % (f, u, rng.choice(MASKS))
        if k < 0.95: return "reg!:%d:%d:%d" % (f, u, rng.choice(MASKS))
        return "reg:%d:%d:0" % (f, u)

    def gen_cases(self, rng, tier):
        quick = tier == "quick"
        cases = [["consts"]]
        # 0. vbi_event_enable on a decoder full of sentinels: every pair of the interesting masks, plus random ones
        EM = [0, 1, 2, 4, 8, 0x10, 0x40, 0x80, 0xC0, 0x100, 0x108, 0x400, 0x800, 0x802, 0x48, 0x180, 0x7FFFFFFF, 0xFFFFFFFF]
        pairs = [(o, n_) for o in EM for n_ in EM]
        for _ in range(60 if quick else 2000):
            pairs.append((rng.randrange(1 << 12) | (rng.getrandbits(32) if rng.random() < 0.2 else 0), rng.randrange(1 << 12)))
        for k in range(0, len(pairs), 16):
            cases.append(["enab %d %d" % p_ for p_ in pairs[k:k + 16]])
        cases.append(["enab", "enab 1", "enab 1 2 3", "enab x 1", "enab 1 4294967296", "enab -1 2", "enab 0 0"])
        # 1. exhaustive small: three handlers A B C; scripts over an alphabet of calls that name
        #    themselves / the next / the previous / a new handler, for every sender position
        A, B, C, D = (0, 1), (1, 2), (2, 7), (3, 0)
        alpha = ["unreg:0:1", "unreg:1:2", "unreg:2:7", "reg:3:0:2", "remove:1", "reg:1:2:4", "add:2:9:2", "reg:0:1:6"]
        base = ["reg 0 1 2", "reg 1 2 2", "reg 2 7 6"]
        single = [[a] for a in alpha] + [[a, b] for a in alpha for b in alpha]
        if not quick:
            single += [[a, b, c] for a in alpha for b in alpha for c in alpha]
        for h in (A, B, C):
            for sc in single:
                cases.append(base + ["script %d %d %s" % (h[0], h[1], ";".join(sc)), "send 2", "send 2", "send 4"])
        opts = [[]] + [[a] for a in alpha]
        if not quick:
            opts += [[a, b] for a in alpha[:5] for b in alpha[:5]]
        for sa in opts:
            for sb in opts:
                for sc in ([[]] if quick else opts[:9]):
                    c = list(base)
                    for h, s in ((A, sa), (B, sb), (C, sc)):
                        if s: c.append("script %d %d %s" % (h[0], h[1], ";".join(s)))
                    cases.append(c + ["send 2", "send 6"])
        # 2. random histories
        N = 2500 if quick else 20000
        for _ in range(N):
            c, live = [], []
            L = rng.choice([4, 8, 16, 30]) if quick else rng.choice([5, 12, 40, 120, 200])
            for _ in range(L):
                k = rng.random()
                if k < 0.22:
                    f, u = rng.randrange(NFN), rng.choice(USERS)
                    c.append("reg %d %d %d" % (f, u, rng.choice(MASKS + [2, 2, 6])))
                    if (f, u) not in live: live.append((f, u))
                elif k < 0.30 and live:
                    f, u = rng.choice(live)
                    c.append(rng.choice(["unreg %d %d" % (f, u), "remove %d" % f, "reg %d %d 0" % (f, u)]))
                elif k < 0.36:
                    f, u = rng.randrange(NFN), rng.choice(USERS)
                    c.append("add %d %d %d" % (f, u, rng.choice(MASKS + [0])))
                    if (f, u) not in live: live.append((f, u))
                elif k < 0.60:
                    f, u = rng.choice(live) if live and rng.random() < 0.9 else (rng.randrange(NFN), rng.choice(USERS))
                    n = rng.choice([0, 1, 1, 2, 2, 3, 5, 8])
                    sc = [self.rand_call(rng, live) for _ in range(n)]
                    c.append("script %d %d %s" % (f, u, ";".join(sc) or "-"))
                    for s in sc:
                        w = s.split(":")
                        if w[0] in ("reg", "add") and (int(w[1]), int(w[2])) not in live:
                            live.append((int(w[1]), int(w[2])))
                elif k < 0.90:
                    c.append("send %d" % rng.choice(EVS + [rng.randrange(1 << 12)]))
                elif k < 0.98:
                    c.append("ttx 0x%d" % rng.choice([100, 101, 199, 200, 345, 899, rng.randrange(100, 900)]))
                else:
                    c.append("%s %d %d %d" % (rng.choice(["reg!", "add!"]), rng.randrange(NFN), rng.choice(USERS), rng.choice(MASKS)))
            cases.append(c)
        # 3. Teletext acquisition with / without a TTX handler, switched from inside callbacks
        for _ in range(60 if quick else 600):
            c = []
            pages = [rng.choice([100, 101, 150, 234, 777, 899]) for _ in range(3)]
            m1, m2 = rng.choice([2, 6, 4, 0xFFFFFFFF, 0x800]), rng.choice([2, 4, 8, 0x802])
            c += ["ttx 0x%d" % pages[0], "reg 0 1 %d" % m1, "ttx 0x%d" % pages[0], "reg 1 1 %d" % m2, "ttx 0x%d" % pages[1]]
            if rng.random() < 0.5:
                c.append("script 0 1 " + rng.choice(["unreg:0:1", "unreg:0:1;unreg:1:1", "unreg:0:1;reg:0:1:2", "reg:0:1:4;reg:2:2:2", "remove:1;remove:0"]))
            c += ["ttx 0x%d" % pages[2], "unreg 0 1", "ttx 0x%d" % pages[2], "unreg 1 1", "ttx 0x%d" % pages[1], "ttx 0x%d" % rng.randrange(100, 900)]
            cases.append(c)
        # 4. self-feeding deliveries (handlers that keep adding handlers): cut by the script cap
        for k in range(4 if quick else 12):
            c = ["reg 0 0 2", "reg 0 1 2"]
            for u in range(0, 60):
                c.append("script 0 %d reg:0:%d:2%s" % (u, u + 2, ";unreg:0:%d" % u if k % 2 else ""))
            c += ["send 2", "send 2"]
            cases.append(c)
        cases.append(["reg 0 0 2", "reg 1 1 2", "script 0 0 unreg:0:0;reg:0:0:2", "script 1 1 unreg:1:1;reg:1:1:2", "send 2", "send 2"])
        # 5. malformed stream
        bad = ["reg", "reg 1", "reg 1 2", "reg 6 0 1", "reg 1 2 4294967296", "reg -1 2 3", "reg 1 -2 3", "reg a b c", "unreg 1",
               "unreg 1 2 3", "remove", "remove 7", "remove 1 2", "add 1 2", "add! 1", "send", "send x", "send 4294967296", "send 1 2",
               "ttx", "ttx 0x99", "ttx 0x900", "ttx 0x1a0", "ttx 0x10b", "ttx zz", "ttx -256", "script 1 1", "script 1 1 foo", "script 9 1 -",
               "script 1 1 reg:1:1", "script 1 1 reg:1:1:1:1", "script 1 1 ;", "script 1 1 reg:1:1:1;", "script 1 1 unreg:1:1;;unreg:1:1",
               "script 1 1 " + ";".join(["unreg:1:1"] * 9), "script 1 1 send:2", "frob", "REG 1 1 1", "consts 1", "reg! 1 1", "script 1 1 reg:6:1:1",
               "script 1 1 remove:1:1", "script 1 1 add!:1:1:0x10", "reg 0x1 0x2 0x10", "send 0x2"]
        for _ in range(30 if quick else 300):
            c = ["reg 1 1 2", "script 1 1 unreg:1:1"]
            for _ in range(12):
                c.append(rng.choice(bad) if rng.random() < 0.7 else "send 2")
            cases.append(c)
        c = ["script 0 0 -"] * 258 + ["reg 0 0 2", "send 2"]
        cases.append(c)
        # 6. second list (src/event.c): exhaustive small scripts, random histories with nested sends
        lalpha = ["rm:0:1", "rm:1:2", "rm:2:7", "add:3:0:2", "add:1:2:4", "send:2", "rmev:2", "rm:1:2;add:1:2:2", "rm:0:1;add:0:1:6", "rmrec:1", "send:4"]
        lbase = ["ladd 0 1 2", "ladd 1 2 2", "ladd 2 7 6"]
        lsingle = [[a] for a in lalpha] + [[a, b] for a in lalpha for b in lalpha if len((a + ";" + b).split(";")) <= 8]
        for h in ((0, 1), (1, 2), (2, 7)):
            for sc in (lsingle if not quick else lsingle[:len(lalpha)] + lsingle[len(lalpha)::3]):
                cases.append(lbase + ["lscript %d %d %s" % (h[0], h[1], ";".join(sc)), "lsend 2", "lsend 2", "lsend 4"])
        lopts = [[]] + [[a] for a in lalpha]
        for sa in lopts:
            for sb in lopts:
                c = list(lbase)
                if sa: c.append("lscript 0 1 " + ";".join(sa))
                if sb: c.append("lscript 1 2 " + ";".join(sb))
                cases.append(c + ["lsend 2", "lsend 6"])
        def rand_lcall(live):
            k = rng.random()
            if live and k < 0.7: f, u = rng.choice(live)
            else: f, u = rng.randrange(NFN), rng.choice(USERS)
            k = rng.random()
            if k < 0.25: return "rm:%d:%d" % (f, u)
            if k < 0.55: return "add:%d:%d:%d" % (f, u, rng.choice(MASKS))
            if k < 0.65: return "rm:%d:%d;add:%d:%d:%d" % (f, u, f, u, rng.choice([2, 6, 0xFFFFFFFF]))
            if k < 0.80: return "send:%d" % rng.choice([2, 2, 4, 6, 0xFFFFFFFF, 1])
            if k < 0.87: return "rmev:%d" % rng.choice(MASKS)
            if k < 0.94: return "rmrec:%d" % rng.randrange(12)
            return "add!:%d:%d:%d" % (f, u, rng.choice(MASKS))
        for _ in range(2000 if quick else 15000):
            c, live = [], []
            L = rng.choice([4, 8, 16, 30]) if quick else rng.choice([5, 12, 40, 100])
            for _ in range(L):
                k = rng.random()
                if k < 0.25:
                    f, u = rng.randrange(NFN), rng.choice(USERS)
                    c.append("ladd %d %d %d" % (f, u, rng.choice(MASKS + [2, 2, 6])))
                    if (f, u) not in live: live.append((f, u))
                elif k < 0.32 and live:
                    f, u = rng.choice(live)
                    c.append("lrm %d %d" % (f, u))
                elif k < 0.36:
                    c.append(rng.choice(["lrmev %d" % rng.choice(MASKS), "lrmrec %d" % rng.randrange(12), "ladd! %d %d %d" % (rng.randrange(NFN), rng.choice(USERS), rng.choice(MASKS))]))
                elif k < 0.62:
                    f, u = rng.choice(live) if live and rng.random() < 0.9 else (rng.randrange(NFN), rng.choice(USERS))
                    n = rng.choice([0, 1, 1, 2, 2, 3, 4])
                    sc = ";".join(rand_lcall(live) for _ in range(n)).split(";") if n else []
                    sc = sc[:8]
                    c.append("lscript %d %d %s" % (f, u, ";".join(sc) or "-"))
                    for x in sc:
                        w = x.split(":")
                        if w[0] in ("add", "add!") and (int(w[1]), int(w[2])) not in live: live.append((int(w[1]), int(w[2])))
                else:
                    c.append("lsend %d" % rng.choice(EVS + [rng.randrange(1 << 12)]))
            cases.append(c)
        lbad = ["ladd", "ladd 1", "ladd 6 0 1", "ladd 1 2 4294967296", "lrm 1", "lrm 1 2 3", "lrmrec", "lrmrec x", "lrmev", "lsend", "lsend 1 2",
                "lscript 1 1", "lscript 1 1 foo", "lscript 1 1 add:1:1", "lscript 1 1 send", "lscript 1 1 reg:1:1:1", "lscript 1 1 " + ";".join(["rm:1:1"] * 9),
                "lfrob", "ladd! 1 1", "lscript 1 1 rmrec:1:2", "lscript 1 1 ;"]
        for _ in range(10 if quick else 100):
            c = ["ladd 1 1 2", "lscript 1 1 rm:1:1"]
            for _ in range(10):
                c.append(rng.choice(lbad) if rng.random() < 0.7 else "lsend 2")
            cases.append(c)
        return cases

    def classify(self, case):
        kinds = set(l.split()[0] for l in case)
        if case == ["consts"]: return "consts"
        if "enab" in kinds: return "enable"
        if any(k.startswith("l") for k in kinds):
            nested = any("send:" in l for l in case if l.startswith("lscript"))
            return "list2+nested-send" if nested else ("list2+scripts" if "lscript" in kinds else "list2")
        if "ttx" in kinds: return "history+ttx" if "send" in kinds else "ttx"
        if kinds & {"reg!", "add!"}: return "history+oom"
        if any(l.startswith("script") for l in case): return "history+scripts"
        return "history"

    # -----------------------------------------------------------------------------------
    def oracle(self, case, out):
        """the property itself on the output of the real code (no use of the model)"""
        if id(case) in _state["unrun"]:
            self.stats["cases_not_run_after_incident_limit"] = len(_state["unrun"])
            return None
        if len(out) != len(case):
            return "output count %d != ops %d" % (len(out), len(case))
        if any(l.startswith("l") for l in case):
            return self.oracle_l(case, out)
        table, inv = {}, {}
        chain, em, nscripts = [], 0, 0
        freed, cached = set(), set()
        nextid = 0
        leaked = False
        for opi, (op, line) in enumerate(zip(case, out)):
            ws = op.split()
            if line.startswith("rej"):
                if line == "rej deadlock" and leaked and ws[0] in ("send", "ttx"):
                    # the event mutex is held since a registration failed for lack of memory (observation
                    # C11-F1 in NOTES/C11.md). C11 does not quantify over allocation failure: not judged.
                    continue
                if line == "rej deadlock":
                    return "op %d: deadlock without a preceding failed registration" % opi
                continue
            if ws[0] == "consts":
                if line != "ok close=1 ttx=2 caption=4 network=8 trigger=16 aspect=64 proginfo=128 netid=256 localtime=1024 progid=2048":
                    return "event constants changed: " + line
                continue
            if ws[0] == "enab":
                w = self.oracle_enab(int(ws[1], 0), int(ws[2], 0), line)
                if w: return "op %d: %s" % (opi, w)
                self.bump("ev.enable_probes")
                continue
            if ws[0] == "script":
                sc = parse_script(ws[3]) if len(ws) == 4 else None
                if sc is not None and line == "ok" and nscripts < 256:
                    table.setdefault((int(ws[1], 0), int(ws[2], 0)), []).append(sc); nscripts += 1
                continue
            o = parse_out(line)
            if o is None:
                return "op %d: unparsable output %r" % (opi, line)
            top = parse_call(ws) if ws[0] not in ("send", "ttx") else None
            ev = None
            if ws[0] == "send": ev = int(ws[1], 0); self.bump("ev.deliveries")
            if ws[0] == "ttx": ev = TTX; self.bump("ev.ttx_pages")
            pre_chain, pre_em = list(chain), em
            # ---- replay the entries against the records known to be live
            live = {r[0]: list(r) for r in pre_chain}       # id -> [id, fn, user, mask]
            calls = []                                       # (id, fn, user, script)
            pending = None                                   # calls of the running script not yet seen as en/oom
            disabled = set()                                 # ids of pre-chain records named by a disabling call so far
            cur_em = pre_em
            script_queue = [top] if top else []
            ncalls = 0
            for e in o["ents"]:
                if e[0] == "call":
                    if script_queue:
                        return "op %d: script of the previous callback was cut short" % opi
                    _, rid, f, u, t = e
                    if rid < 0: return "op %d: handler (%d,%d) called that matches no live record (wrong user pointer?)" % (opi, f, u)
                    if rid in freed: return "op %d: removed handler record %d called again" % (opi, rid)
                    if rid not in live: return "op %d: call of unknown record %d" % (opi, rid)
                    if [f, u] != live[rid][1:3]: return "op %d: record %d called with (%d,%d), registered as %s" % (opi, rid, f, u, live[rid][1:3])
                    if ev is None: return "op %d: callback outside a delivery" % opi
                    if t != ev: return "op %d: event type %d delivered as %d" % (opi, ev, t)
                    if calls and rid <= calls[-1][0]:
                        return "op %d: record %d called after record %d (twice or out of registration order)" % (opi, rid, calls[-1][0])
                    if live[rid][3] & ev == 0: return "op %d: record %d called for an event outside its mask" % (opi, rid)
                    scs = table.get((f, u), [])
                    k = inv.get((f, u), 0); inv[(f, u)] = k + 1
                    sc = list(scs[k % len(scs)]) if scs and ncalls < CAP else []
                    ncalls += 1
                    calls.append((rid, f, u, sc))
                    script_queue = list(sc)
                    self.bump("ev.callbacks")
                    if rid >= (pre_chain[-1][0] + 1 if pre_chain else 0): self.bump("ev.called_record_added_in_same_delivery")
                elif e[0] == "free":
                    if not script_queue: return "op %d: free outside an API call" % opi
                    if e[1] not in live: return "op %d: free of unknown record %d" % (opi, e[1])
                    if not names(script_queue[0], live[e[1]]) or script_queue[0]["mask"] != 0:
                        return "op %d: record %d freed by a call that does not remove it" % (opi, e[1])
                    if calls:
                        self.bump("ev.free_inside_callback")
                        if e[1] == calls[-1][0]: self.bump("ev.self_removal_in_callback")
                        later = sorted(x for x in live if x > calls[-1][0])
                        if later and e[1] == later[0]: self.bump("ev.removal_of_cursor_target")
                    freed.add(e[1]); del live[e[1]]
                elif e[0] == "alloc":
                    if not script_queue: return "op %d: alloc outside an API call" % opi
                    c = script_queue[0]
                    if e[1] != nextid: return "op %d: record ids not in allocation order" % opi
                    if (e[2], e[3], e[4]) != (c["fn"], c["user"], c["mask"]): return "op %d: new record differs from the call" % opi
                    if any(names(c, r) for r in live.values()) or c["mask"] == 0:
                        return "op %d: record allocated although the handler was registered / mask 0" % opi
                    nextid += 1
                    live[e[1]] = [e[1], e[2], e[3], e[4]]
                    if calls: self.bump("ev.alloc_inside_callback")
                elif e[0] in ("en", "oom"):
                    if not script_queue: return "op %d: more API calls than the script has" % opi
                    c = script_queue.pop(0)
                    named = [r for r in live.values() if names(c, r)]
                    if e[0] == "oom":
                        if not c["oom"] or named or c["mask"] == 0: return "op %d: registration failed without reason" % opi
                        if top is not None and o["lk"] == 1: leaked = True   # outside the property: returned FALSE with the mutex held (NOTES/C11.md, observation C11-F1)
                        continue
                    if c["mask"] == 0 and named: return "op %d: unregistered handler still linked" % opi
                    for r in named:
                        r[3] = c["mask"]
                    for r in pre_chain:
                        if names(c, r) and ev is not None and c["mask"] & ev == 0: disabled.add(r[0])
                    union = 0
                    for r in live.values(): union |= r[3]
                    if e[1] != union: return "op %d: event_mask %#x is not the union %#x of the registered masks" % (opi, e[1], union)
                    if e[2] != enable_flags(cur_em, e[1]):
                        return "op %d: services reset %d, expected %d (event_mask %#x -> %#x)" % (opi, e[2], enable_flags(cur_em, e[1]), cur_em, e[1])
                    cur_em = e[1]
            if script_queue:
                return "op %d: script not run to its end" % opi
            # ---- resulting chain
            exp = sorted(live.values())
            if [list(r) for r in o["chain"]] != exp:
                return "op %d: handler list %s, expected %s" % (opi, o["chain"], exp)
            chain = [tuple(r) for r in o["chain"]]
            ids = [r[0] for r in chain]
            if ids != sorted(set(ids)): return "op %d: handler list not in registration order" % opi
            if len({(r[1], r[2]) for r in chain}) != len(chain): return "op %d: handler registered twice" % opi
            union = 0
            for r in chain: union |= r[3]
            if o["em"] != union: return "op %d: event_mask is not the union of masks" % opi
            em = o["em"]
            if o["cur"] != "-": return "op %d: next_handler left dangling after the op" % opi
            if o["lk"] != (1 if leaked else 0):
                return "op %d: event mutex state %d" % (opi, o["lk"])
            # ---- delivery: everyone registered before the event, matching, and not disabled before its turn
            if ev is not None and (ws[0] == "send" or pre_em & TTX):
                called = [c[0] for c in calls]
                for r in pre_chain:
                    if r[3] & ev and r[0] not in called and r[0] not in disabled:
                        return "op %d: handler record %d (%d,%d) registered for the event was never called" % (opi, r[0], r[1], r[2])
            # ---- Teletext acquisition
            if ws[0] == "ttx":
                p = int(ws[1], 0)
                want = any(r[3] & TTX for r in pre_chain)
                if not want and calls: return "op %d: Teletext event without a Teletext handler" % opi
                if want: cached.add(p)
                if o["acq"] != (1 if p in cached else 0):
                    return "op %d: page %x %s although %s handler requests Teletext pages" % (
                        opi, p, "acquired" if o["acq"] else "not acquired", "a" if want else "no")
        return None


    # -----------------------------------------------------------------------------------
    def oracle_enab(self, old, new, line):
        """vbi_event_enable (vbi, new) with event_mask = old on a decoder full of sentinels: every service whose
        events become requested is in its reset state afterwards (0; prog_info[1].future = TRUE), everything
        else - the other services and the rest of struct vbi_decoder - still holds its sentinel (7)"""
        try:
            kv = {k: int(v) for k, v in (x.split("=") for x in line.split()[1:])}
        except ValueError:
            return "unparsable output %r" % line
        gain = new & ~old & 0xFFFFFFFF
        prog = bool(gain & 0xC0) and not old & 0xC0
        exp = {"em": new,
               "ttx": 0 if gain & 2 else 7, "cc": 0 if gain & 4 else 7,
               "net": 0 if gain & 0x108 else 7, "cyc": 0 if gain & 0x108 else 7, "ann": 0 if gain & 0x108 else 7,
               "trg": 0 if gain & 0x10 else 7,
               "pi0": 0 if prog else 7, "pi1": 0 if prog else 7, "fut0": 0 if prog else 7, "fut1": 1 if prog else 7,
               "asp": 0 if prog else 7, "pid": 0 if gain & 0x800 else 7, "rest": 7}
        what = {"ttx": "Teletext state", "cc": "caption state", "net": "vbi->network", "cyc": "cni_cycle", "ann": "cni_announced",
                "trg": "trigger list", "pi0": "prog_info[0]", "pi1": "prog_info[1]", "fut0": "prog_info[0].future",
                "fut1": "prog_info[1].future", "asp": "aspect_source", "pid": "vps_pid", "rest": "rest of struct vbi_decoder",
                "em": "event_mask"}
        for k in exp:
            if kv.get(k) != exp[k]:
                return "vbi_event_enable(%#x) with event_mask %#x: %s is %s, expected %s (0 reset, 7 untouched)" % (
                    new, old, what[k], kv.get(k), exp[k])
        return None

    # -----------------------------------------------------------------------------------
    def oracle_l(self, case, out):
        """second list (src/event.c): the property on the output of the real code"""
        table, inv, nscripts = {}, {}, 0
        chain = []                 # [id, fn, user, mask, remove]
        reg = {}                   # spec: (fn, user) -> mask, what the API calls so far registered
        nextid = 0
        known = None
        for opi, (op, line) in enumerate(zip(case, out)):
            ws = op.split()
            if line.startswith("rej"):
                continue
            if ws[0] == "lscript":
                sc = parse_lscript(ws[3]) if len(ws) == 4 else None
                if sc is not None and line == "ok" and nscripts < 256:
                    table.setdefault((int(ws[1], 0), int(ws[2], 0)), []).append(sc); nscripts += 1
                continue
            if not ws[0].startswith("l"):
                continue
            o = parse_lout(line)
            if o is None:
                return "lop %d: unparsable output %r" % (opi, line)
            top = parse_lcall([ws[0][1:]] + ws[1:])
            live = {r[0]: list(r) for r in chain}
            revived = set()                     # flagged records named again by add (mask != 0)
            frames = [["script", [top], None]]  # stack: ["script", remaining, current] / ["deliv", d]
            deliv = {}                          # did -> dict(ev, want, called, disabled, sweeping)
            ncalls = 0
            def open_delivs():
                return [f[1] for f in frames if f[0] == "deliv"]
            def disable(rid, why_ev=None):
                for d in open_delivs():
                    D = deliv[d]
                    if why_ev is None or True:
                        D["disabled"].add(rid)
            def pop_done_scripts():
                while frames and frames[-1][0] == "script" and not frames[-1][1]:
                    frames.pop()
            for e in o["ents"]:
                k = e[0]
                if k == "a":
                    pop_done_scripts()
                    if not frames or frames[-1][0] != "script":
                        return "lop %d: API call executed that no script contains" % opi
                    cur = frames[-1][1].pop(0)
                    frames[-1][2] = cur
                    if cur["kind"] == "add":
                        named = [r for r in live.values() if r[1] == cur["fn"] and r[2] == cur["user"]]
                        if cur["mask"] != 0:
                            reg[(cur["fn"], cur["user"])] = cur["mask"]
                            for r in named:
                                r[3] = cur["mask"]
                                if r[4]: revived.add(r[0]); self.bump("evl.readd_of_marked_record")
                                for d in open_delivs():
                                    if cur["mask"] & deliv[d]["ev"] == 0: deliv[d]["disabled"].add(r[0])
                        else:
                            reg.pop((cur["fn"], cur["user"]), None)
                    elif cur["kind"] == "rmev":
                        for key in list(reg):
                            reg[key] &= ~cur["arg"] & 0xFFFFFFFF
                            if reg[key] == 0: del reg[key]
                        for r in live.values():
                            r[3] &= ~cur["arg"] & 0xFFFFFFFF
                            for d in open_delivs():
                                if r[3] & deliv[d]["ev"] == 0: deliv[d]["disabled"].add(r[0])
                    elif cur["kind"] == "rmrec":
                        if cur["arg"] in live:
                            r = live[cur["arg"]]
                            if not r[4] or r[0] in revived:
                                reg.pop((r[1], r[2]), None)
                    continue
                cur = frames[-1][2] if frames and frames[-1][0] == "script" else None
                if k == "s":
                    if cur is None or cur["kind"] != "send" or cur["arg"] != e[2]:
                        return "lop %d: delivery started without a matching send call" % opi
                    want = set(r[0] for r in live.values() if not r[4] and r[3] & e[2])
                    deliv[e[1]] = dict(ev=e[2], want=want, called=[], disabled=set(), sweeping=False)
                    self.bump("evl.deliveries")
                    if open_delivs(): self.bump("evl.nested_deliveries")
                    frames.append(["deliv", e[1]])
                elif k == "call":
                    _, d, rid, f, u, t = e
                    pop_done_scripts()
                    if not frames or frames[-1][0] != "deliv" or frames[-1][1] != d:
                        return "lop %d: callback outside its delivery" % opi
                    D = deliv[d]
                    if D["sweeping"]: return "lop %d: callback after the removed records were freed" % opi
                    if rid < 0 or rid not in live: return "lop %d: handler (%d,%d) called that matches no linked record" % (opi, f, u)
                    r = live[rid]
                    if [f, u] != r[1:3]: return "lop %d: record %d called with (%d,%d), registered as %s" % (opi, rid, f, u, r[1:3])
                    if r[4] and rid not in revived: return "lop %d: removed handler record %d called again" % (opi, rid)
                    if t != D["ev"]: return "lop %d: event type %d delivered as %d" % (opi, D["ev"], t)
                    if D["called"] and rid <= D["called"][-1]:
                        return "lop %d: record %d called after record %d (twice or out of registration order)" % (opi, rid, D["called"][-1])
                    if r[3] & t == 0: return "lop %d: record %d called for an event outside its mask" % (opi, rid)
                    D["called"].append(rid)
                    self.bump("evl.callbacks")
                    scs = table.get((f, u), [])
                    n = inv.get((f, u), 0); inv[(f, u)] = n + 1
                    sc = list(scs[n % len(scs)]) if scs and ncalls < CAP else []
                    ncalls += 1
                    frames.append(["script", sc, None])
                elif k == "r":
                    pop_done_scripts()
                    if not frames or frames[-1][0] != "deliv" or frames[-1][1] != e[1]:
                        return "lop %d: delivery %d returned while a callback script was unfinished" % (opi, e[1])
                    D = deliv[e[1]]
                    for rid in sorted(D["want"]):
                        if rid not in D["called"] and rid not in D["disabled"]:
                            return "lop %d: handler record %d registered for the event was never called" % (opi, rid)
                    frames.pop()
                elif k == "unreg":
                    rid = e[1]
                    if cur is None or rid not in live: return "lop %d: removal of unknown record %d" % (opi, rid)
                    r = live[rid]
                    okc = (cur["kind"] == "add" and cur["mask"] == 0 and r[1] == cur["fn"] and r[2] == cur["user"]) or \
                          (cur["kind"] == "rmrec" and cur["arg"] == rid) or (cur["kind"] == "rmev" and r[3] == 0)
                    if not okc: return "lop %d: record %d removed by a call that does not name it" % (opi, rid)
                    r[4] = 1; revived.discard(rid)
                    if open_delivs(): self.bump("evl.removal_deferred")
                    for d in open_delivs(): deliv[d]["disabled"].add(rid)
                elif k == "free":
                    rid = e[1]
                    if rid not in live: return "lop %d: free of unknown record %d" % (opi, rid)
                    if not live[rid][4]: return "lop %d: record %d freed although it was not removed" % (opi, rid)
                    od = open_delivs()
                    if len(od) > 1: return "lop %d: record freed inside a nested delivery" % opi
                    if od:
                        pop_done_scripts()
                        if frames[-1][0] != "deliv": return "lop %d: record freed while a callback is running" % opi
                        deliv[od[0]]["sweeping"] = True
                    del live[rid]
                elif k == "alloc":
                    _, rid, f, u, m = e
                    if cur is None or cur["kind"] != "add" or (cur["fn"], cur["user"], cur["mask"]) != (f, u, m) or m == 0:
                        return "lop %d: new record differs from the call" % opi
                    if any(r[1] == f and r[2] == u for r in live.values()):
                        return "lop %d: record allocated although the handler is linked" % opi
                    if rid != nextid: return "lop %d: record ids not in allocation order" % opi
                    nextid += 1
                    live[rid] = [rid, f, u, m, 0]
                    for d in open_delivs():
                        if m & deliv[d]["ev"]: deliv[d]["want"].add(rid)
                elif k == "oom":
                    if cur is None or cur["kind"] != "add" or not cur["oom"] or cur["mask"] == 0 or \
                            any(r[1] == cur["fn"] and r[2] == cur["user"] for r in live.values()):
                        return "lop %d: registration failed without reason" % opi
                    reg.pop((cur["fn"], cur["user"]), None)
                else:
                    return "lop %d: unknown entry %r" % (opi, e)
            pop_done_scripts()
            if frames:
                return "lop %d: script or delivery not run to its end" % opi
            exp = sorted(live.values())
            if [r[:4] + [0 if r[0] in revived else r[4]] for r in o["chain"]] != [r[:4] + [0 if r[0] in revived else r[4]] for r in exp]:
                return "lop %d: handler list %s, expected %s" % (opi, o["chain"], exp)
            chain = [list(r) for r in o["chain"]]
            if o["rc"] != 0: return "lop %d: ref_count %d after the operation" % (opi, o["rc"])
            if any(r[4] for r in chain): return "lop %d: record still marked for removal after the operation" % opi
            ids = [r[0] for r in chain]
            if ids != sorted(set(ids)): return "lop %d: handler list not in registration order" % opi
            union = 0
            for r in chain: union |= r[3]
            if union & ~o["em"]: return "lop %d: event_mask %#x lacks bits of registered handlers (%#x)" % (opi, o["em"], union)
            have = {(r[1], r[2]): r[3] for r in chain}
            if have != reg:
                lost = sorted(k2 for k2 in reg if k2 not in have)
                extra = sorted(k2 for k2 in have if k2 not in reg)
                if lost and not extra and all(have.get(k2) == reg[k2] for k2 in have):
                    known = "readd-lost: a handler re-registered from inside a delivery after its removal is dropped when the delivery ends"
                    reg = dict(have)
                else:
                    return "lop %d: registered handlers %s, the calls made so far register %s" % (opi, sorted(have.items()), sorted(reg.items()))
        return known

    def signature(self, case, what):
        if what.startswith("readd-lost"):
            return "evl:readd-lost"
        if what.startswith(("crash of the real code", "hang of the real code")):
            import re
            m = re.search(r"AddressSanitizer: ([\w-]+)|runtime error|Assertion|LeakSanitizer", what)
            return "ev:" + what.split(" ")[0] + (":" + m.group(0) if m else "")
        w = what.split(":")
        import re
        body = ":".join(w[1:]).strip() if len(w) > 1 and w[0].startswith(("op ", "lop ")) else what
        body = re.sub(r"\(.*?\)|\[.*", "", body)
        return "ev:" + re.sub(r"\s+", " ", re.sub(r"0x[0-9a-f]+|\d+", "N", body)).strip()[:70]


if __name__ == "__main__":
    verif.run_check(C11())
