#!/usr/bin/env python3
"""C02 - a transmitted Teletext page is cached and fetched exactly as sent (component `fmt`).

Correspondence: lean/Driver/Fmt.lean (model `Fmt.format`, spec `L1Spec.page .lib`, FLOF `navLinks`)
against harness/fmt_harness.c (real vbi_decode / cache / vbi_fetch_vt_page / vbi_format_vt_page).
Oracle (the property itself, independent of the model of the C code): generated networks are sent
through vbi_decode; after every terminated transmission the fetched page must equal the transmitted
characters mapped through L1Spec with the *standard's* rules (`L1Spec.page .std`, evaluated by the Lean
driver op `specstd`), with the transmitted page/subpage number and FLOF links, and exactly one
TTX_PAGE event per transmission; a wildcard subpage fetch returns the subpage just received.
Round 5: ops `fmtx` / `specx` (page with `x28_designations` and its own extension record: the selection
`x28_designations & 0x11` of teletext.c) and `fetchx` (fetch of a page that received X/28/0 format 1 packets -
sent through vbi_decode by the network generator with C03's independent encoder lib/ttx_util.py)."""
import os, subprocess, sys
sys.path.insert(0, os.path.join(os.path.dirname(os.path.abspath(__file__)), "..", "lib"))
import verif
import fmt_util as F
import ttx_util as TU     # C03's independent sender-side encoders (Hamming 24/18 triplets, X/28 format 1); imported, not edited

G0_SETS = [1, 3, 4, 5, 7, 9, 11]

CELL = 11   # characters per printed cell


def split_cells(s):
    """'row,row,...' -> list of 25 lists of 40 cell strings"""
    rows = s.split(",")
    return [[r[i:i + CELL] for i in range(0, len(r), CELL)] for r in rows]


class C02(verif.Spec):
    prop = "C02"
    comp = "fmt"
    lean_modules = ["ZvbiModel.Props.C02", "ZvbiModel.Props.C02Roundtrip", "ZvbiModel.Props.C02Interleave",
                    "ZvbiModel.Props.C02Serial", "ZvbiModel.Props.C02Chain", "ZvbiModel.Props.C02Std",
                    "ZvbiModel.Props.C02Flof", "ZvbiModel.Props.C02Hdr", "ZvbiModel.Props.C02Sender",
                    "ZvbiModel.Props.C02Own", "ZvbiModel.Props.C02SerialCycle", "ZvbiModel.Props.C02SerialCycleFetch",
                    "ZvbiModel.Props.C02Esc"]
    harness = "fmt_harness"
    harness_link_lib = True
    timeout_per_case = 10.0
    partial_note = ("format_refines_L1Spec is proved for every page, subset and cell against L1Spec with libzvbi's "
                    "held-mosaic reading; against the standard's reset rule it is proved under the hypothesis that no "
                    "held mosaic survives a mode/size change (counterexample proved and replayed: known finding F37). "
                    "page_roundtrip is proved for one transmission in parallel mode with arbitrary benign traffic of the other "
                    "magazines interleaved (Props/C02Interleave: interleaved_page_roundtrip, from any state of a parallel-mode "
                    "network; the four interferences E1-E4 it excludes are proved real and replayed on the C code) and from every "
                    "reachable state for one magazine stream (single_page_roundtrip_reachable; shape invariants reachable_shape); "
                    "serial mode is proved for one transmission terminated by a header of any magazine (Props/C02Serial: "
                    "page_roundtrip_serial, page_roundtrip_serial_fetch); whole cycles of transmissions of one magazine from a fresh "
                    "decoder, with packets of the other seven magazines interleaved, are proved in Props/C02Chain "
                    "(page_roundtrip_cycle, page_roundtrip_chain; the TextPage hypothesis is discharged by the invariant "
                    "text_only_invariant; sender side with the concrete Hamming 8/4 encoder: Props/C02Sender page_roundtrip_sender); "
                    "round 6: whole cycles in MAGAZINE-SERIAL mode over several magazines, every page terminated by the next header of "
                    "any magazine (Props/C02SerialCycle page_roundtrip_cycle_serial, page_roundtrip_cycle_serial_fetch); the page's own "
                    "X/26, X/27, X/28 (not X/28/3), M/29 packets are admitted between its rows in the parallel-mode cycle theorems "
                    "(Item.ownx; Props/C02Own own_aux_keeps_rows, own_x27_links_in_progress) - "
                    "the cache entry carries the FLOF links / X/28 record of the page in progress at termination (page_roundtrip_cycle_links); "
                    "ESC toggle per row and second G0 set designation (Props/C02Esc) - "
                    "not proved: that later packets of the same transmission keep the links an own X/27 filed; own X/26..M/29 packets and the "
                    "link clause inside a SERIAL-mode cycle; Level 2.5/3.5 enhancement, TOP navigation, zap_links, vbi_resolve_link are not modelled.")
    open_statements = ["Zvbi.Props.C02.format_refines_L1Spec_full (false on the unchanged tree: see ..._counterexample)",
                       "Zvbi.Props.C02.page_roundtrip_full (round-1 wording of the sender-side statement; SUPERSEDED: the receiver-side statement "
                       "C02Serial.page_roundtrip_chain_full is now the theorem C02Chain.page_roundtrip_chain, and the sender-side form with a concrete "
                       "Hamming 8/4 / odd-parity encoder is the theorem C02Sender.page_roundtrip_sender. The round-1 def itself stays unproved: its "
                       "`WellFormed.header_ok` does not say that the three digits at `off` ARE the page number, so as worded it does not follow; it also "
                       "asks for the exact sub-code look-up of the last page only, which page_roundtrip_cycle clause 3 gives for every page)",
                       "links_of_last_x27_fetched (not stated as a def; round 6): PROVED: the cache entry of a transmission carries link[] / have_flof / "
                       "x28_designations / extension of the page in progress at the moment its terminating header arrives (C02Own.page_roundtrip_cycle_links, "
                       "clause 5 of C02Chain.PageClaim) and an own X/27/0 files the links as sent (C02Own.own_x27_links_in_progress); MISSING: that the rows / X/26 / "
                       "X/28 / foreign packets following that X/27 in the same transmission keep link[] (AuxKept does not state it; a reachability bound "
                       "6 <= link.length is also needed), and both clauses for the serial-mode cycle (C02SerialCycle has rows only) - judged by the "
                       "network oracle (FLOF links, X/28/0 pages)"]
    assumptions = ["consistent page header across the network (header columns 8-31 equal except the page number)",
                   "regular frame timestamps (40 ms)", "no X/26, M/29 packets (X/28/0 format 1 with page function LOP is sent); no MOT/MIP/TOP pages",
                   "page numbers decimal 100-899, subpages 00-79"]
    trusted_base = ["translate/gen_fmt.py (character tables + enum values through a compiled probe; cross-checked by op `tu`)",
                    "harness/fmt_harness.c + lean/Driver/Fmt.lean (correspondence)",
                    "Fmt/Spec.lean L1Spec: my transcription of EN 300 706 12.2 (text not available offline); "
                    "lib/fmt_util.py sender spec: my reading of EN 300 706 7-9 and of the property text",
                    "Hamm model (shared foundation, C12)"]

    # ------------------------------------------------------------------ Lean spec evaluation
    def __init__(self):
        self._std = {}

    def specstd(self, argstrs):
        """argstrs: list of 'lvl region pgno subno flags national hex' -> fills the cache"""
        todo = [a for a in dict.fromkeys(argstrs) if a not in self._std]
        if not todo:
            return
        inp = "".join("%s %s\n" % ("specstdx" if len(a.split()) == 12 else "specstd", a) for a in todo)
        p = subprocess.run([verif.model_exe(), "fmt"], input=inp.encode(), stdout=subprocess.PIPE, timeout=1800)
        outs = [l for l in p.stdout.decode().split("\n") if l]
        for a, o in zip(todo, outs):
            self._std[a] = o[3:] if o.startswith("ok ") else None

    def std_cells(self, argstr):
        if argstr not in self._std:
            self.specstd([argstr])
        return self._std.get(argstr)

    # ------------------------------------------------------------------ generators
    def gen_direct(self, rng):
        lvl = rng.choice([1, 2])
        region = rng.choice([0, 0, 0, 8, 16, 24, 32, 33, 36, 48, 55, 64, 71, 85, 87, rng.randrange(88)])
        pgno = rng.choice([0x100, 0x899, 0x8FF, 0x1AB, rng.randrange(0x100, 0x900)])
        # (0x80, 0xFF, 0x1A5: bit 7 set - never a transmitted sub-code, but the header shows `subno & 0xff`: mutant N2)
        subno = rng.choice([0, 1, 0x79, 0x3F7F, rng.randrange(0x4000) & 0x3F7F, 0x80, 0xFF, 0x1A5, rng.randrange(0x3F80)])
        flags = subno
        for bit, pr in ((0x80, .2), (0x4000, .15), (0x8000, .15), (0x10000, .15), (0x20000, .2), (0x40000, .1),
                        (0x80000, .1), (0x100000, .4)):
            if rng.random() < pr:
                flags |= bit
        nat = rng.randrange(8)
        rows = F.gen_page_rows(rng)
        raw = []
        bad = rng.random() < 0.3
        for r in rows:
            for c in r:
                b = F.par(c)
                if bad and rng.random() < 0.03:
                    b ^= 0x80
                raw.append(b)
        if rng.random() < 0.05:
            raw = [rng.randrange(256) for _ in range(1000)]
        return "%d %d 0x%x 0x%x 0x%x %d %s" % (lvl, region, pgno, subno, flags, nat, F.hx(raw))

    def gen_directx(self, rng):
        """a page with x28_designations and its own extension record (what X/28/0 format 1 / X/28/4 leave in the cache):
        lvl region pgno subno flags national x28 cs0 cs1 fgclut bgclut hex"""
        w = self.gen_direct(rng).split()
        x28 = rng.choice([0, 1, 0x10, 0x11, 0x02, 0x0E, 0x1F, 0x12, 0x01, 0x10, rng.randrange(0x20), rng.randrange(0x10000)])
        cs = lambda: rng.choice([0, 8, 16, 24, 32, 33, 36, 37, 0x24, 0x25, 0x37, 0x40, 0x47, 0x55, 0x57, rng.randrange(128), rng.randrange(256)])
        fgc = rng.choice([0, 0, 8, 16])
        bgc = rng.choice([0, 0, 8, 16, 24])
        return " ".join(w[:6] + ["0x%x" % x28, str(cs()), str(cs()), str(fgc), str(bgc), w[6]])

    def nav_expect(self, s, cells):
        nav = [(0, 0)] * 6
        nav[5] = (0x100, 0x3F7F)
        if s.have_flof:
            l5 = s.links[5]
            if 0x100 <= l5[0] <= 0x899 and (l5[0] & 0xFF) != 0xFF:
                nav[5] = l5
            for k, colour in enumerate([1, 2, 3, 6]):
                lk = s.links[k]
                if not s.has24:
                    nav[k] = lk
                elif (lk[0] & 0xFF) != 0xFF and any(int(c[4:6], 16) & 7 == colour for c in cells[24]):
                    nav[k] = lk
        return " ".join("%03x:%04x" % l for l in nav)

    def gen_net(self, rng, tier, style="random"):
        """style "random": independent page pools per magazine, random schedule.
        style "carousel": what a real service looks like - the magazines share the same tens/units digits
        (150, 250, 350 ...), the whole set is retransmitted in cycles with changed rows and mostly WITHOUT the
        erase flag, in serial mode usually ordered so that equal digits of different magazines are adjacent."""
        carousel = style == "carousel"
        serial = 1 if rng.random() < (0.7 if carousel else 0.45) else 0
        nmag = rng.choice([2, 2, 3, 4]) if carousel else rng.choice([1, 2, 2, 3, 4, 8])
        inter = style == "interleave"  # the schedule shape of C02Interleave.interleaved_page_roundtrip: 2-4 (or all 8)
        if inter:                      # magazines in parallel mode, strict round robin of single packets, so that between
            serial = 0                 # any two packets of a page there is traffic (headers, rows, X/27, time-filling
            nmag = rng.choice([2, 3, 4, 4, 8])   # headers) of every other magazine still transmitting - all of it benign
        single = style == "single"     # the schedule shape of C02Roundtrip.single_page_roundtrip: one magazine, parallel
        if single:                     # mode, two pages alternating (so a previous version is cached), erase flag on/off,
            serial, nmag = 0, 1        # rows permuted / omitted / sent twice
        mags = rng.sample(range(8), nmag)            # 0 = magazine 8
        region = rng.choice([0, 0, 8, 16, 32, 36, rng.randrange(88)])
        letters = [rng.choice(b"ABCDEFGHIJKLMNOPQRSTUVWXYZ abcdefghijklmnopqrstuvwxyz") for _ in range(24)]
        for _ in range(rng.randrange(4)):
            letters[rng.randrange(24)] = rng.randrange(0x20)
        off = rng.randrange(0, 21)
        pools, plans = {}, {}
        decimal = [a * 16 + b for a in range(10) for b in range(10)]
        shared = rng.sample(decimal, rng.choice([2, 2, 3]))
        for m in mags:
            pages = shared if carousel else rng.sample(decimal, 2 if single else rng.choice([2, 3, 4]))
            pools[m] = [(pg, rng.choice([0, 0, 0, 0, 2] if carousel else [0, 0, 3, 9]), rng.randrange(8)) for pg in pages]   # (page, nsub, national)
        c4p = rng.choice([0.0, 0.1, 0.2]) if carousel else (0.5 if single else 0.3)
        def make_tx(m, last_page, want=None):
            cand = [x for x in pools[m] if x[0] != last_page and (want is None or x[0] == want)]
            page, nsub, nat = rng.choice(cand)
            # nsub 9: rotating subpages whose sub-codes share the low digit (0x02 / 0x12, 0x01 / 0x11 / 0x21): they must be
            # kept apart in the cache (C02Chain.page_roundtrip_cycle clause 4; cache.c mask mutant N5)
            subno = 0 if nsub == 0 else (rng.choice([1, 2, 0x11, 0x12, 0x21]) if nsub == 9 else rng.randrange(1, nsub + 1))
            pgno = (m if m else 8) * 256 + page
            text = list(letters)
            digs = "%03x" % pgno
            for i, ch in enumerate(digs):
                text[off + i] = ord(ch)
            clock = [ord(c) for c in "%02d:%02d:%02d" % (rng.randrange(24), rng.randrange(60), rng.randrange(60))]
            text32 = [F.par(c) for c in text + clock]
            c4 = 1 if rng.random() < c4p else 0
            c5 = 1 if rng.random() < 0.07 else 0
            c6 = 1 if rng.random() < 0.07 else 0
            ctl = (serial << 4) | F.NATIONAL_CTL(nat)
            if rng.random() < 0.07: ctl |= 1
            if rng.random() < 0.3: ctl |= 2
            if rng.random() < 0.05: ctl |= 8
            allrows = F.gen_page_rows(rng)
            k = rng.random()
            if carousel and k < 0.7: which = [r for r in range(1, 25) if rng.random() < 0.25] or [1]
            elif k < 0.5: which = list(range(1, 25))
            elif k < 0.6: which = list(range(1, 24))
            else: which = [r for r in range(1, 25) if rng.random() < 0.6]
            rng.shuffle(which) if rng.random() < (0.9 if single else 0.5) else None
            rows = {r: [F.par(c) for c in allrows[r]] for r in which}
            x27 = None
            if rng.random() < 0.5:
                links = []
                for _ in range(6):
                    lm = rng.randrange(1, 9)
                    lp = 0xFF if rng.random() < 0.25 else rng.randrange(10) * 16 + rng.randrange(10)
                    links.append((lm * 256 + lp, rng.choice([0x3F7F, 0, 1, rng.randrange(0x4000) & 0x3F7F])))
                x27 = (links, rng.choice([0x8, 0xF, 0x0, 0x7]))
            t = F.Transmission(m, page, subno, c4, c5, c6, ctl, text32, rows, which, x27)
            if not single and rng.random() < 0.2:
                # X/28/0 format 1 (page function LOP, parity coding): the page's own character set designation and
                # colour table re-mapping; applies at Level 1 / 1.5 too (teletext.c `x28_designations & 0x11`)
                t.x28 = (rng.choice([0, 8, 16, 0x20, 0x21, 0x24, 0x25, 0x37, 0x40, 0x47, 0x55, 0x57, rng.randrange(128)]),
                         rng.choice([0, 0, 0x24, 0x37, rng.randrange(128)]), rng.randrange(8))
            return t
        streams = {m: [] for m in mags}
        plan = None                                  # serial carousel: the global order of transmissions
        if carousel:
            plan, lastp = [], {m: None for m in mags}
            for cyc in range(rng.choice([2, 2, 3])):
                kind = rng.choice(["digits", "digits", "digits", "mags", "shuffle"])
                if kind == "digits": seq = [(m, d) for d in shared for m in mags]
                elif kind == "mags": seq = [(m, d) for m in mags for d in shared]
                else:
                    seq = [(m, d) for d in shared for m in mags]
                    for _ in range(50):
                        cand = list(seq); rng.shuffle(cand)
                        lp, ok = dict(lastp), True
                        for (m, d) in cand:
                            if lp[m] == d: ok = False; break
                            lp[m] = d
                        if ok: seq = cand; break
                for (m, d) in seq:
                    if lastp[m] == d:
                        continue
                    t = make_tx(m, lastp[m], want=d)
                    lastp[m] = d
                    streams[m].append(t)
                    plan.append(m)
        else:
            ntx = {m: (rng.randrange(4, 8) if single else (rng.randrange(3, 6) if inter else rng.randrange(2, 6 if tier == "quick" else 9)))
                   for m in mags}
            for m in mags:
                last = None
                for _ in range(ntx[m]):
                    t = make_tx(m, last)
                    last = t.page
                    streams[m].append(t)
        # packet units: (mag, kind, payload); a unit list per transmission
        def units(t):
            u = [("hdr", t)]
            body = [("row", t, r) for r in t.row_order]
            if t.x27 is not None:
                body.insert(rng.randrange(len(body) + 1), ("x27", t))
            if t.x28 is not None:
                body.insert(rng.randrange(len(body) + 1), ("x28", t))
            if single and t.row_order and rng.random() < 0.6:
                # a row sent twice: the later packet wins (mergeRows); the earlier one carries other bytes
                r = rng.choice(t.row_order)
                at = next(i for i, x in enumerate(body) if x[0] == "row" and x[2] == r)
                body.insert(rng.randrange(at + 1), ("rowdup", t, r))
            return u + body
        order = []      # sequence of units across magazines
        if serial:
            idx = {m: 0 for m in mags}
            pi = 0
            while any(idx[m] < len(streams[m]) for m in mags):
                if plan is not None:
                    m = plan[pi]; pi += 1
                else:
                    m = rng.choice([m for m in mags if idx[m] < len(streams[m])])
                order += units(streams[m][idx[m]])
                idx[m] += 1
            for m in mags:
                order.append(("fill", m))
        else:
            per = {}
            for m in mags:
                per[m] = []
                for t in streams[m]:
                    per[m] += units(t)
                per[m].append(("fill", m))
            pos = {m: 0 for m in mags}
            while any(pos[m] < len(per[m]) for m in mags):
                if inter:
                    rr = [m for m in mags if pos[m] < len(per[m])]
                    rng.shuffle(rr)
                    for m in rr:
                        order.append(per[m][pos[m]])
                        pos[m] += 1
                    continue
                m = rng.choice([m for m in mags if pos[m] < len(per[m])])
                burst = rng.choice([1, 1, 2, 5, 30])
                order += per[m][pos[m]:pos[m] + burst]
                pos[m] += burst
        # emit ops, tracking the sender spec
        lines, store, open_tx, counts, need = [], {}, {}, {}, []
        def terminate(m):
            t = open_tx.pop(m, None)
            if t is None:
                return
            s = t.apply(store)
            key = (t.pgno, t.subno)
            counts[key] = counts.get(key, 0) + 1
            lines.append("evcount 0x%x 0x%x %d" % (t.pgno, t.subno, counts[key]))
            lvl = rng.choice([1, 2])
            sn = "any" if rng.random() < 0.5 else "0x%x" % t.subno
            lines.append(self.fetch_line(lvl, region, t.pgno, sn, s))
            need.append(self.fetch_args(lvl, region, s))
        for u in order:
            if u[0] == "hdr":
                t = u[1]
                lines.append("pkt " + F.hx(F.header_packet(t.mag, t.page, t.subno, t.c4, t.c5, t.c6, t.ctl, t.text32)))
                terminate(t.mag)
                open_tx[t.mag] = t
            elif u[0] == "row":
                t, r = u[1], u[2]
                lines.append("pkt " + F.hx(F.row_packet(t.mag, r, t.rows[r])))
            elif u[0] == "rowdup":
                t, r = u[1], u[2]
                lines.append("pkt " + F.hx(F.row_packet(t.mag, r, list(reversed(t.rows[r])))))
            elif u[0] == "x27":
                t = u[1]
                lines.append("pkt " + F.hx(F.x27_packet(t.mag, t.x27[0], t.x27[1])))
            elif u[0] == "x28":
                t = u[1]
                lines.append("pkt " + F.hx(TU.x28_format1(t.mag if t.mag else 8, 28, 0, function=0, coding=0, cs0=t.x28[0], cs1=t.x28[1],
                                                        remap=t.x28[2])))
            else:
                m = u[1]
                text32 = [F.par(0x20)] * 32
                lines.append("pkt " + F.hx(F.header_packet(m, 0xFF, 0x3F7F, 0, 0, 0, serial << 4, text32)))
                terminate(m)
        ev = ",".join("%03x.%04x=%d" % (k[0], k[1], counts[k]) for k in sorted(counts)) or "-"
        lines.append("events " + ev)
        keys = sorted(store)
        for key in rng.sample(keys, min(3, len(keys))):
            lvl = rng.choice([1, 2])
            lines.append(self.fetch_line(lvl, region, key[0], "0x%x" % key[1], store[key]))
            need.append(self.fetch_args(lvl, region, store[key]))
        absent = [(m if m else 8) * 256 + 0x98 for m in mags]
        lines.append("fetch 1 %d 0x%x any none" % (region, rng.choice(absent) if all(p[0] != 0x98 for m in mags for p in pools[m]) else 0x8FE))
        return lines, need

    def ext_args(self, s):
        return "" if s.x28 is None else "0x%x %d %d %d %d " % s.x28

    def fetch_args(self, lvl, region, s):
        return "%d %d 0x%x 0x%x 0x%x %d %s%s" % (lvl, region, s.pgno, s.subno, s.flags, s.national, self.ext_args(s), F.hx(s.raw1000()))

    def fetch_line(self, lvl, region, pgno, sn, s):
        links = " ".join("0x%x:0x%x" % (l[0] & 0xFFF, l[1] & 0xFFFF) for l in s.links)
        return "%s %d %d 0x%x %s 0x%x 0x%x 0x%x %d %s%s %d %d %s" % (
            "fetch" if s.x28 is None else "fetchx", lvl, region, pgno, sn, s.pgno, s.subno, s.flags, s.national, self.ext_args(s),
            F.hx(s.raw1000()), s.have_flof, s.has24, links)

    def gen_cases(self, rng, tier):
        quick = tier == "quick"
        cases, need = [], []
        # 1. tables, exhaustive
        c = []
        for s in G0_SETS:
            for n in range(14):
                for ch in range(0x20, 0x80):
                    c.append("tu %d %d %d" % (s, n, ch))
        c += ["tu 2 0 65", "tu 1 14 65", "tu 1 0 31", "tu 1 0 128", "tu x 0 65", "tu 1 0"]
        cases.append(c)
        c = []
        for code in list(range(96)) + [127, 128, 255]:
            for nat in range(8):
                c.append("csd %d %d %d" % (code, (code * 7 + nat) % 96, nat))
        c += ["csd 0 0 8", "csd 256 0 0", "csd a 0 0", "csd 0 0"]
        cases.append(c)
        # 2. direct formatting of arbitrary raw pages: model, lib-spec (correspondence) and std-spec (oracle)
        for _ in range(500 if quick else 4000):
            a = self.gen_direct(rng)
            cases.append(["fmt " + a, "spec " + a])
            need.append(a)
        # 2b. pages with X/28 designations and their own extension record (selection `x28_designations & 0x11`)
        for _ in range(80 if quick else 1000):
            a = self.gen_directx(rng)
            cases.append(["fmtx " + a, "specx " + a])
            need.append(a)
        # 3. networks through the real decoder
        for _ in range(45 if quick else 400):
            lines, nd = self.gen_net(rng, tier)
            cases.append(lines)
            need += nd
        for _ in range(30 if quick else 300):
            lines, nd = self.gen_net(rng, tier, "carousel")
            cases.append(lines)
            need += nd
        for _ in range(20 if quick else 150):
            lines, nd = self.gen_net(rng, tier, "single")
            cases.append(lines)
            need += nd
        for _ in range(20 if quick else 150):
            lines, nd = self.gen_net(rng, tier, "interleave")
            cases.append(lines)
            need += nd
        # 4. malformed op lines
        cases.append(["fmt 1 0 0x100 0 0 0 00", "fmt 3 0 0x100 0 0 0 " + "20" * 1000, "fmt 1 88 0x100 0 0 0 " + "20" * 1000,
                      "fmt 1 0 0x99 0 0 0 " + "20" * 1000, "fmt 1 0 0x100 0 0 8 " + "20" * 1000, "spec 1 0 0x100 0 0 0 zz",
                      "pkt 00", "pkt " + "zz" * 42, "bogus", "fetch 1 0 0x100 any none", "fetch 1 0 0x100", "evcount 1 2",
                      "fetch 1 0 0x100 0 none", "events -",
                      "fmtx 1 0 0x100 0 0 0 1 0 0 0 0 00", "fmtx 1 0 0x100 0 0 0 1 256 0 0 0 " + "20" * 1000,
                      "fmtx 1 0 0x100 0 0 0 1 0 0 33 0 " + "20" * 1000, "fmtx 1 0 0x100 0 0 0 1 0 0 0 " + "20" * 1000,
                      "specx 1 0 0x100 0 0 0 x 0 0 0 0 " + "20" * 1000, "fmtx 1 0 0x100 0 0 0 0x11 36 0 8 24 " + "20" * 1000])
        self.specstd(need)
        return cases

    # ------------------------------------------------------------------ judging
    def classify(self, case):
        if not case:
            return "empty"
        k = case[0].split()[0]
        return "net" if k == "pkt" and any(l.startswith("fetch") for l in case) else k

    def compare_cells(self, got, want):
        """-> None | (kind, detail); kind 'held' = only the known held-mosaic deviation"""
        g, w = split_cells(got), split_cells(want)
        if len(g) != 25 or len(w) != 25:
            return ("shape", "row count")
        diffs = []
        for r in range(25):
            if len(g[r]) != 40 or len(w[r]) != 40:
                return ("shape", "row %d length" % r)
            for c in range(40):
                if g[r][c] != w[r][c]:
                    diffs.append((r, c, g[r][c], w[r][c]))
        if not diffs:
            return None
        for (r, c, a, b) in diffs:
            # known deviation: the standard resets the held mosaic (shows a blank, U+EE20), the library shows a
            # previously captured G1 mosaic; everything except the character must agree
            if not (a[4:] == b[4:] and b[:4] == "ee20" and a[:2] == "ee"):
                return ("cell", "row %d col %d: fetched %s, L1Spec %s" % (r, c, a, b))
        return ("held", "row %d col %d: fetched %s, L1Spec %s" % diffs[0])

    def loss_shape(self, case, out, idx, pgno, subno):
        """describe the transmission of (pgno, subno) that ended before op idx (for the known-finding signature)"""
        inv = {v: i for i, v in enumerate(F.HAM8)}
        hdrs = []          # (op index, mag, pgno, subno, c4, serial)
        for i, op in enumerate(case[:idx]):
            w = op.split()
            if w[0] != "pkt" or len(w) != 2 or len(w[1]) != 84:
                continue
            b = bytes.fromhex(w[1])
            try:
                a = inv[b[0]] | (inv[b[1]] << 4)
                if a >> 3 != 0:
                    continue
                mag = a & 7
                page = inv[b[2]] | (inv[b[3]] << 4)
                sub = inv[b[4]] | ((inv[b[5]] & 7) << 4) | (inv[b[6]] << 8) | ((inv[b[7]] & 3) << 12)
                c4 = inv[b[5]] >> 3
                serial = ((inv[b[8]] | (inv[b[9]] << 4)) >> 4) & 1
            except KeyError:
                continue
            hdrs.append((i, mag, (mag if mag else 8) * 256 + page, sub, c4, serial))
        mine = [k for k, h in enumerate(hdrs) if h[2] == pgno and h[3] == subno]
        if not mine:
            return "no header"
        k = mine[-1]
        h = hdrs[k]
        stored_before = False
        for i, op in enumerate(case[:h[0]]):
            w = op.split()
            if w[0] == "evcount" and int(w[1], 0) == pgno and int(w[2], 0) == subno and out[i] not in ("ok 0",):
                stored_before = True
        c4eff = bool(h[4]) or not stored_before
        nxt_other = k + 1 < len(hdrs) and hdrs[k + 1][1] != h[1]
        return "serial=%d c4=%d first=%d next-header-other-magazine=%d" % (h[5], h[4], not stored_before, nxt_other)

    def oracle(self, case, out):
        if len(out) != len(case):
            return "output count %d != ops %d" % (len(out), len(case))
        held = None
        for idx, (op, o) in enumerate(zip(case, out)):
            w = op.split()
            if ((w[0] == "fmt" and len(w) == 8) or (w[0] == "fmtx" and len(w) == 13)) and o.startswith("ok ") and o != "ok false":
                want = self.std_cells(" ".join(w[1:]))
                if want is None:
                    continue
                d = self.compare_cells(o[3:], want)
                if d and d[0] == "held": held = held or d[1]
                elif d: return "format differs from L1Spec: " + d[1]
            elif ((w[0] == "fmt" and len(w) == 8) or (w[0] == "fmtx" and len(w) == 13)) and o == "ok false":
                return "vbi_format_vt_page refused a LOP page"
            elif w[0] == "evcount" and len(w) == 4 and o.startswith("ok"):
                if o != "ok " + w[3]:
                    if int(o[3:]) == int(w[3]) - 1:
                        return "page lost (%s): %s.%s not stored by the next header of its magazine" % (
                            self.loss_shape(case, out, idx, int(w[1], 0), int(w[2], 0)), w[1], w[2])
                    return "page events: %s.%s expected %s TTX_PAGE events by its termination, got %s" % (w[1], w[2], w[3], o[3:])
            elif w[0] == "events" and len(w) == 2:
                if o != "ok " + w[1]:
                    return "page events: whole-case event list differs from one-per-transmission"
            elif w[0] == "fetch" and len(w) == 6:
                if o != "ok none":
                    return "fetch of a page never sent succeeded"
            elif (w[0] == "fetch" and len(w) == 18) or (w[0] == "fetchx" and len(w) == 23):
                x = 5 if w[0] == "fetchx" else 0            # fetchx: five more tokens (the page's X/28 record) before the hex
                if o == "ok none":
                    return "fetch: terminated page %s/%s is not in the cache" % (w[5], w[6])
                g = o.split()
                if len(g) != 10:
                    return "fetch: malformed harness output"
                if int(g[1], 16) != int(w[5], 0) or int(g[2], 16) != int(w[6], 0):
                    what = "wildcard subpage fetch did not return the subpage just received" if w[4] == "any" else "wrong page returned"
                    return "fetch: %s (%s/%s instead of %s/%s)" % (what, g[1], g[2], w[5], w[6])
                args = " ".join([w[1], w[2]] + w[5:10 + x])
                want = self.std_cells(args)
                if want is None:
                    return "oracle: no spec value"
                d = self.compare_cells(g[3], want)
                if d and d[0] == "held": held = held or d[1]
                elif d: return "fetched page differs from the transmitted one%s: %s" % (" (page with X/28/0)" if x else "", d[1])
                s = F.Stored()
                s.have_flof, s.has24 = int(w[10 + x]), int(w[11 + x])
                s.links = [tuple(int(v, 0) for v in l.split(":")) for l in w[12 + x:18 + x]]
                nav = self.nav_expect(s, split_cells(want))
                if " ".join(g[4:10]) != nav:
                    return "FLOF links: fetched %s expected %s" % (" ".join(g[4:10]), nav)
        if held:
            return "held mosaic not reset: " + held
        return None

    def signature(self, case, what):
        return what.split(":")[0]


if __name__ == "__main__":
    verif.run_check(C02())
