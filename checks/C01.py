#!/usr/bin/env python3
"""C01 - the service decoder survives every input: no crash, abort, hang, bad access or leak.

Lean side: Props/C01.lean collects the safety obligations proved on the component models (index bounds, cursor
invariants, termination of the page walk, reference counting) - see DESIGN.md section 7 "C01"; Props/C01Enh.lean adds
the Level 2.5 / TOP obligations (add_modulo range, reads within cache_page_size, object page references balanced) on
facts regenerated from the source by translate/gen_c01.py; Props/C01Trig.lean the trigger parsers, the deferred trigger
list and the caption ITV separator (model Trig/Model.lean, extents and code forms from translate/gen_trig.py).
Implementation side: the whole decoder behind its public API, built with ASan+UBSan (and a second build with
-fsanitize=bounds and an allow-list for the flat walks over two-dimensional arrays), driven by structured Teletext /
caption / XDS / ITV / VPS / WSS streams interleaved with fetch, classify, title, link resolution, export, rendering and
search; every op must return, every case ends with `delete` and the heap must be back to its initial level.
Second stream (extra_checks, `_trig_stage`): src/trigger.c is #included by harness/trig_harness.c and driven with
grammar-based, near-miss and malformed trigger strings in exact-size heap blocks, list histories and caption ITV text;
the same ops run through `zvbi_model trig`; outputs are diffed (a fault predicted by the model must be the sanitizer
report of the real code and vice versa) and the real code's outputs are judged by lib/trig_util.judge."""
import os, re, subprocess, sys
sys.path.insert(0, os.path.join(os.path.dirname(os.path.abspath(__file__)), "..", "lib"))
import verif, decgen, trig_util, nav_util, c01lang_gen
import ttxenc as T

# flat walks over a whole 2-D member array (never leave the array object): not findings (DESIGN.md 4b)
BOUNDS_ALLOW = [
    r"teletext\.c:\d+:\d+: runtime error: index \d+ out of bounds for type 'uint8_t \[40\]'",
    r"teletext\.c:\d+:\d+: runtime error: index \d+ out of bounds for type 'vbi_pgno \[8\]'",   # drcs_link[0][8..15]
    r"packet\.c:\d+:\d+: runtime error: index \d+ out of bounds for type 'vbi_pgno \[8\]'",
    r"packet\.c:\d+:\d+: runtime error: index \d+ out of bounds for type 'uint8_t \[40\]'",
    r"packet\.c:\d+:\d+: runtime error: index \d+ out of bounds for type 'ttx_pop_link \[8\]'",  # pop_link[0][4..15] via (packet-19)*4
]

# address-of expressions `acp = &pg->text[row * EXT_COLUMNS]` in teletext.c enhance(): for an object invoked near the bottom
# of the page (invocation row + origin modifier + active row >= 26) the row pointer is FORMED past pg->text[] but never
# dereferenced - enhance_flush() returns first (`if (row >= ROWS) return;`), the font-style loop tests `row < ROWS`.
# Recognised by the source text of the reported line (not by line number); any access through such an index is reported.
ADDR_ONLY = r"^\s*(es\.)?acp\s*=\s*&pg->text\[[^;=]*\];\s*$"


def _addr_only(report):
    m = re.search(r"(teletext\.c):(\d+):\d+: runtime error: index \d+ out of bounds for type 'vbi_char \[\d+\]'", report)
    if not m:
        return False
    try:
        line = open(os.path.join(verif.REPO, "src", m.group(1))).read().split("\n")[int(m.group(2)) - 1]
    except (OSError, IndexError):
        return False
    return re.match(ADDR_ONLY, line) is not None


class C01(verif.Spec):
    prop = "C01"
    comp = "dec"
    lean_modules = ["ZvbiModel.Props.C01", "ZvbiModel.Props.C01Ttx", "ZvbiModel.Props.C01Enh", "ZvbiModel.Props.C01Seq", "ZvbiModel.Props.C01Cells", "ZvbiModel.Props.C01Nav", "ZvbiModel.Props.C01Trig", "ZvbiModel.Props.C01Lang", "ZvbiModel.Props.C01Link", "ZvbiModel.Props.C01Gfx"]
    harness = "dec_harness"
    timeout_per_case = 20.0
    partial_note = ("proved: the enumerated safety obligations on the component models (Props/C01.lean recursion bound, "
                    "Props/C01Ttx.lean index bounds of the packet decoder, Props/C01Enh.lean: add_modulo / TOP navigation page "
                    "numbers in range, vbi_convert_page and the page formatter read inside cache_page_size, every cache page "
                    "reference taken by object invocation released on every path, POP pointer / triplet index bounds; Props/C01Seq.lean: "
                    "every X/26 store into enh_lop.enh[] at an index 0..207 for every packet history (sequence test and -1 sentinel "
                    "regenerated), every row of the TOP index page below ROWS for any number of titles (type of the line counter "
                    "regenerated); Props/C01Cells.lean: the address machine of enhance() / enhance_flush() over arbitrary triplets, objects of any "
                    "nesting, starting position, level and header-only mode - every index into pg->text[], lop.raw[][], drcs_s1[], pg->drcs[], "
                    "vbi_font_descriptors[], enh[], pop.triplet[] and every stored colour in range, flush loops and nesting terminate; post_enhance, "
                    "Level 1 double height copy, character_set_designation in range; column_41 in range iff its body loops stop at row 23 "
                    "(counterexample + known finding C01-column41-navrow on the unchanged tree); all guards / masks / loop bounds regenerated by "
                    "translate/gen_c01cells.py; "
                    "Props/C01Nav.lean: the Level 1 character loop of vbi_format_vt_page for every page content and display_rows (every index into "
                    "lop.raw[0][], buf[], pg->text[], pg->font[], page_opacity[], the arguments of vbi_teletext_unicode and its table index), keyword() and "
                    "zap_links() for every row content (buffer[43], link[43], ld.url[256]; scans stop at the sentinels), flof_navigation_bar, flof_links, "
                    "top_label, top_index cell / nav_link[] / nav_index[] stores in range, all numbers regenerated by translate/gen_c01nav.py; zap_links stores an "
                    "uninitialised link flag for trailing OVER_TOP cells (counterexample theorem, determinism oracle, known finding "
                    "C01-zap-links-uninit-link; positive theorem for the repaired shape); "
                    "Props/C01Trig.lean: trigger.c parsers never access memory outside the caller's string / url[] / buf[] / name[] / "
                    "script[] for any byte string, terminate within strlen + 2 iterations, accept a checksum attribute only when it "
                    "verifies, trigger list allocations balanced over all histories, itv_buf index <= 255 - for the source forms "
                    "with fixes/C01-trig-*.diff; on the original forms five counterexample theorems + replays); "
                    "Props/C01Lang.lean: every value stored in ttx_page_stat.charset_code is 0xFF or a valid index of vbi_font_descriptors[] for every history, "
                    "X/28 / M/29 designation and national option, vbi_classify_page / cache_network_get_ttx_page_stat read inside the table (shape of page_language and "
                    "every reader / writer regenerated by translate/gen_c01lang.py; counterexamples for the raw-fallback shape of seeded C01-k); "
                    "Props/C01Link.lean: vbi_resolve_link's buffer loop and both keyword() calls for every row content / column, vbi_resolve_home, vbi_page_title + "
                    "ait_title index bounds and reference balance (translate/gen_c01link.py); "
                    "Props/C01Gfx.lean: the renderer's index arithmetic over page data - DRCS plane `(unicode >> 6) & 0x1F` < 32, every byte draw_drcs reads inside "
                    "drcs.chars[48][60] for glyph < 48 (which enhance() guarantees: tied to Props/C01Cells), every byte draw_char reads inside wstfont2_bits for every "
                    "unicode / italic / size (unicode_wstfont2 < 1536), every pen element and canvas byte of vbi_draw_vt_page_region's cell loop for arbitrary cells, "
                    "vbi_teletext_composed_unicode's table search and its enhance() caller (translate/gen_c01gfx.py); "
                    "sanitizer-exercised only: exporters (html, vtx, png, xpm, ppm: their canvas allocation and row loops; draw_row_indexed has only the cell theorem), "
                    "the caption renderer (ccfont2), exp-txt.c print_char / vbi_print_page_region, ure.c regex engine, conv.c/iconv, "
                    "the attribute VALUES merged by enhance_flush (addresses are proved), DRCS look-up references and pg->drcs[] lifetime (F6), "
                    "the label TEXT of the TOP navigation bar (cell positions / keyword are proved), MIP/MPT parsers beyond their index bounds, the Teletext trigger page path of "
                    "packet.c (eacem_trigger: only its extent is a theorem)")
    assumptions = ["malloc does not fail", "callers pass buffers / canvases of the documented size"]
    trusted_base = ["harness/dec_harness.c + lean/Driver/Dec.lean (every well-formed op must return `ok`)",
                    "ASan/UBSan/LSan of gcc 12 as the judge of memory errors in the exercised runs",
                    "allow-list of flat 2-D array walks and of address-only row pointers in the -fsanitize=bounds build "
                    "(checks/C01.py BOUNDS_ALLOW, ADDR_ONLY)",
                    "translate/gen_c01cells.py (regex extraction of every guard / mask / loop bound of enhance, enhance_flush, enhance_flush_row, "
                    "post_enhance, column_41, the Level 1 double height copy, VALID_CHARACTER_SET; the text between them is matched literally; C probe "
                    "for extents, enum values and the holes of vbi_font_descriptors[]); triplet fields as the two writers of packet.c store them "
                    "(masks regenerated; vbi_unham24p below 2^18 is C12's codec model); the intra-object audit of the bounds build (color_map[] of a "
                    "fetch with n rows = the same fetch with 1 row)",
                    "translate/gen_enh.py, translate/gen_c01.py (regex extraction of guards / release paths / expressions from "
                    "the C text, C probe for the layout; they stop with an error when the text is not recognised)",
                    "int is 32-bit two's complement (add_modulo is evaluated on BitVec 32)",
                    "translate/gen_c01nav.py (statement skeleton digest per function + ordered literal list; C probe that #includes lang.c for table extents / font "
                    "table); harness/nav_harness.c + lean/Driver/Nav.lean + lean/ZvbiModel/Nav/Page.lean (composition) + Fmt/Model.lean (C02's Level 1 model: attribute state "
                    "of the access log); ctype.h / strncasecmp in the C locale; the cached page holds the whole lop struct (Props/C01Enh format_reads_within_size); "
                    "AIT title bytes <= 0x7F because parse_ait stores vbi_unpar8 results into a cleared page",
                    "harness/trig_harness.c + lean/Driver/Trig.lean; translate/gen_trig.py (regex extraction of limits / table counts / "
                    "code forms from trigger.c, caption.c, packet.c plus a digest of the remaining function text; C probe for the "
                    "extents); vbi->time restricted to whole seconds in the trig stream (frame arithmetic then exact); TZ=UTC; "
                    "uninitialised heap modelled as the harness allocator's 0xAA fill",
                    "translate/gen_c01lang.py (whole-body match of page_language against two shapes, regexes for the macro and for every reader / writer of "
                    "ttx_page_stat.charset_code with an occurrence count per file, C probe #including lang.c for the font table); ext->charset_code[0] is never negative "
                    "(unsigned, written by get_bits (7) / a guarded default region)",
                    "translate/gen_c01link.py (skeleton digest + ordered literals of vbi_resolve_link / vbi_resolve_home / ait_title / vbi_page_title, C probe for extents); "
                    "lean/ZvbiModel/Nav/Link.lean follows the pinned skeletons by hand",
                    "translate/gen_c01gfx.py (regex full-match of the draw_drcs case blocks, clip_size, draw_blank, vbi_teletext_composed_unicode, the four DRCS call "
                    "sites, rowstride / row_adv, vbi_is_drcs, the enhance() DRCS unicode formula and composed call; SHA-1 skeleton digest + literal count for "
                    "unicode_wstfont2 and draw_char; gcc probe #including lang.c, wstfont2.xbm, vt.h, cache-priv.h for extents / enum values / composed[]); the reading of "
                    "each recognised loop shape in lean/ZvbiModel/Gfx/Model.lean is hand-written and not differentially checked (no driver / harness for this stage)"]
    open_statements = ["whole-library memory safety for all inputs (only the enumerated obligations are theorems)",
                       "vbi_resolve_link row-24 branch: `0 <= pg->nav_index[column] < 6` is a hypothesis of resolve_link_entry_in_range (proved: flof_navigation_bar, "
                       "flof_links and top_label store only such values - nav_index_values_in_range; not proved: a set link flag in row 24 implies one of these stores "
                       "ran for that column; the TOP index page 0x900 runs zap_links on row 24 without touching nav_index[], safe by reading because top_index leaves "
                       "row 24 blank); the pointer `&pg->text[row * EXT_COLUMNS]` formed for any caller row before the guards is not dereferenced (proved), the pointer "
                       "arithmetic itself is outside the model",
                       "ait_title: that font[0] is a font vbi_teletext_unicode handles is taken from Props/C01Nav format_fonts_valid / C01Cells charset_designation_in_range, "
                       "not re-proved; the TEXT written to buf is not specified; vbi_resolve_link / vbi_resolve_home / vbi_page_title have no correspondence stream of their "
                       "own (model pinned by skeleton digest + literals, translate/gen_c01link.py; exercised under ASan by the `resolve` / `title` ops of the dec stream)",
                       "TOP navigation in the nav correspondence stream (top_label / top_navigation_bar cell positions and nav stores are theorems; the "
                       "executable comparison covers Level 1 + zap_links + FLOF only - the nav harness still fabricates no BTT / AIT cache pages; TOP bars are exercised by "
                       "the dec stream under ASan)",
                       "renderer (Props/C01Gfx): draw_row_indexed (exporters, PAL8 pen[128]) has no row / page-level theorem and the exporters' canvas allocation and XPM / PNG row "
                       "loops are not modelled (the cell theorem applies with canvas_type = 1); the caption renderer (draw_char with ccfont2) and exp-txt.c print_char / "
                       "vbi_print_page_region are not modelled; `drcs_clut_offs + 15 < 64` is a hypothesis on the vbi_page (no library code stores the field; a caller-built "
                       "page with drcs_clut_offs >= 49 reads pen[64]: drcs_pen_offset_counterexample); the OVER_TOP / OVER_BOTTOM and underline skips are not modelled (the model "
                       "logs a superset of the reads); no correspondence stream for the Gfx model (translator-pinned shapes only)",
                       "attribute VALUES of the Level 1 loop (C02 owns their round trip); termination of the Level 1 row loop is structural (row strictly "
                       "increases below display_rows <= 25; the access theorem holds for every iteration bound)",
                       "trigger round trip for all well-formed triggers (sender = lib/trig_util.Trig; checked by the oracle on "
                       "generated triggers, not a theorem)"]

    def gen_cases(self, rng, tier):
        n = 600 if tier == "quick" else 6000
        cases = []
        decgen.CELL_REACH.clear()
        for i in range(n):
            kind = rng.choice(["ttx", "ttx", "cc", "cc", "mixed", "noise", "l25", "l25", "l25", "top", "top", "l25top"])
            ops = []
            if kind in ("l25", "top", "l25top"):
                # structured Level 2.5 / 3.5 and TOP networks (lib/decgen.py L25, TopNet)
                cases.append(decgen.enh_case(rng, kind) + ["delete"])
                self._kind[hash("\n".join(cases[-1]))] = kind
                continue
            net = decgen.Net(rng)
            t = 0
            if kind in ("ttx", "mixed"):
                for _ in range(rng.randrange(1, 5)):
                    pk = net.transmission(rng.randrange(2, 10))
                    if rng.random() < 0.3:
                        pk = [decgen.noise(rng, p, rng.choice([0.005, 0.02, 0.1])) for p in pk]
                    lines = [(T.SL_TTX, rng.choice([7, 8, 9, 20, 21, 320, 335, 0]), p) for p in pk]
                    if kind == "mixed":
                        extra = []
                        for f, a, b in decgen.cc_stream(rng, len(lines) // 4):
                            extra.append((T.SL_CC625 if rng.random() < 0.5 else T.SL_CC525, 21 if f == 1 else 284, [a, b]))
                        for _ in range(rng.randrange(0, 6)):
                            extra.append((T.SL_VPS, 16, [rng.randrange(256) for _ in range(13)] if rng.random() < 0.5
                                          else T.vps(rng.randrange(0x1000), rng.randrange(1 << 20), rng.randrange(4), rng.randrange(256))))
                            extra.append((T.SL_WSS625, 23, T.wss625(rng.randrange(16), rng.randrange(1024))))
                        for e in extra:
                            lines.insert(rng.randrange(len(lines) + 1), e)
                    o, t = decgen.frames_to_ops(rng, lines, t)
                    ops += o
                    for _ in range(rng.randrange(1, 6)):
                        ops += decgen.query_ops(rng, net)
                    if rng.random() < 0.5:
                        ops += decgen.search_ops(rng, net)
                    if rng.random() < 0.1:
                        ops.append("chsw %d" % rng.randrange(3))
                    if rng.random() < 0.1:
                        ops += ["unhandler", "handler %x" % rng.choice([0x2, 0x4, 0xffff, 0x0, 0x100])]
            elif kind == "cc":
                pairs = []
                for _ in range(rng.randrange(2, 12)):
                    k = rng.random()
                    if k < 0.25: pairs += decgen.cc_stream(rng, rng.randrange(5, 80))
                    elif k < 0.55: pairs += decgen.cc_script(rng, rng.randrange(1, 6))
                    elif k < 0.8: pairs += decgen.xds_packet(rng)
                    else: pairs += decgen.itv_text(rng)
                lines = [(T.SL_CC525, 21 if f == 1 else 284, [a, b]) for f, a, b in pairs]
                o, t = decgen.frames_to_ops(rng, lines, t, dt=33367, per_frame=(1, 2))
                # interleave caption fetches
                for j in range(0, len(o), max(1, len(o) // 6)):
                    pass
                ops += o
                for _ in range(rng.randrange(1, 8)):
                    ops.append("fetchcc %d" % rng.randrange(0, 10))
                    ops.append(rng.choice(["render 32 1 1", "print 1 2000", "export text -1", "export html -1", "region 32 0 0 34 15", "resolve"]))
            else:
                lines = []
                for _ in range(rng.randrange(20, 200)):
                    sid = rng.choice([T.SL_TTX, T.SL_TTX, T.SL_CC525, T.SL_CC625, T.SL_VPS, T.SL_WSS625, 0x1000, 0xffffffff, 0x80000000, 1 << rng.randrange(32)])
                    lines.append((sid, rng.choice([0, 7, 16, 21, 23, 284, 335, 1000, 0x7fffffff]), [rng.randrange(256) for _ in range(rng.choice([0, 2, 13, 42, 56]))]))
                o, t = decgen.frames_to_ops(rng, lines, t)
                ops += o
                for _ in range(rng.randrange(0, 5)):
                    ops += decgen.query_ops(rng, net)
            ops.append("delete")
            cases.append(ops)
        # round "C01lang": subtitle pages (BTT / MIP) whose X/28 / M/29 designate undefined character sets (88 .. 127, holes), then
        # classify (lib/c01lang_gen.py).  Appended, with a generator of its own: the cases above stay what they were.
        import random as _r
        r3 = _r.Random(repr(rng.getstate()[1][:16]))     # a function of the seed; does not consume from the main stream
        for i in range(40 if tier == "quick" else 400):
            c = c01lang_gen.gen_case(r3) + ["delete"]
            cases.append(c)
            self._kind[hash("\n".join(c))] = "subtitle-language"
        return cases

    _kind = {}

    def classify(self, case):
        has = lambda p: any(l.startswith(p) for l in case)
        k = self._kind.get(hash("\n".join(case)))
        if k:
            return "structured-" + k + ("+search" if has("search") else "")
        return ("ttx" if any(l.startswith("l 3 ") for l in case) else "other") + ("+cc" if has("l 60 ") or has("l 18 ") else "") + \
               ("+search" if has("search") else "") + ("+export" if has("export") else "")

    def oracle(self, case, impl_out):
        if len(impl_out) != len(case):
            return "harness did not answer every op (%d of %d)" % (len(impl_out), len(case))
        for op, o in zip(case, impl_out):
            if o.startswith("ok leak"):
                return "memory not released at delete: " + o
            if op == "delete" and o != "ok freed":
                return "delete: " + o
        return None

    def signature(self, case, what):
        if what.startswith("store behind vbi_page.text["):
            return what[:160]            # exact: which element, which member (known_findings.C01.json C01-column41-navrow)
        return re.sub(r"\d+", "N", what)[:160]

    TRIG_OPS = ("eacem", "atvef", "itv", "time", "tick", "nuid", "flush", "extents")

    def _is_trig(self, case):
        return bool(case) and case[0].split()[0] in self.TRIG_OPS

    def extra_checks(self, ctx):
        self.extra_coverage = {}
        if ctx.get("replay"):
            c = ctx["cases"][0] if ctx["cases"] else []
            if nav_util.is_nav(c):
                return self._nav_stage(ctx, [c])
            return self._trig_stage(ctx, [c]) if self._is_trig(c) else self._bounds_stage(ctx)
        return self._bounds_stage(ctx) + self._trig_stage(ctx, None) + self._nav_stage(ctx, None)

    def _nav_stage(self, ctx, only):
        """formatter / navigation: Lean model (Fmt.Model Level 1 loop with display_rows, Nav.Model zap_links / keyword / FLOF) against
        vbi_format_vt_page of the real code on fabricated pages (harness/nav_harness.c ~ `zvbi_model nav`, lib/nav_util.py)"""
        out, cov = nav_util.nav_stage(ctx, prop=self.prop, only=only)
        # determinism oracle (the property itself, independent of the model): the formatted page must be a function of the
        # cached page and the arguments - the same `nav` op after `dirty 0` and after `dirty 255` (harness op: fills the stack
        # region the next call uses) must print the same page.  A difference = an automatic variable read before it was written.
        import random as _r
        ops = []
        if only is not None:
            ops = [l for c in only for l in c if l.startswith("nav ")]
        else:
            for f, lines in verif.corpus_cases(self.prop):
                if nav_util.is_nav(lines):
                    ops += [l for l in lines if l.startswith("nav ")]
            r2 = _r.Random(ctx["rng"].random())
            for _ in range(40 if ctx["tier"] == "quick" else 400):
                ops += [l for l in nav_util.gen_case(r2) if l.startswith("nav ")][:1]
        exe, err = verif.build_harness("nav_harness")
        differ, first = 0, None
        if exe is not None and ops:
            a, ia = verif.run_side([exe], [["dirty 0", o] for o in ops], 5.0)
            b, ib = verif.run_side([exe], [["dirty 255", o] for o in ops], 5.0)
            for i, o in enumerate(ops):
                x, y = a.get(i, []), b.get(i, [])
                if len(x) == 2 and len(y) == 2 and x[1] != y[1]:
                    differ += 1
                    if first is None or len(o) < len(first):
                        first = o
        cov["determinism_oracle"] = {"ops": len(ops), "pages_depending_on_stack_content": differ}
        if first is not None:
            out.append(("nav: zap_links stores an indeterminate link attribute: the link bit of a trailing OVER_TOP / OVER_BOTTOM "
                        "cell follows the previous content of the stack (link[] is read at an element no iteration wrote)", [first]))
        self.extra_coverage["nav"] = cov
        return out

    def _trig_stage(self, ctx, only):
        """trigger.c: correspondence model ~ real code on the trig stream + oracle (lib/trig_util.judge)"""
        import time as _t
        t0 = _t.time()
        exe, err = verif.build_harness("trig_harness")
        if exe is None:
            return [("trig harness build failed: " + err[-400:], [])]
        tier, rng = ctx["tier"], ctx["rng"]
        cases, expects, kinds = [], [], []
        if only is not None:
            cases, expects, kinds = list(only), [None] * len(only), ["replay"] * len(only)
        else:
            for f, lines in verif.corpus_cases(self.prop):
                if self._is_trig(lines):
                    cases.append(lines); expects.append(None); kinds.append("corpus:" + f)
            for _ in range(1200 if tier == "quick" else 20000):
                ops, exp, kind = trig_util.gen_case(rng)
                cases.append(ops); expects.append(exp); kinds.append(kind)
        mout, minc = verif.run_side(ctx["mcmd"][:1] + ["trig"], cases, 5.0)
        out = []
        for x in minc[:3]:
            out.append(("trig: model driver %s" % x["kind"], cases[x["case"]]))
        # a fault the model predicts is a crash of the real code: confirm each predicted fault kind on the real code a few
        # times (all corpus cases, 4 generated ones per kind), the others are not run (a crash costs a process start)
        run_idx, skipped, seen = [], 0, {}
        for i, c in enumerate(cases):
            f = next((l for l in mout.get(i, []) if l.startswith("fault")), None)
            if f and not kinds[i].startswith(("corpus", "replay")):
                seen[f] = seen.get(f, 0) + 1
                if seen[f] > 4:
                    skipped += 1
                    continue
            run_idx.append(i)
        sub = [cases[i] for i in run_idx]
        iout, iinc = verif.run_side([exe], sub, 5.0)
        inc = {x["case"]: x for x in iinc}
        validated = disagreements = oracle_runs = roundtrips = 0
        hist, faults = {}, {}
        SAN = {"oob": "buffer-overflow", "uaf": "heap-use-after-free", "ovf": "signed integer overflow"}
        for j, i in enumerate(run_idx):
            c, m, o = cases[i], mout.get(i, []), iout.get(j, [])
            k = kinds[i].split(":")[0]
            hist[k] = hist.get(k, 0) + 1
            f = next((n for n, l in enumerate(m) if l.startswith("fault")), None)
            if j in inc:
                det = inc[j]["detail"]
                sm = verif.summarize_san(det)
                kd = re.search(r"heap-use-after-free|heap-buffer-overflow|stack-buffer-overflow|global-buffer-overflow|"
                               r"signed integer overflow|SEGV|Assertion|LeakSanitizer", sm)
                fn = re.search(r" in (\w+ \([\w.-]+\))$", sm)
                what = "trig: %s of the real code: %s in %s [model: %s]" % (
                    inc[j]["kind"], kd.group(0) if kd else sm[:80], fn.group(1) if fn else "?",
                    m[f][6:] if f is not None else "no fault predicted")
                out.append((what, c))
                if f is None or o[:f] != m[:f] or len(o) != f or SAN.get(m[f].split()[1], "?") not in det:
                    disagreements += 1
                    out.append(("trig correspondence model~code: the model does not predict this fault (model: %s)"
                                % (m[f] if f is not None else "no fault"), c))
                else:
                    validated += 1
                    faults[m[f]] = faults.get(m[f], 0) + 1
                continue
            if f is not None:
                disagreements += 1
                out.append(("trig correspondence model~code: the model predicts `%s`, the real code ran on" % m[f], c))
                continue
            d = verif.first_diff(o, m)
            if d is not None:
                disagreements += 1
                if disagreements <= 5:
                    out.append(("trig correspondence model~code: op#%d impl `%s` model `%s`" % (d[0], d[1][:120], d[2][:120]), c))
                continue
            validated += 1
            oracle_runs += 1
            if expects[i]:
                roundtrips += len(expects[i])
            w = trig_util.judge(c, o, expects[i])
            if w:
                out.append((w, c))
        self.extra_coverage["trig"] = {
            "cases": len(cases), "run_on_real_code": len(sub), "skipped_repeated_predicted_fault": skipped,
            "traces_validated_against_impl": validated, "correspondence_disagreements": disagreements,
            "oracle_runs": oracle_runs, "round_trip_expectations_checked": roundtrips, "input_distribution": hist,
            "model_predicted_faults_confirmed_by_sanitizer": faults, "wall_s": round(_t.time() - t0, 1)}
        # one violation per signature is enough
        uniq, res = set(), []
        for w, c in out:
            sg = self.signature(c, w)
            if sg not in uniq:
                uniq.add(sg)
                res.append((w, c))
        return res

    def _bounds_stage(self, ctx):
        """second build: -fsanitize=bounds (recoverable), same cases' first part; any report outside the allow-list"""
        out = []
        # bounds-strict (gcc): plain -fsanitize=bounds does not instrument `&array[index]` handed to memset / memcpy, which
        # is how an intra-object store in front of enh_lop.enh[] (seeded C01-i) would go unseen by ASan and by `bounds`
        flags = ["-O1", "-g", "-fsanitize=bounds-strict", "-fsanitize-recover=bounds-strict", "-fno-omit-frame-pointer"]
        # the same build counts which Level 2.5 / TOP paths the cases reach (harness -DDEC_STATS, see dec_harness.c)
        exe, err = verif.build_harness("dec_harness", flags=flags, tag="bounds",
                                       extra=["-DDEC_STATS", "-Wl,--wrap=vbi_convert_page", "-Wl,--wrap=_vbi_cache_get_page"])
        if exe is None:
            return [("bounds build failed: " + err[-300:], [])]
        cases = ctx["cases"][: (1000 if ctx["tier"] == "quick" else 8000)]
        text = verif.flatten(cases)
        try:
            p = subprocess.run([exe], input=text.encode(), stdout=subprocess.PIPE, stderr=subprocess.PIPE, timeout=600)
        except subprocess.TimeoutExpired:
            return []
        rep, where, cur = set(), {}, None
        for line in p.stderr.decode("utf-8", "replace").split("\n"):
            if line.startswith("DECCASE "):
                cur = int(line.split()[1]) if line.split()[1].isdigit() else None
            if "runtime error: index" in line and not any(re.search(a, line) for a in BOUNDS_ALLOW) and not _addr_only(line):
                r = re.sub(r"^.*/src/", "", line.strip())
                rep.add(r)
                if cur is not None and 0 <= cur < len(cases) and (r not in where or len(cases[cur]) < len(where[r])):
                    where[r] = cases[cur]          # the shortest case showing the report becomes its replay
        # intra-object audit of the harness (DEC_STATS build): vbi_page.color_map[] after a fetch with n > 1 rows differs from
        # the same fetch with 1 row = something stored behind text[] (dec_harness.c, `DECINTRA`)
        intra, cur = {}, None
        for line in p.stderr.decode("utf-8", "replace").split("\n"):
            if line.startswith("DECCASE "):
                cur = int(line.split()[1]) if line.split()[1].isdigit() else None
            m = re.match(r"DECINTRA vbi_page\.color_map\[(\d+)\] .*store behind text\[(\d+)\] \(text\[(\d+)\]\)", line)
            if m:
                w = "store behind vbi_page.text[%s]: text[%s] (= color_map[%s]) changed by a fetch with more than one row" % (m.group(2), m.group(3), m.group(1))
                ent = intra.setdefault(w, [0, None])
                ent[0] += 1
                if cur is not None and 0 <= cur < len(cases) and (ent[1] is None or len(cases[cur]) < len(ent[1])):
                    ent[1] = cases[cur]
        for w, (n, c) in sorted(intra.items()):
            out.append((w, c or []))
        self.extra_coverage.update({"bounds_build_cases": len(cases), "bounds_reports_outside_allowlist": sorted(rep),
                                    "intra_object_audit": {"fetches_flagged": {w: n for w, (n, c) in intra.items()},
                                                           "what": "color_map[] of every fetch with > 1 rows compared with the same fetch at 1 row (bounds build)"}})
        self.extra_coverage["cell_corner_reach"] = dict(sorted(decgen.CELL_REACH.items()))
        self.extra_coverage["cell_corner_reach_legend"] = (
            "structured Level 2.5 cases (lib/decgen.py L25) whose LOP carries the corner AND which fetch that page at Level 2.5 / 3.5 "
            "(counted per case by the generator: what it placed where; `fetch_*` = fetches of such pages by rows / level)")
        st = re.findall(r"^DECSTATS (.*)$", p.stderr.decode("utf-8", "replace"), flags=re.M)
        reach = {}
        for line in st:                      # one line per harness process (the run is one process unless a case crashed)
            for kv in line.split():
                k, v = kv.split("=")
                reach[k] = reach.get(k, 0) + int(v)
        # per case, from the op lines: what the generator aimed at
        def count(pred): return sum(1 for c in cases if pred(c))
        reach["cases_with_level25_fetch"] = count(lambda c: any(re.match(r"fetch \w+ \w+ [23] ", l) for l in c))
        reach["cases_with_top_index_fetch"] = count(lambda c: any(l.startswith("fetch 900 ") for l in c))
        reach["cases_with_nav25_fetch"] = count(lambda c: any(re.match(r"fetch \w+ \w+ \d 25 1", l) for l in c))
        self.extra_coverage["level25_top_reach"] = reach
        self.extra_coverage["level25_top_reach_legend"] = (
            "totals over all cases, counted inside the -fsanitize=bounds build: objdrcs_lookup = object / DRCS page look-ups by "
            "enhance() (resolve_obj_address, DRCS invocation), by result (miss / pop / drcs / unknown = needs conversion / other); "
            "conv_* = vbi_convert_page(cached) calls from teletext.c by target, *_plain = source cached at the plain LOP size; "
            "ait_* = AIT look-ups by top_label / next_ait / vbi_page_title; nav_top = fetches with navigation, 25 rows and TOP "
            "known, nav_top_no_block_below = of these, no block/group page at or below the page (the scan wraps below 0x100); "
            "top_index = successful fetches of page 900")
        for r in sorted(rep)[:3]:
            out.append(("array index out of bounds: " + r, where.get(r, [])))
        return out


if __name__ == "__main__":
    verif.run_check(C01())
