#!/usr/bin/env python3
"""C01 - the service decoder survives every input: no crash, abort, hang, bad access or leak.

Lean side: Props/C01.lean collects the safety obligations proved on the component models (index bounds, cursor
invariants, termination of the page walk, reference counting) - see DESIGN.md section 7 "C01".
Implementation side: the whole decoder behind its public API, built with ASan+UBSan (and a second build with
-fsanitize=bounds and an allow-list for the flat walks over two-dimensional arrays), driven by structured Teletext /
caption / XDS / ITV / VPS / WSS streams interleaved with fetch, classify, title, link resolution, export, rendering and
search; every op must return, every case ends with `delete` and the heap must be back to its initial level."""
import os, re, subprocess, sys
sys.path.insert(0, os.path.join(os.path.dirname(os.path.abspath(__file__)), "..", "lib"))
import verif, decgen
import ttxenc as T

# flat walks over a whole 2-D member array (never leave the array object): not findings (DESIGN.md 4b)
BOUNDS_ALLOW = [
    r"teletext\.c:\d+:\d+: runtime error: index \d+ out of bounds for type 'uint8_t \[40\]'",
    r"teletext\.c:\d+:\d+: runtime error: index \d+ out of bounds for type 'vbi_pgno \[8\]'",   # drcs_link[0][8..15]
    r"packet\.c:\d+:\d+: runtime error: index \d+ out of bounds for type 'vbi_pgno \[8\]'",
    r"packet\.c:\d+:\d+: runtime error: index \d+ out of bounds for type 'uint8_t \[40\]'",
    r"packet\.c:\d+:\d+: runtime error: index \d+ out of bounds for type 'ttx_pop_link \[8\]'",  # pop_link[0][4..15] via (packet-19)*4
]


class C01(verif.Spec):
    prop = "C01"
    comp = "dec"
    lean_modules = ["ZvbiModel.Props.C01", "ZvbiModel.Props.C01Ttx"]
    harness = "dec_harness"
    timeout_per_case = 20.0
    partial_note = ("proved: the enumerated safety obligations on the component models (see Props/C01.lean); "
                    "sanitizer-exercised only: exporters (html, vtx, png, xpm, ppm), ure.c regex engine, conv.c/iconv, "
                    "Level 2.5/3.5 attribute merging in teletext.c enhance(), trigger.c parsing, TOP/MIP/MOT parsers beyond "
                    "their index bounds")
    assumptions = ["malloc does not fail", "callers pass buffers / canvases of the documented size"]
    trusted_base = ["harness/dec_harness.c + lean/Driver/Dec.lean (every well-formed op must return `ok`)",
                    "ASan/UBSan/LSan of gcc 12 as the judge of memory errors in the exercised runs",
                    "allow-list of flat 2-D array walks in the -fsanitize=bounds build (checks/C01.py BOUNDS_ALLOW)"]
    open_statements = ["whole-library memory safety for all inputs (only the enumerated obligations are theorems)"]

    def gen_cases(self, rng, tier):
        n = 90 if tier == "quick" else 2000
        cases = []
        for i in range(n):
            kind = rng.choice(["ttx", "ttx", "ttx", "cc", "cc", "mixed", "noise"])
            ops = []
            net = decgen.Net(rng)
            t = 0
            if kind in ("ttx", "mixed"):
                for _ in range(rng.randrange(1, 5)):
                    pk = net.transmission(rng.randrange(2, 10))
                    if rng.random() < 0.3:
                        pk = [decgen.noise(rng, p, rng.choice([0.005, 0.02, 0.1])) for p in pk]
                    lines = [(T.SL_TTX, rng.choice([7, 8, 9, 20, 21, 320, 335, 0]), p) for p in pk]
                    if kind == "mixed":
                        extra = []
                        for f, a, b in decgen.cc_stream(rng, len(lines) // 4):
                            extra.append((T.SL_CC625 if rng.random() < 0.5 else T.SL_CC525, 21 if f == 1 else 284, [a, b]))
                        for _ in range(rng.randrange(0, 6)):
                            extra.append((T.SL_VPS, 16, [rng.randrange(256) for _ in range(13)] if rng.random() < 0.5
                                          else T.vps(rng.randrange(0x1000), rng.randrange(1 << 20), rng.randrange(4), rng.randrange(256))))
                            extra.append((T.SL_WSS625, 23, T.wss625(rng.randrange(16), rng.randrange(1024))))
                        for e in extra:
                            lines.insert(rng.randrange(len(lines) + 1), e)
                    o, t = decgen.frames_to_ops(rng, lines, t)
                    ops += o
                    for _ in range(rng.randrange(1, 6)):
                        ops += decgen.query_ops(rng, net)
                    if rng.random() < 0.5:
                        ops += decgen.search_ops(rng, net)
                    if rng.random() < 0.1:
                        ops.append("chsw %d" % rng.randrange(3))
                    if rng.random() < 0.1:
                        ops += ["unhandler", "handler %x" % rng.choice([0x2, 0x4, 0xffff, 0x0, 0x100])]
            elif kind == "cc":
                pairs = []
                for _ in range(rng.randrange(2, 12)):
                    k = rng.random()
                    if k < 0.25: pairs += decgen.cc_stream(rng, rng.randrange(5, 80))
                    elif k < 0.55: pairs += decgen.cc_script(rng, rng.randrange(1, 6))
                    elif k < 0.8: pairs += decgen.xds_packet(rng)
                    else: pairs += decgen.itv_text(rng)
                lines = [(T.SL_CC525, 21 if f == 1 else 284, [a, b]) for f, a, b in pairs]
                o, t = decgen.frames_to_ops(rng, lines, t, dt=33367, per_frame=(1, 2))
                # interleave caption fetches
                for j in range(0, len(o), max(1, len(o) // 6)):
                    pass
                ops += o
                for _ in range(rng.randrange(1, 8)):
                    ops.append("fetchcc %d" % rng.randrange(0, 10))
                    ops.append(rng.choice(["render 32 1 1", "print 1 2000", "export text -1", "export html -1", "region 32 0 0 34 15", "resolve"]))
            else:
                lines = []
                for _ in range(rng.randrange(20, 200)):
                    sid = rng.choice([T.SL_TTX, T.SL_TTX, T.SL_CC525, T.SL_CC625, T.SL_VPS, T.SL_WSS625, 0x1000, 0xffffffff, 0x80000000, 1 << rng.randrange(32)])
                    lines.append((sid, rng.choice([0, 7, 16, 21, 23, 284, 335, 1000, 0x7fffffff]), [rng.randrange(256) for _ in range(rng.choice([0, 2, 13, 42, 56]))]))
                o, t = decgen.frames_to_ops(rng, lines, t)
                ops += o
                for _ in range(rng.randrange(0, 5)):
                    ops += decgen.query_ops(rng, net)
            ops.append("delete")
            cases.append(ops)
        return cases

    def classify(self, case):
        has = lambda p: any(l.startswith(p) for l in case)
        return ("ttx" if any(l.startswith("l 3 ") for l in case) else "other") + ("+cc" if has("l 60 ") or has("l 18 ") else "") + \
               ("+search" if has("search") else "") + ("+export" if has("export") else "")

    def oracle(self, case, impl_out):
        if len(impl_out) != len(case):
            return "harness did not answer every op (%d of %d)" % (len(impl_out), len(case))
        for op, o in zip(case, impl_out):
            if o.startswith("ok leak"):
                return "memory not released at delete: " + o
            if op == "delete" and o != "ok freed":
                return "delete: " + o
        return None

    def signature(self, case, what):
        return re.sub(r"\d+", "N", what)[:160]

    def extra_checks(self, ctx):
        """second build: -fsanitize=bounds (recoverable), same cases' first part; any report outside the allow-list"""
        out = []
        flags = ["-O1", "-g", "-fsanitize=bounds", "-fsanitize-recover=bounds", "-fno-omit-frame-pointer"]
        exe, err = verif.build_harness("dec_harness", flags=flags, tag="bounds")
        if exe is None:
            return [("bounds build failed: " + err[-300:], [])]
        cases = ctx["cases"][: (400 if ctx["tier"] == "quick" else 4000)]
        text = verif.flatten(cases)
        try:
            p = subprocess.run([exe], input=text.encode(), stdout=subprocess.PIPE, stderr=subprocess.PIPE, timeout=600)
        except subprocess.TimeoutExpired:
            return []
        rep = set()
        for line in p.stderr.decode("utf-8", "replace").split("\n"):
            if "runtime error: index" in line and not any(re.search(a, line) for a in BOUNDS_ALLOW):
                rep.add(re.sub(r"^.*/src/", "", line.strip()))
        self.extra_coverage = {"bounds_build_cases": len(cases), "bounds_reports_outside_allowlist": sorted(rep)}
        for r in sorted(rep)[:3]:
            out.append(("array index out of bounds: " + r, []))
        return out


if __name__ == "__main__":
    verif.run_check(C01())
