#!/usr/bin/env python3
"""C17 - search finds exactly the pages containing the pattern, in page order, and ends.

Three parties see every op line:
  * the real code (harness/search_harness.c: vbi_decode -> cache, vbi_search_new / vbi_search_next under a watchdog),
  * the Lean model (lean/Driver/Search.lean over ZvbiModel/Search/Model.lean) - correspondence = line equality,
    including the whole private search context and the page statistics after every step,
  * the oracle below: the property itself.  It knows which pages are cached and what they display (from the
    implementation's `dump` and the formatter pre-pass), builds the searched text per the API documentation (rows
    1..23, enlarged characters count once, rows separated by a newline), decides with Python's `re` which pages match,
    and demands: every call returns; the pages returned in one pass are exactly the matching pages, each once, in
    ascending / descending (page, subpage) order from the start position wrapping once, then NOT_FOUND; the
    highlighted cells are a real occurrence; forward passes report every non-overlapping occurrence.
Two deviations are still classified as known findings (known_findings.C17.json), each by a witness condition: C17-D2
in its 16 bit form (a page number with >= 65536 cached pages, n_subpages wrapped) and - ONLY while translate/gen_search.py
reads the unrepaired statements from /repo's cache.c and search.c - C17-D7 (a pass that starts at a page with sub-code
0x3F7F: search.c puts the forward stop position at (P, 0), the walk starts at the most recently used subpage of P;
subpages of P are not searched in that pass).  Once fixes/C17-turn-3f7f.diff is applied that excuse is off by itself.
Round 5: a third one, C17-D8 (`fwd-continue-bol`): search_page_fwd hands ure_exec flags = 0 when a forward search continues
inside a row, so `^` matches at the cursor; excused only by its exact witness (see Judge.op).  Regular expressions with
`^` / `$` at the row borders (`gen_anchor_case`) are searched by the real code AND by the model (mode `ure` of the `search`
op: the search model over the Lean model of ure.c), so the flags search.c computes for ure_exec are in the correspondence.
The findings D1 (ure restart), D3 (sub-page 0 in the statistics), D4 (start page skipped), D5 (0x3F7F wildcard), D6 (ure
accepting state forgotten) and D2 at 256 pages are repaired in /repo; the oracle has no excuse for them any more: if
one of those behaviours returns it is a VIOLATION.
"""
import json, os, re, sys, hashlib
sys.path.insert(0, os.path.join(os.path.dirname(os.path.abspath(__file__)), "..", "lib"))
import verif
import search_util as S
from search_util import Put, ANY

BLANK = [(0x20, 0)] * 41

# ----------------------------------------------------------------------------------------------------------
# oracle side: text of a page as the API documents it, independent matcher
# ----------------------------------------------------------------------------------------------------------
def haystack(rows):
    """rows: dict y -> 41 (unicode, size).  -> (text, {(y, x): offset})"""
    hay, offs = [], {}
    for y in range(1, 24):
        cells = rows.get(y) or BLANK
        cells = list(cells) + [(0x20, 0)] * (41 - len(cells))
        j = 0
        while j < 40:
            u, sz = cells[j]
            if sz in (1, 3):                       # double width / size: one character, two cells
                offs[(y, j)] = offs[(y, j + 1)] = len(hay)
                hay.append(cells[j + 1][0]); j += 2
            elif sz > 3:                           # continuation cells of enlarged characters
                j += 1
            else:
                offs[(y, j)] = len(hay)
                hay.append(u); j += 1
        hay.append(10)
    return "".join(chr(u) for u in hay), offs

def compile_pat(pat, casefold, regexp):
    try:
        return re.compile(pat if regexp else re.escape(pat), (re.I if casefold else 0) | re.M)
    except re.error:
        return None

def prev_pos(pgno, subno):
    """vbi_search_new documentation: (pgno, subno) is the last page a backward search visits, so the backward pass
    starts just below it"""
    if subno <= 0:
        return (0x8FF if pgno <= 0x100 else pgno - 1, 0x3F7E)
    if subno & 0x7F == 0:
        return (pgno, (subno - 0x100) | 0x7E)
    return (pgno, subno - 1)

class Dump:
    def __init__(self, line):
        t = line.split()
        self.n = int(t[1][2:])
        self.stat, self.chain = {}, {}
        for it in t[2:]:
            p, ns, mn, mx, es = it.split(":")
            p = int(p, 16)
            self.stat[p] = (int(ns), int(mn, 16), int(mx, 16))
            self.chain[p] = [] if es == "-" else [(int(e.split("/")[0], 16), int(e.split("/")[1]), int(e.split("/")[2], 16)) for e in es.split(",")]
    def pages(self):
        """(pgno, subno) -> (func, hash) of the page a look-up returns (first of the chain with that number)"""
        out = {}
        for p, ch in self.chain.items():
            for s, f, h in ch:
                out.setdefault((p, s), (f, h))
        return out

class Pass:
    def __init__(self, d, start, fresh):
        self.dir, self.start, self.fresh = d, start, fresh
        self.hits, self.mutated, self.snapshot = [], False, None
        self.alt_start = None
        self.bol_pages = set()      # pages with a C17-D8 hit in this pass (occurrence count not judged)

KNOWN_CAUSES = ("nsub-wrap", "turn-on-3f7f", "fwd-continue-bol")

def d7_unrepaired():
    """True while /repo has finding C17-D7 (translate/gen_search.py reads the two statements from the source text).
    Repaired, half-applied or unrecognised source: no excuse - a deviation with that shape is a VIOLATION."""
    sys.path.insert(0, os.path.join(verif.VERIF, "translate"))
    import gen_search
    try:
        start_exact, turn_keeps = gen_search.flags(verif.REPO)
    except SystemExit:
        return False
    return not start_exact and not turn_keeps


_ANCHORS = None

def anchors_unrepaired():
    """True while /repo has finding C17-D8 (translate/gen_search.py reads the flags of the two ure_exec calls from
    src/search.c, translate/gen_ure.py the four places of ure_exec).  Repaired (fixes/C17-line-anchors.diff, both files),
    half-applied or unrecognised source: no excuse - `^` matching at the cursor inside a row is a VIOLATION."""
    global _ANCHORS
    if _ANCHORS is None:
        sys.path.insert(0, os.path.join(verif.VERIF, "translate"))
        import gen_search, gen_ure
        try:
            a, u = gen_search.anchors(verif.REPO), gen_ure.flags(verif.REPO)["line_anchors"]
            _ANCHORS = (not a) and (not u)
        except SystemExit:
            _ANCHORS = False
    return _ANCHORS


def anchors_half_applied():
    """-> message when search.c and ure.c disagree about fixes/C17-line-anchors.diff (one file patched, the other not)"""
    sys.path.insert(0, os.path.join(verif.VERIF, "translate"))
    import gen_search, gen_ure
    try:
        a, u = gen_search.anchors(verif.REPO), gen_ure.flags(verif.REPO)["line_anchors"]
    except SystemExit:
        return None             # reported by the translator run
    if a != u:
        return ("half-applied fixes/C17-line-anchors.diff: search.c %s, ure.c %s (search.c's URE_NOTBOL means 'the text begins "
                "inside a row' only to the repaired ure_exec)" % ("repaired" if a else "as found", "repaired" if u else "as found"))
    return None


_STORE_REPAIRED = None


def store_repaired():
    """True when /repo's _vbi_cache_put_page has fixes/C10-put-replaces-all-versions.diff (translate/gen_cache.py recognises
    the text; the Search model follows it through Zvbi.Gen.Cache.putReplacesAllVersions): then no history of stores reaches
    65536 cached pages under one page number (Lean: nowrap_repaired) and the excuse "nsub-wrap" (C17-D2) is void.
    Unrecognised source: no excuse either."""
    global _STORE_REPAIRED
    if _STORE_REPAIRED is None:
        sys.path.insert(0, os.path.join(verif.VERIF, "translate"))
        import gen_cache
        try:
            _STORE_REPAIRED = bool(gen_cache.from_source()[7])
        except SystemExit:
            _STORE_REPAIRED = True
    return _STORE_REPAIRED


class Judge:
    """runs over one case; `problem` = first unexplained discrepancy, `known` = first explained one"""
    def __init__(self):
        self.problem, self.known = None, None
        self.tab = {S.fnv("-"): {}}
        self.dump, self.dirty = None, True
        self.srch, self.cur, self.cur_start = None, None, None
        self.last_hit = None
        self.stats = {"hits": 0, "passes": 0, "notfound": 0}
        self.d7 = d7_unrepaired()
        self.f17 = store_repaired()      # repaired store rule: C17-D2 ("nsub-wrap") is no excuse any more

    def bad(self, what):
        if self.problem is None: self.problem = what
    def explained(self, cause, what):
        if self.known is None: self.known = "%s: %s" % (cause, what)

    # -- cache view ------------------------------------------------------------------------------------
    def texts(self, dump):
        out = {}
        for k, (f, h) in dump.pages().items():
            if f == 0 and h in self.tab:
                out[k] = haystack(self.tab[h])
            elif f == 0:
                out[k] = None
        return out

    def matching(self, dump):
        rx = self.srch["rx"]
        res = {}
        for k, v in self.texts(dump).items():
            if v is None: continue
            res[k] = [m.span() for m in rx.finditer(v[0]) if m.end() > m.start()]
        return res

    def classify_miss(self, k, ps, dump, spans):
        """the excuses left: C17-D2 in its 16 bit form (>= 65536 cached pages under this page number, n_subpages
        wrapped) and C17-D6 (ure_exec drops a match whose attempt went on past an accepting state and died): the
        emulation of today's ure_exec finds nothing on this page's text AND it abandoned an attempt that had passed
        an accepting state.  Nothing else: a miss caused by the statistics window, the start position, the 0x3F7F
        wildcard or the restart rule of ure_exec (all repaired) is a violation."""
        p, s = k
        subs = [e[0] for e in dump.chain.get(p, [])]
        if len(subs) >= 65536 and not self.f17: return "nsub-wrap"
        # C17-D7 (only while translate/gen_search.py finds the unrepaired statements in /repo): the pass starts at a
        # page P.3F7F (direction changed there / stop position left there): search.c and the start look-up of the
        # walk take that sub-code for VBI_ANY_SUBNO - the forward stop position becomes (P, 0) and cuts the other
        # subpages of P off the pass; the walk starts at the most recently used subpage of P instead of P.3F7F.
        # Only subpages of P itself can be lost that way.
        if self.d7 and ps.start[1] == ANY and p == ps.start[0]: return "turn-on-3f7f"
        return None

    @staticmethod
    def expected(keys, start, d):
        if d > 0: return [k for k in keys if k >= start] + [k for k in keys if k < start]
        return [k for k in reversed(keys) if k <= start] + [k for k in reversed(keys) if k > start]

    @staticmethod
    def compare(ps, start, exp, act, complete, optional):
        """pages due in the pass `exp` against pages returned `act` -> [(kind, key, text)]"""
        out = []
        i = j = 0
        while i < len(exp) and j < len(act):
            if exp[i] == act[j]: i += 1; j += 1
            elif exp[i] in optional and i == 0: i += 1
            elif exp[i] not in act[j:]:
                out.append(("missed-page", exp[i], "page %x.%x matches but was not returned (pass dir %+d from %x.%x)" % (exp[i] + (ps.dir,) + tuple(start))))
                i += 1
            else:
                out.append(("wrong-order", None, "page %x.%x returned where %x.%x was due (pass dir %+d from %x.%x)" % (act[j] + exp[i] + (ps.dir,) + tuple(start))))
                return out
        if j < len(act):
            out.append(("extra-page", None, "page %x.%x returned again / beyond the pass (dir %+d from %x.%x)" % (act[j] + (ps.dir,) + tuple(start))))
            return out
        if complete:
            for k in exp[i:]:
                if k in optional and i == 0 and not act: continue
                out.append(("missed-page", k, "page %x.%x matches but was not returned before NOT_FOUND (pass dir %+d from %x.%x)" % (k + (ps.dir,) + tuple(start))))
        return out

    def close_pass(self, complete):
        ps = self.cur
        self.cur = None
        if ps is None or ps.snapshot is None or ps.mutated: return
        self.stats["passes"] += 1
        dump = ps.snapshot
        m = self.matching(dump)
        keys = sorted(k for k in m if m[k])
        exp = self.expected(keys, ps.start, ps.dir)
        act = []
        for k, _ in ps.hits:
            if not act or act[-1] != k: act.append(k)
        optional = set()
        if not ps.fresh and ps.start in exp:
            optional.add(ps.start)     # direction change on a page: whether it is reported again depends on the cursor
        probs = self.compare(ps, ps.start, exp, act, complete, optional)
        if probs and self.d7 and ps.alt_start is not None:
            # C17-D7: a fresh forward pass after the direction was changed on a page P.3F7F starts at (P, 0) in the
            # real code (0x3F7F taken for VBI_ANY_SUBNO); explained only if the pass is exact from THAT position
            if not self.compare(ps, ps.alt_start, self.expected(keys, ps.alt_start, ps.dir), act, complete, set()):
                self.explained("turn-on-3f7f", probs[0][2]); probs = []
        for kind, k, w in probs:
            if kind == "missed-page":
                c = self.classify_miss(k, ps, dump, m)
                if c: self.explained(c, w)
                else: self.bad("missed-page: " + w)
            else:
                self.bad(kind + ": " + w)
        if any(kind != "missed-page" for kind, k, w in probs): return
        # every occurrence of a page is reported by a forward pass
        if complete and ps.fresh and ps.dir > 0:
            for k in act:
                n_act = sum(1 for kk, _ in ps.hits if kk == k)
                if k in m and n_act != len(m[k]) and k not in ps.bol_pages:
                    self.bad("occurrences: page %x.%x: %d occurrences reported, text has %d" % (k + (n_act, len(m[k]))))

    # -- one op -------------------------------------------------------------------------------------------
    def op(self, line, o):
        t = line.split()
        if not t: return
        if o.startswith("rej"):
            return
        if t[0] == "put":
            if o != "ok":
                self.bad("page not stored / displayed as in the pre-pass: " + o[:80]); return
            func = int(t[3], 0)
            rs = t[4] if func == 0 else "-"
            self.tab[S.fnv(rs)] = S.parse_rowspec(rs)
            self.dirty = True
            if self.cur: self.cur.mutated = True
        elif t[0] in ("feed", "chsw"):
            self.dirty = True
            if self.cur: self.cur.mutated = True
        elif t[0] == "dump":
            self.dump, self.dirty = Dump(o), False
        elif t[0] == "search":
            self.close_pass(False)
            self.srch = None
            self.last_hit = None
            if o == "ok null": return
            pgno, subno, cf, rg = int(t[1], 0), int(t[2], 0), int(t[3], 0) != 0, int(t[4], 0) != 0
            raw = bytes.fromhex(t[5]) if t[5] != "-" else b""
            pat = "".join(chr(raw[i] * 256 + raw[i + 1]) for i in range(0, len(raw), 2)).split("\0")[0]
            rx = compile_pat(pat, cf, rg)
            stop0 = (pgno, 0 if subno == ANY else subno)
            stop1 = prev_pos(pgno, subno)
            want = "ok new stop=%d.%d,%d.%d" % (stop0 + stop1)
            if o != want: self.bad("stop-position: vbi_search_new says %s, documentation gives %s" % (o, want))
            if rx is None: return
            self.srch = {"pat": pat, "casefold": cf, "regexp": rg, "rx": rx, "stop0": stop0, "stop1": stop1}
            self.cur_start = None
        elif t[0] == "endsearch":
            self.close_pass(False); self.srch = None
        elif t[0] == "next":
            if self.srch is None: return
            d = 1 if int(t[1], 0) > 0 else -1
            if o.startswith("ok assert") or o.startswith("ok unsupported"):
                self.close_pass(False); return
            if self.cur is None:
                start = self.srch["stop0"] if d > 0 else self.srch["stop1"]
                self.cur = Pass(d, start, True); self.cur_start = start
                if d > 0: self.cur.alt_start = self.srch.get("alt_stop0")
            elif d != self.cur.dir:
                # "two frontiers": the page where the direction changes becomes the stop position of later passes
                self.close_pass(False)
                k0 = self.cur_start
                self.srch["stop0"], self.srch["stop1"] = k0, k0
                self.srch["alt_stop0"] = (k0[0], 0) if k0[1] == ANY else None
                self.cur = Pass(d, k0, False)
            ps = self.cur
            if ps.snapshot is None and not self.dirty: ps.snapshot = self.dump
            if self.dirty: ps.mutated = True
            f = o.split()
            st = int(f[1])
            ctx = dict(x.split("=", 1) for x in f[2:] if "=" in x)
            if st == 1:
                self.stats["hits"] += 1
                p, s = [int(x, 16) for x in ctx["pg"].split(".")]
                k = (p, s)
                self.cur_start = k
                cells = [] if ctx["hl"] == "-" else [tuple(int(v) for v in c.split(".")) for c in ctx["hl"].split(",")]
                if not self.dirty:
                    pg = self.dump.pages().get(k)
                    if pg is None or pg[0] != 0: self.bad("not-cached: returned page %x.%x is not a cached level one page" % k)
                    elif pg[1] in self.tab:
                        text, offs = haystack(self.tab[pg[1]])
                        os_ = sorted({offs[c] for c in cells if c in offs})
                        if not os_ or os_ != list(range(os_[0], os_[-1] + 1)):
                            self.bad("highlight: cells %s of page %x.%x are not one stretch of text" % (ctx["hl"][:40], p, s))
                        elif not self.srch["rx"].fullmatch(text, os_[0], os_[-1] + 1):
                            # C17-D8: search_page_fwd hands ure_exec flags = 0 whatever the column the text starts in
                            # (its `flags` variable follows the END of the haystack): when a forward search continues
                            # on the page of the previous hit, `^` matches at the cursor in the middle of a row.
                            # Witness: forward call, the previous hit (same page) ends exactly where the
                            # stretch begins, the stretch is not at a row start, and it IS a match of the pattern on the
                            # text cut at the cursor (where `^` sees a beginning).  Nothing else is excused.
                            prev = self.last_hit      # the cursor: end of the stretch highlighted last, either direction
                            cut = text[os_[0]:]
                            if (anchors_unrepaired() and ps.dir > 0 and self.srch["regexp"] and "^" in self.srch["pat"] and prev and prev[0] == k and prev[1]
                                    and prev[1][1] == os_[0] and text[os_[0] - 1] != "\n"
                                    and self.srch["rx"].fullmatch(cut, 0, os_[-1] + 1 - os_[0])):
                                self.explained("fwd-continue-bol", "page %x.%x: forward search continued inside a row reports %r at the cursor as a match of a pattern with `^`" % (p, s, text[os_[0]:os_[-1] + 1]))
                                ps.bol_pages.add(k)
                                ps.hits.append((k, (os_[0], os_[-1] + 1)))
                                self.last_hit = (k, (os_[0], os_[-1] + 1))
                                return
                            self.bad("highlight: page %x.%x highlighted %r which is not an occurrence" % (p, s, text[os_[0]:os_[-1] + 1]))
                        else:
                            ps.hits.append((k, (os_[0], os_[-1] + 1)))
                            self.last_hit = (k, (os_[0], os_[-1] + 1))
                            return
                ps.hits.append((k, None))
                self.last_hit = None
            elif st == 0:
                self.stats["notfound"] += 1
                if ctx.get("dir") != "0": self.bad("state: direction not cleared after NOT_FOUND")
                self.close_pass(True)
            elif st == -2:
                if not self.dirty and self.dump.n != 0: self.bad("status: CACHE_EMPTY with %d cached pages" % self.dump.n)
            else:
                self.bad("status: vbi_search_next returned %d" % st)

def judge(case, out):
    j = Judge()
    for line, o in zip(case, out):
        try:
            j.op(line, o)
        except (ValueError, KeyError, IndexError) as ex:
            j.bad("unparsable output %r for op %r (%r)" % (o[:60], line[:40], ex))
    j.close_pass(False)
    return j

# ----------------------------------------------------------------------------------------------------------
# generators
# ----------------------------------------------------------------------------------------------------------
WORDS = ["alpha", "beta", "gamma", "delta", "index", "teletext", "page", "the", "and", "TV", "foo", "bar", "baz", "qux",
         "Wetter", "Sport", "News", "1.5", "100%", "(c)", "a+b", "x*y", "[ok]", "ab", "ba", "aa", "bb", "zz", "12:30", "UEFA",
         "ababa", "aaa", "zzz", "abababab", "xx"]
NEEDLES = ["ab", "news", "Sport", "1.5", "a+b", "(c)", "x", "zz", "WETTER", "100%", "aba", "abab", "tele", "[ok]", "b", "12:3", "aa", "aba"]

def filler(rng, n):
    return " ".join(rng.choice(WORDS) for _ in range(n))

def gen_row(rng, needle, include, overlap):
    """text of one row (<= 40 characters incl. attribute codes)"""
    style = rng.random()
    body = filler(rng, rng.randint(0, 4))
    if overlap:          # the occurrence is preceded by a repetition of its own first character(s)
        k = rng.randint(1, max(1, len(needle) - 1))
        ins = needle[:k] + needle
    elif include:
        ins = rng.choice([needle, needle, needle.upper(), needle.lower(), needle.capitalize()])
    else:
        ins = ""
    words = body.split(" ") if body else []
    words.insert(rng.randint(0, len(words)), ins)
    text = " ".join(w for w in words if w)
    if style < 0.70:
        return (" " * rng.randint(0, 3) + text)[:40]
    if style < 0.78:
        return ("\x0d" + text)[:40]                           # double height
    if style < 0.86:
        return ("\x0e" + " ".join(text))[:40]                 # double width: every character takes two cells
    if style < 0.92:
        return ("\x0f" + " ".join(text))[:40]                 # double size
    if style < 0.96:
        return ("\x17" + text[:10] + "\x07" + text)[:40]      # mosaics, then text again
    return ("\x18" + text)[:40]                               # concealed

def gen_page(rng, pgno, subcode, needle, p_match=0.5, p_overlap=0.04):
    rows = []
    used = set()
    for _ in range(rng.choice([0, 1, 1, 2, 2, 3, 5])):
        y = rng.choice([1, 2, 3, 5, 10, 12, 22, 23, 24]) if rng.random() < 0.5 else rng.randint(1, 24)
        if y in used: continue
        used.add(y)
        r = rng.random()
        rows.append((y, gen_row(rng, needle, r < p_match, r >= 1 - p_overlap)))
    rows.sort()
    return Put(pgno, subcode, rows)

def pick_subcode(rng, pgno):
    bcd = all(((pgno >> (4 * i)) & 15) <= 9 for i in range(3))
    r = rng.random()
    if bcd:
        if r < 0.55: return 0
        if r < 0.85: return rng.randint(1, 9)
        if r < 0.90: return rng.choice([0x10, 0x25, 0x79, 0x0a, 0x7a, 0x1b])
        return rng.choice([0x100, 0x101, 0x1200, 0x2300, 0x2359, 0x2400, 0x3f7f, 0x0059, 0x0160])
    if r < 0.4: return 0
    return rng.choice([1, 2, 0x10, 0x11, 0x1234, 0x3f7e, 0x0100, 0x00ff, 0x2345, rng.randint(0, 0x3F7F) & 0x3F7F])

def pick_pgnos(rng, n, hexy):
    mags = rng.sample(range(1, 9), rng.randint(1, 3))
    out = []
    for _ in range(n):
        m = rng.choice(mags)
        r = rng.random()
        if hexy and r < 0.4:
            pp = rng.choice([0x0a, 0x1f, 0xa2, 0xbc, 0xfe, 0xf0, 0x9a, 0xaa, rng.randint(0, 0xFE)])
            if pp in (0xFD,): pp = 0xFC
        elif r < 0.7:
            pp = rng.choice([0x00, 0x01, 0x02, 0x10, 0x11, 0x50, 0x98, 0x99])
        else:
            pp = rng.randint(0, 9) * 16 + rng.randint(0, 9)
        out.append(m * 0x100 + pp)
    return out

def pick_start(rng, pgnos, puts):
    r = rng.random()
    if pgnos and r < 0.45: p = rng.choice(pgnos)
    elif pgnos and r < 0.65: p = min(0x8FF, max(0x100, rng.choice(pgnos) + rng.choice([-1, 1, -2, 16])))
    elif r < 0.80: p = rng.choice([0x100, 0x8FF, 0x899, 0x800, 0x1FF, 0x101])
    elif r < 0.97: p = rng.randint(0x100, 0x8FF)
    else: p = rng.choice([0xFF, 0x900, 0, -1, 0x1000, 0x901])
    r = rng.random()
    subs = [q.subcode for q in puts if q.pgno == p]
    if r < 0.45: s = ANY
    elif r < 0.60: s = 0
    elif r < 0.75 and subs: s = rng.choice(subs) + rng.choice([0, 0, 1, -1])
    elif r < 0.85: s = rng.choice([0x80, 0x100, 0x180, 0x7F, 0x3F7E, 1, 2])
    elif r < 0.92: s = rng.choice([-1, -2, -128, -0x100])
    else: s = rng.randint(0, 0x3F7F)
    return p, s

def gen_search_case(rng, mode, kind):
    needle = rng.choice(NEEDLES)
    casefold = rng.random() < 0.3
    hexy = kind == "hex" or rng.random() < 0.2
    npages = {"basic": rng.randint(1, 8), "hex": rng.randint(2, 8), "subpages": rng.randint(3, 12), "single": 1,
              "empty": 0, "update": rng.randint(2, 6)}[kind]
    c = []
    hexsub = False
    if kind == "subpages":
        # several subpages of one or two page numbers; one time in three hex page numbers, whose sub-codes are
        # arbitrary 13 bit values - 0x3F7F (= VBI_ANY_SUBNO) and 0x3F7E among them (finding D5, repaired)
        hexsub = rng.random() < 0.34
        if hexsub:
            hexy = True
            base = [rng.choice(range(1, 9)) * 0x100 + rng.choice([0x0a, 0x1f, 0xa2, 0xbc, 0xfe, 0x9a]) for _ in range(2)]
        else:
            base = pick_pgnos(rng, 2, False)
        pgnos = [rng.choice(base) for _ in range(npages)]
    else:
        pgnos = pick_pgnos(rng, npages, hexy)
    if hexy and (hexsub or rng.random() < 0.75):
        for m in sorted({(p >> 8) & 7 for p in pgnos}):
            c.append("feed " + S.mip_packets(m))
    puts = []
    for p in pgnos:
        if kind != "subpages": sc = pick_subcode(rng, p)
        elif hexsub: sc = rng.choice([0x3f7f, 0x3f7f, 0x3f7e, 0, 1, 2, 0x7f, 0x80, 0x100, 0x1234, 0x3f00])
        else: sc = rng.choice([0, 1, 2, 3, 4, 5, 0x10, 0x79, 0x100])
        q = gen_page(rng, p, sc, needle, p_overlap=(0.04 if rng.random() < 0.3 else 0.0))
        puts.append(q); c.append(q)
        if rng.random() < 0.08: c.append("dump")
    c.append("dump")
    p, s = pick_start(rng, pgnos, puts)
    c.append("search 0x%x %s %d 0 %s %s" % (p, ("0x%x" % s) if s >= 0 else str(s), casefold, S.pat_hex(needle), mode) if p >= 0
             else "search %d %d %d 0 %s %s" % (p, s, casefold, S.pat_hex(needle), mode))
    d = rng.choice([1, 1, -1])
    for _ in range(rng.randint(3, 14)):
        r = rng.random()
        if r < 0.10: d = -d
        if kind == "update" and r > 0.75:
            if rng.random() < 0.7 and puts:
                old = rng.choice(puts)
                q = gen_page(rng, old.pgno, old.subcode, needle)          # retransmission with other text
            else:
                np_ = pick_pgnos(rng, 1, hexy)[0]
                q = gen_page(rng, np_, pick_subcode(rng, np_), needle)
            puts.append(q); c.append(q); c.append("dump")
        if kind in ("empty", "update") and r > 0.97:
            c.append("chsw"); c.append("dump")
        c.append("next %d" % (d if rng.random() < 0.9 else rng.choice([2, 7, 0, -3])))
    c += ["dump", "endsearch"]
    return c

def gen_malformed(rng, mode):
    pool = ["next", "next x", "next 1 2", "search 0x100", "search 0x100 0 0 0 zz " + mode, "search 0x100 0 0 0 006 " + mode,
            "search x 0 0 0 0061 " + mode, "search 0x100 0 0 0 - " + mode, "search 0x100 0 0 0 00000061 " + mode,
            "search 0x7001 0 0 0 0061 " + mode, "search 0x100 0x10000 0 0 0061 " + mode, "put 1 2", "put x 0 0 - -",
            "put 0x100 0 0 - 00", "put 0x100 0 0 - zz", "feed zz", "feed 00,11", "feed -", "dump extra", "bogus", "fmt", "chsw 1",
            "endsearch now", "next 1", "dump", "endsearch", "search 0x100 0x3f7f 1 0 00410062 " + mode, "next -1", "next 0",
            "search 0x100 0x80 0 0 0061 " + mode, "search 0x100 0x100 0 0 0061 " + mode, "search 0x8ff -5 0 0 0061 " + mode]
    return [rng.choice(pool) for _ in range(rng.randint(3, 12))]

# ----------------------------------------------------------------------------------------------------------
# patterns with borders / self-overlap (KMP-style worst cases).  A matcher that, after a failed partial match, does not
# retry from every position inside the text the attempt consumed loses an occurrence that begins there: "aab" in
# "aaab", "0080" in "00080", "ababc" in "abababc".  Literal cases go through the model too (its literal matcher
# `exactLit` is proved to be the leftmost substring search: Props/C17.lean `matcher_exact`), regular expression cases
# through the real code and the oracle.  The oracle is the independent matcher (Python re) as for every other case.
# ----------------------------------------------------------------------------------------------------------
BORDER_ALPHAS = ["ab", "abc", "01", "08", "xy", "co", "aB", "nN"]
NEUTRAL = ["..", "--", "zz", "qq", "mm", "::", "=="]          # filler without letters of the pattern alphabets

def border_pattern(rng):
    """-> (pattern, unit, r): pattern = unit^r + tail, the tail breaks the period"""
    al = rng.choice(BORDER_ALPHAS)
    u = "".join(rng.choice(al) for _ in range(rng.choice([1, 1, 2, 2, 3])))
    r = rng.randint(2, 4) if len(u) == 1 else rng.randint(1, 3)
    if len(u) * r < 2: r = 2
    others = [ch for ch in al + "c8z" if ch != u[0]]
    tail = rng.choice(others) + "".join(rng.choice(al) for _ in range(rng.choice([0, 0, 1, 2])))
    return u * r + tail, u, r

def border_text(rng, pat, u, r):
    """the occurrence preceded by 1..k further (partial) repetitions of the period"""
    j = rng.randint(1, max(1, r - 1)) if rng.random() < 0.7 else rng.randint(1, r + 2)
    part = u[rng.randint(0, len(u)):] if rng.random() < 0.3 else ""
    return part + u * j + pat

def random_overlap(rng):
    """random pattern and text over a two / three letter alphabet; the text holds the pattern exactly once or never"""
    al = rng.choice(["ab", "abc", "01", "xy"])
    for _ in range(50):
        pat = "".join(rng.choice(al) for _ in range(rng.randint(3, 6)))
        txt = "".join(rng.choice(al) for _ in range(rng.randint(8, 30)))
        n = len(re.findall("(?=%s)" % re.escape(pat), txt))
        if n == 1 or (n == 0 and rng.random() < 0.15): return pat, txt
    return pat, txt

def place(rng, occ, split_ok=True):
    """rows holding the text `occ`: in the middle of a row, at its start / end (next to the row separator of the
    searched text), or with the leading repetitions at the end of one row and the rest on the next"""
    y = rng.randint(1, 22)
    occ = occ[:36]
    how = rng.random()
    if not split_ok: how *= 0.75
    fill = rng.choice(NEUTRAL)
    if how < 0.45:
        return [(y, (fill + " " + occ + " " + fill)[:40])]
    if how < 0.60:
        return [(y, occ)]
    if how < 0.75:
        return [(y, " " * (40 - len(occ)) + occ)]
    k = rng.randint(1, max(1, len(occ) - 1))
    return [(y, " " * (40 - k) + occ[:k]), (y + 1, occ[k:])]

def recase(rng, t):
    return "".join(ch.upper() if rng.random() < 0.5 else ch.lower() for ch in t)

def gen_border_case(rng, regexp=False):
    """Digit runs stay below 8 characters: the page formatter's link detection (teletext.c keyword(), outside this
    property) overflows an int on longer ones - reported separately.  An occurrence of a regular expression with `.`
    is not split over two rows: ure's `.` also matches the row separator, Python's does not (left open, see NOTES)."""
    for _ in range(20):
        c = gen_border_case1(rng, regexp)
        if not any(re.search(r"\d{8,}", l.rows_text()) for l in c if isinstance(l, Put)): break
    return c

def gen_border_case1(rng, regexp):
    casefold = rng.random() < 0.3
    if regexp:
        tmpl = rng.choice(BORDER_REGEXES)
        pat, txts = tmpl[0], tmpl[1:]
        occ = rng.choice(txts)
        decoys = [t[:-1] for t in txts]
    elif rng.random() < 0.65:
        pat, u, r = border_pattern(rng)
        occ = border_text(rng, pat, u, r)
        decoys = [u * (r + 1), pat[:-1] + u, (u * r)[:-1] + pat[:-1]]
    else:
        pat, occ = random_overlap(rng)
        decoys = [occ[:len(pat) - 1], pat[:-1]]
    if regexp: search_pat = pat
    elif casefold: search_pat = recase(rng, pat)
    else: search_pat = pat
    pgnos = pick_pgnos(rng, rng.randint(1, 4), False)
    special = rng.randrange(len(pgnos))
    c, puts = [], []
    for i, p in enumerate(pgnos):
        if i == special:
            rows = place(rng, recase(rng, occ) if casefold and not regexp else occ, split_ok=not (regexp and "." in pat))
        else:
            r = rng.random()
            if r < 0.35: rows = place(rng, rng.choice(decoys))                    # looks like it, holds no occurrence
            elif r < 0.55: rows = place(rng, pat if not regexp else occ, split_ok=not (regexp and "." in pat))   # a plain occurrence
            else: rows = [(rng.randint(1, 23), filler(rng, rng.randint(0, 3))[:40])]
        rows = sorted(dict(rows).items())
        q = Put(p, rng.choice([0, 0, 0, 1, 2]), rows)
        puts.append(q); c.append(q)
    c.append("dump")
    p, s = pick_start(rng, pgnos, puts)
    if not (0x100 <= p <= 0x8FF): p = 0x100
    c.append("search 0x%x %s %d %d %s %s" % (p, ("0x%x" % s) if s >= 0 else str(s), casefold, 1 if regexp else 0,
                                             S.pat_hex(search_pat), "regex" if regexp else "exact"))
    d = rng.choice([1, 1, -1])
    for _ in range(rng.randint(3, 8)):
        if rng.random() < 0.08: d = -d
        c.append("next %d" % d)
    c += ["dump", "endsearch"]
    return c

# regular expression, then texts that contain a match which begins inside a failed partial match
# (fixed-length alternatives / classes, or `+` where greedy = longest: Python re and a DFA agree on the spans)
BORDER_REGEXES = [("aab", "aaab", "aaaab"), ("0080", "00080"), ("ababc", "abababc", "bababc"), ("a(a|b)c", "aabc", "abac", "aaac"),
                  ("[ab][ab]c", "abac", "aabc"), ("a.ac", "aabac", "abaac"), ("(ab|ba)abc", "ababc abbaabc", "baababc"),
                  ("aa+b", "aacaab", "acaaab"), ("ab(ab)+c", "abcababc", "ababxababc"), ("[01]0[01]8", "01008", "000018"),
                  ("co(co)+a", "cocxcococa"), ("x[xy]y", "xxxy", "xyxyy")]

# ----------------------------------------------------------------------------------------------------------
# regular expressions with the anchors `^` / `$` at row starts / row ends, both directions (round 5; seeded C17-b).
# search.c computes the flags it hands to ure_exec while it builds the haystack: forward URE_NOTBOL when the text begins
# inside a row (continued search), backward URE_NOTEOL when the text is cut inside a row, reset at every row separator,
# and URE_NOTBOL for every repeated ure_exec behind a match.  None of the other families has an anchored pattern, so
# those flags were never observable.  Texts: the word right aligned (ends in column 39 = in front of the row separator),
# at column 0 (behind the separator), in the middle (decoy for an anchored pattern), plain pages.
# Kept OUT of the family, because they run into recorded deviations of ure.c (known_findings.C17ure.json), not into
# search.c: patterns that match the empty string (U6), overlapping symbols (U5), an occurrence ending in column 39 of
# row 23 = end of the text, and two adjacent occurrences at a row end ("zapzap": U8, `$` look-ahead at the end of a cut
# text ignores URE_NOTEOL), enlarged characters (empty lines: U9), more than one occurrence of a `^` pattern per page.
# ----------------------------------------------------------------------------------------------------------
ANCHOR_WORDS = ["zap", "News", "ab", "here", "Sport", "x1", "end"]

def anchor_pattern(rng, w):
    """-> (regexp, where): where = 'eol' / 'bol' / 'both' says at which row border the word has to stand"""
    r = rng.random()
    alt = rng.choice(["qq", "mm", "vv"])
    if r < 0.40: return rng.choice([w + "$", w + "$", "(%s|%s)$" % (w, alt), w[:-1] + "[" + w[-1] + "]$"]), "eol"
    if r < 0.50: return w + " $", "eol-blank"
    if r < 0.85: return rng.choice(["^" + w, "^" + w, "^(%s|%s)" % (alt, w), "^[" + w[0] + "]" + w[1:]]), "bol"
    return "^" + w + " +" + w + "$", "both"

def anchor_row(rng, w, where, hit):
    """one row text of exactly 40 characters; `hit` = the anchored pattern has to match it"""
    fill = rng.choice(NEUTRAL)
    if where == "both":
        if hit: return w + " " * (40 - 2 * len(w)) + w
        return rng.choice([w + " " * (39 - 2 * len(w)) + w + " ", " " + w + " " * (39 - 2 * len(w)) + w])
    if where == "eol-blank":
        if hit: return (fill + " " + w).ljust(40)[:40] if rng.random() < 0.5 else w.ljust(40)
        return (fill + " " + w + " " + fill).ljust(40)[:40]
    if where == "eol":
        if hit: return (rng.choice(["", fill + " ", w + " " + fill + " "]) + w).rjust(40)
        return rng.choice([(w + " " + fill).rjust(40), (" " + w).ljust(40), (w + fill).ljust(40), (fill + " " + w + " ").rjust(40)])
    if hit: return (w + rng.choice(["", " " + fill, fill])).ljust(40)
    return rng.choice([(" " + w).ljust(40), (fill + w).ljust(40), w.rjust(40), (fill + " " + w).rjust(40)])

def gen_anchor_case(rng, mode="regex"):
    w = rng.choice(ANCHOR_WORDS)
    pat, where = anchor_pattern(rng, w)
    casefold = rng.random() < 0.25
    pgnos = sorted(set(pick_pgnos(rng, rng.randint(1, 6), False)))
    rng.shuffle(pgnos)
    c, puts = [], []
    for p in pgnos:
        r = rng.random()
        rows = {}
        if r < 0.50:                         # the page matches: one row (two for `$` patterns now and then)
            ys = rng.sample(range(1, 23), 2 if (where.startswith("eol") and rng.random() < 0.3) else 1)
            for y in ys: rows[y] = anchor_row(rng, w.upper() if casefold and rng.random() < 0.5 else w, where, True)
        elif r < 0.80:                       # the word is there, but not at the row border
            rows[rng.randint(1, 23)] = anchor_row(rng, w, where, False)
        if rng.random() < 0.4:
            y = rng.randint(1, 23)
            if y not in rows: rows[y] = filler(rng, rng.randint(1, 3))[:40]
        q = Put(p, rng.choice([0, 0, 0, 1, 2]), sorted(rows.items()))
        puts.append(q); c.append(q)
    c.append("dump")
    p, s = pick_start(rng, pgnos, puts)
    if not (0x100 <= p <= 0x8FF): p = 0x100
    c.append("search 0x%x %s %d 1 %s %s" % (p, ("0x%x" % s) if s >= 0 else str(s), casefold, S.pat_hex(pat), mode))
    d = rng.choice([1, -1, -1])
    for _ in range(len(pgnos) + rng.randint(2, 5)):
        if rng.random() < 0.05: d = -d
        c.append("next %d" % d)
    c += ["dump", "endsearch"]
    return c

# progress callback that cancels at every k-th invocation, the search resumed by further vbi_search_next calls (seeded C17-g):
# the same cache is searched twice in one case, first without interruption, then with `progress k`; the oracle
# (cancel_oracle) compares the two passes report by report
def gen_cancel_case(rng):
    w = rng.choice(["ab", "tor", "xyx", "Zug"])
    pgnos = sorted(set(pick_pgnos(rng, rng.randint(1, 5), False)))
    c, nocc = [], 0
    for p in pgnos:
        rows = {}
        for y in rng.sample(range(1, 24), rng.randint(0, 3)):
            k = rng.choice([0, 1, 1, 2, 3])
            parts = []
            for _ in range(k):
                parts.append(filler(rng, rng.randint(0, 1))[:6]); parts.append(w)
            txt = " ".join(x for x in parts if x)[:40]
            nocc += txt.count(w)
            if txt: rows[y] = txt
        c.append(Put(p, rng.choice([0, 0, 0, 1, 2]), sorted(rows.items())))
    c.append("dump")
    p = rng.choice(pgnos) if rng.random() < 0.7 else rng.randint(0x100, 0x8FF)
    sub = rng.choice(["0x3f7f", "0", "1"])
    d = rng.choice([1, 1, -1])
    srch = "search 0x%x %s 0 0 %s exact" % (p, sub, S.pat_hex(w))
    n1 = nocc + 3
    k = rng.randint(2, 4)
    n2 = (nocc + len(pgnos) + 4) * 3
    c += [srch] + ["next %d" % d] * n1 + ["endsearch", "progress %d" % k, srch] + ["next %d" % d] * n2 + ["endsearch", "progress 0"]
    return c


def cancel_oracle(case, out):
    """cases of gen_cancel_case (an op `progress k`, k > 0): the pass interrupted by the progress callback and resumed reports
    exactly what the uninterrupted pass on the same cache reports - same pages, same highlighted cells, same order, each once -
    and ends (NOT_FOUND) within the calls given.  Independent of the model."""
    segs, cur, on = [], None, False
    for op, o in zip(case, out):
        t = op.split()
        if t[0] == "progress": on = len(t) == 2 and t[1] not in ("0",)
        elif t[0] == "search": cur = {"prog": on, "rep": [], "end": None}; segs.append(cur)
        elif t[0] == "next" and cur is not None and cur["end"] is None:
            u = o.split()
            if len(u) < 2 or u[0] != "ok": continue
            if u[1] == "1": cur["rep"].append(" ".join(x for x in u[2:4]))
            elif u[1] == "-1": pass                  # VBI_SEARCH_CANCELED: resumed by the next call
            else: cur["end"] = u[1]
        elif t[0] == "endsearch": cur = None
    plain = [g for g in segs if not g["prog"]]
    inter = [g for g in segs if g["prog"]]
    if not plain or not inter: return None
    a, b = plain[0], inter[0]
    if a["end"] is None: return None                  # generator gave too few calls: nothing to compare
    if b["end"] is None:
        # a callback that cancels at every k-th invocation can cancel at the same place of every resumed call (one cached
        # page, k = 2: the start page is examined twice per call, first visit and wrapped visit) - the pass then never
        # ends; no defect.  What was reported until then must be the beginning of the uninterrupted pass.
        if b["rep"] != a["rep"][:len(b["rep"])]:
            return ("cancel-resume: the pass interrupted by the progress callback reports %r, the uninterrupted pass begins %r"
                    % (b["rep"], a["rep"][:len(b["rep"])]))
        return None
    if a["rep"] != b["rep"] or a["end"] != b["end"]:
        i = next((i for i, (x, y) in enumerate(zip(a["rep"], b["rep"])) if x != y), min(len(a["rep"]), len(b["rep"])))
        return ("cancel-resume: the pass interrupted by the progress callback reports %d occurrences (status %s at the end), the "
                "uninterrupted pass %d (%s); first difference at report %d: %s / %s" %
                (len(b["rep"]), b["end"], len(a["rep"]), a["end"], i, (b["rep"] + ["-"])[i] if i < len(b["rep"]) + 1 else "-",
                 (a["rep"] + ["-"])[i] if i < len(a["rep"]) + 1 else "-"))
    return None


# regular expressions: implementation + oracle only (the model takes the matcher as a parameter)
REGEXES = [("a.b", "a+b axb"), ("[0-9]+", "12:30 100%"), ("Sp(ort|iel)", "Sport Spiel"), ("b[ae]r", "bar ber"), ("fo*", "f foo"),
           ("x|zz", "zz"), ("[A-Z][a-z]+", "Wetter"), ("1\\.5", "1.5"), ("t.l.t", "teletext"), ("(ab)+", "abab")]

def gen_regex_case(rng):
    rxp, hint = rng.choice(REGEXES)
    pgnos = pick_pgnos(rng, rng.randint(1, 6), False)
    c = []
    for p in pgnos:
        rows = []
        for y in sorted(rng.sample(range(1, 24), rng.randint(0, 3))):
            words = [rng.choice(WORDS) for _ in range(rng.randint(0, 4))]
            if rng.random() < 0.5: words.insert(rng.randint(0, len(words)), rng.choice(hint.split()))
            rows.append((y, " ".join(words)[:40]))
        c.append(Put(p, rng.choice([0, 0, 1, 2]), rows))
    c.append("dump")
    p, s = pick_start(rng, pgnos, [])
    if not (0x100 <= p <= 0x8FF): p = 0x100
    c.append("search 0x%x %s %d 1 %s regex" % (p, ("0x%x" % s) if s >= 0 else str(s), rng.random() < 0.3, S.pat_hex(rxp)))
    d = rng.choice([1, 1, -1])
    c += ["next %d" % d] * rng.randint(3, 10) + ["dump", "endsearch"]
    return c


class C17(verif.Spec):
    prop = "C17"
    comp = "search"
    lean_modules = ["ZvbiModel.Props.C17", "ZvbiModel.Props.C17Ure", "ZvbiModel.Props.C17Pass", "ZvbiModel.Props.C17PassRev",
                    "ZvbiModel.Props.C17Anchors", "ZvbiModel.Props.C17UreAnchors", "ZvbiModel.Props.C17Cancel"]
    harness = "search_harness"
    timeout_per_case = 8.0
    partial_note = ("the page formatter is a parameter of the model; the regular expression engine ure.c is a parameter of the search "
                    "THEOREMS (ure.c has its own model and theorems, Props/C17Ure; in the correspondence the search model runs over "
                    "it for the anchored regular expressions of mode `ure`, over the proved leftmost-occurrence matcher for literals; "
                    "the oracle judges ure.c against Python re); search_exact is proved for whole FORWARD passes (search_exact_pass: "
                    "over any number of successive calls the pages reported are exactly the matching pages, in pass order, each in "
                    "one block, then NOT_FOUND), whole BACKWARD passes (Props/C17PassRev search_exact_pass_rev) and one direction change, not for "
                    "sequences with several direction changes; the flags search.c hands to ure_exec follow both source shapes of "
                    "fixes/C17-line-anchors.diff (Props/C17Anchors; ure_exec: Props/C17UreAnchors, transition level); every statement about reachable "
                    "caches is stated for both source shapes of _vbi_cache_put_page (translate/gen_cache.py "
                    "putReplacesAllVersions): as found it excludes C17-D2 explicitly (NoWrap: fewer than 65536 cached pages per page "
                    "number), with fixes/C10-put-replaces-all-versions.diff NoWrap is a theorem (nowrap_repaired)")
    assumptions = ["A1 page formatting (vbi_format_vt_page) is a function of the cached page (no Level 2.5 look-ups for the generated pages)",
                   "A2 no cache page is referenced by the application while searching, memory limit (1 GiB) not reached, page type never 'clock page'",
                   "A3 unicode_tolower is the ASCII mapping on the generated alphabet",
                   "A4 start page number given to vbi_search_new lies in 0x100..0x8FF (otherwise cache_network_page_stat asserts)"]
    open_statements = ["Zvbi.Search.search_exact_full for call sequences with TWO OR MORE direction changes and for cache updates "
                       "between calls (proved: whole forward passes Props/C17Pass search_exact_pass, whole backward passes "
                       "Props/C17PassRev search_exact_pass_rev - sound, complete, descending, one block per page, then NOT_FOUND - "
                       "and ONE direction change: search_turn_rev_exact / search_turn_fwd_exact for the context at the turn, "
                       "search_pass_fwd_then_rev / search_pass_rev_then_fwd for a fresh search turned once; after a turn the page "
                       "the cursor stands in is excluded from the completeness part: it is reported again only for occurrences "
                       "in front of / behind the one highlighted last - documented behaviour)",
                       "Zvbi.Ure.execA (ure_exec in the source shape of fixes/C17-line-anchors.diff): whole-run statement 'the "
                       "leftmost match of an anchored pattern is reported, `^` only at line starts, `$` only at line ends' and "
                       "termination / index safety for every DFA (proved at transition level for every DFA / text / flags: "
                       "Props/C17UreAnchors bol_taken_iff_line_start, eol_taken_iff_separator, noteol_switches_lookahead_off; "
                       "kernel-evaluated on the DFAs of `^a` and `a$`; exec_terminates / exec_never_oob of Props/C17Ure are about "
                       "the shape as found, which is what /repo has)",
                       "Zvbi.Props.C17Cancel.cancel_resume_equals_uninterrupted (a pass interrupted by the progress callback and "
                       "resumed reports what the uninterrupted pass reports; modelled - Search/Cancel.lean, compared with the code "
                       "through the op `progress k` - and judged on the real code by cancel_oracle; proved: what the cancel block "
                       "does to the context, cancel_keeps_cursor / cancel_moves_start / cancel_callback_counts)"]
    _a5 = ("A5 NoWrap: fewer than 65536 pages are cached under one page number (C17-D2, uint16_t n_subpages) - an assumption only "
           "while _vbi_cache_put_page has the shape with finding F17 (putReplacesAllVersions = false)")
    _open_walk = ("Zvbi.Search.walk_complete_full false (every cached page visited in every sweep after EVERY store history, source "
                  "shape as found; proved with NoWrap as walk_complete_cached, fails at 65536 pages of one number: C17-D2; "
                  "walk_complete_full true - the repaired shape - is proved: walk_complete_repaired)")
    trusted_base = ["correspondence harness harness/search_harness.c and driver lean/Driver/Search.lean",
                    "Python re as the independent matcher; sender-side packet encoders lib/ttxenc.py",
                    "pre-pass: the displayed text of a transmitted page is asked from vbi_format_vt_page (formatter not modelled)"]

    def __init__(self):
        self._kind = {}
        self._hexe = None
        # which shape of _vbi_cache_put_page the source has (the run has regenerated Generated/CacheLayout.lean by the
        # time the evidence is written; read lazily, see store_repaired)
        if not store_repaired():
            self.assumptions = self.assumptions + [self._a5]
            self.open_statements = self.open_statements + [self._open_walk]

    # -- helpers -------------------------------------------------------------------------------------------
    def hexe(self):
        if self._hexe is None:
            self._hexe, err = verif.build_harness(self.harness)
            if self._hexe is None: raise RuntimeError("harness build failed: " + err[-2000:])
        return self._hexe

    def run_h(self, cases):
        o, inc = verif.run_side([self.hexe()], cases, self.timeout_per_case)
        return o

    def remember(self, case, kind):
        self._kind[hashlib.md5("\n".join(case).encode()).hexdigest()] = kind

    # -- Spec interface ------------------------------------------------------------------------------------
    def gen_cases(self, rng, tier):
        mode = "exact"      # historical token of the `search` op (the model has one literal matcher since 8b7ac93)
        n = 500 if tier == "quick" else 4000
        mix = [("basic", 0.40), ("hex", 0.15), ("subpages", 0.12), ("single", 0.05), ("empty", 0.04), ("update", 0.16), ("malformed", 0.08)]
        raw, kinds = [], []
        for _ in range(n):
            r, acc = rng.random(), 0.0
            for k, w in mix:
                acc += w
                if r < acc: break
            raw.append(gen_malformed(rng, mode) if k == "malformed" else gen_search_case(rng, mode, k))
            kinds.append(k)
        for _ in range(80 if tier == "quick" else 600):       # literal patterns with borders / self-overlap
            raw.append(gen_border_case(rng)); kinds.append("border")
        # regular expressions with `^` / `$` at the row borders, mode `ure`: code, MODEL (search model over the ure.c model:
        # the flags search.c computes for ure_exec are compared) and oracle
        for _ in range(60 if tier == "quick" else 250):
            raw.append(gen_anchor_case(rng, "ure")); kinds.append("anchor")
        # progress callback cancelling at every k-th invocation + resumed calls (seeded C17-g): code, MODEL (Search/Cancel.lean) and oracle
        for _ in range(60 if tier == "quick" else 400):
            raw.append(gen_cancel_case(rng)); kinds.append("cancel")
        cases = S.resolve(raw, self.run_h)
        for c, k in zip(cases, kinds): self.remember(c, k)
        return cases

    def classify(self, case):
        k = self._kind.get(hashlib.md5("\n".join(case).encode()).hexdigest())
        if k: return k
        return "corpus/replay"

    def nontrivial(self, case, impl_out):
        return any(o.startswith("ok 1 ") or o.startswith("ok 0 ") for o in impl_out)

    def oracle(self, case, impl_out):
        if len(impl_out) < len(case):
            return "harness stopped after %d of %d ops" % (len(impl_out), len(case))
        if any(l.startswith("progress ") and l != "progress 0" for l in case):
            # interrupted passes: judged against the uninterrupted pass of the same case (the per-pass oracle `judge` does
            # not know VBI_SEARCH_CANCELED)
            return cancel_oracle(case, impl_out)
        j = judge(case, impl_out)
        return j.problem or j.known

    def signature(self, case, what):
        for c in KNOWN_CAUSES:
            if what.startswith(c + ":"): return "C17:" + c
        if what.startswith("hang") or "WATCHDOG" in what: return "C17:hang"
        return re.sub(r"[0-9a-f]+\.[0-9a-f]+|\d+", "N", what)[:120]

    def extra_checks(self, ctx):
        """regular expressions: real code (harness --regex) + oracle, no model side (ure.c is a parameter of the model;
        in the correspondence both sides answer `ok unsupported` to `next` after a regular expression search)"""
        import ure_stage
        if ctx["replay"] and ure_stage.is_ure_case(ctx["cases"][0]):   # replay dispatch: first token compile / lit / exec
            self.extra_coverage = {"ure": {}}
            return ure_stage.stage(ctx, self.extra_coverage["ure"], only=ctx["cases"])
        rng = ctx["rng"]
        raw = []
        if not ctx["replay"]:
            raw = [gen_regex_case(rng) for _ in range(80 if ctx["tier"] == "quick" else 600)]
            raw += [gen_border_case(rng, regexp=True) for _ in range(40 if ctx["tier"] == "quick" else 300)]
            raw += [gen_anchor_case(rng) for _ in range(40 if ctx["tier"] == "quick" else 150)]
            # replays written for the decoder harness (dec format: `search <pgno-hex> <subno-hex> <cf> <re> <pattern>`),
            # e.g. the regular expressions that crashed / leaked in ure_compile: run them here against a small cache
            for f, lines in verif.corpus_cases(self.prop):
                c = [Put(0x100, 0, [(3, "alpha a|b (c) [ok]")]), Put(0x801, 1, [(5, "beta 1.5 100%")]), "dump"]
                n = 0
                for l in lines:
                    t = l.split()
                    if len(t) == 6 and t[0] == "search":
                        try:
                            c.append("search 0x%x 0x%x %d %d %s regex" % (int(t[1], 16), int(t[2], 16), int(t[3]) != 0, int(t[4]) != 0, t[5]))
                            n += 1
                        except ValueError:
                            pass
                    elif len(t) == 2 and t[0] == "next" and n:
                        c.append(l)
                if n:
                    raw.append(c + ["dump", "endsearch"])
        cases = S.resolve(raw, self.run_h)
        # corpus / replay cases in this harness' own format that contain a regular expression search
        def is_re(l):
            t = l.split()
            return len(t) == 7 and t[0] == "search" and t[4] not in ("0", "0x0")
        cases += [c for c in ctx["cases"] if any(is_re(l) for l in c)]
        if not cases: return []
        outs, inc = verif.run_side(ctx["hcmd"] + ["--regex"], cases, self.timeout_per_case)
        res = []
        half = anchors_half_applied()
        if half:
            res.append((half, []))
        bad = {x["case"] for x in inc}
        for x in inc:
            res.append(("%s of the real code (%s)" % (x["kind"], verif.summarize_san(x["detail"])), cases[x["case"]]))
        nre = 0
        for i, c in enumerate(cases):
            if i in bad: continue
            nre += 1
            w = self.oracle(c, outs.get(i, []))
            if w: res.append((w, c))
        self.extra_coverage = {"regex_cases_oracle_only": nre, "ure": {}}
        return res + ure_stage.stage(ctx, self.extra_coverage["ure"])


if __name__ == "__main__":
    verif.run_check(C17())
