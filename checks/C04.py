#!/usr/bin/env python3
"""C04 - raw VBI decoding recovers every standard signal bit-exactly, on the right line.

Round 2 theorems: lean/ZvbiModel/Props/C04Bits.lean (lemmas Slicer/Bits*.lean, Rawdec/Svc*.lean).
Round 3 theorems: lean/ZvbiModel/Props/C04Hist.lean (Rawdec/Blank*.lean: the per-line prediction state over histories of
decode calls; Rawdec/Window.lean: the CRI search range covers the sampled window; translate/gen_rawdecflags.py).
Model: lean/ZvbiModel/Rawdec/{Model,SliceModel,Spec}.lean (pattern/job bookkeeping of raw_decoder.c and
sampling_par.c as a state machine over add/remove/decode histories; value-level models of the three bit
slicers on an abstract sample sequence).  Theorems: lean/ZvbiModel/Props/C04.lean.
Harness: harness/rawdec_harness.c.  Translator: translate/gen_rawdec.py (which repairs /repo contains).

The waveform link (io-sim's floating point signal satisfies the eye-open hypothesis of
`slice_exact_under_open_eye`) cannot be proved; it is sampled here:
 * `frame` ops: the harness renders the transmitted records with io-sim into an exact-size image and decodes it
   with a persistent decoder (vbi3_raw_decoder_* or the 0.2 vbi_raw_decoder_* API); the model predicts the
   complete result (records, pattern, job list) under the nominal-slicer assumption of Spec.lean;
 * `decode` / `slice` ops: concrete samples (io-sim renderings obtained from the harness in a first pass,
   unmodified / with noise / shifted / garbage); the model runs its own slicer models on them, so slicer
   decisions and the adaptive threshold are compared value by value.
The oracle judges the property itself on the real code's output: exactly the transmitted records, right id,
right line, ascending, nothing for blank lines or services not requested, nothing beyond the count.
"""
import json, os, subprocess, sys
sys.path.insert(0, os.path.join(os.path.dirname(os.path.abspath(__file__)), "..", "lib"))
import verif

FMT = {"YUV420": 1, "YUYV": 2, "YVYU": 3, "UYVY": 4, "VYUY": 5, "RGBA32_LE": 32, "RGBA32_BE": 33,
       "BGRA32_LE": 34, "BGRA32_BE": 35, "RGB24": 36, "BGR24": 37, "RGB16_LE": 38, "RGB16_BE": 39, "BGR16_LE": 40,
       "BGR16_BE": 41, "RGBA15_LE": 42, "RGBA15_BE": 43, "BGRA15_LE": 44, "BGRA15_BE": 45, "ARGB15_LE": 46,
       "ARGB15_BE": 47, "ABGR15_LE": 48, "ABGR15_BE": 49}
FMTS = sorted(FMT.values())
FMT16 = [f for f in FMTS if f >= 38]
BPP = {1: 1, 2: 2, 3: 2, 4: 2, 5: 2, 32: 4, 33: 4, 34: 4, 35: 4, 36: 3, 37: 3}


def bpp_of(f):
    return BPP.get(f, 2)


# service table facts the SENDER needs (written from the standards / io-sim, not read from the decoder):
# id -> (table row index, scanning, payload bytes, field-0 lines, field-1 lines, signal start us, signal end us,
#        minimum sampling rate of the property text, merge class mask)
SVC = {
    0x2000: dict(row=0, scan=625, n=37, l0=(6, 22), l1=(318, 335), t0=10.0, t1=63.0, minrate=13500000, cls=0x2000),
    0x1: dict(row=1, scan=625, n=42, l0=(7, 22), l1=(320, 335), t0=10.1, t1=62.5, minrate=13500000, cls=0x3),
    0x3: dict(row=2, scan=625, n=42, l0=(6, 22), l1=(318, 335), t0=10.1, t1=62.5, minrate=13500000, cls=0x3),
    0x4000: dict(row=3, scan=625, n=33, l0=(6, 22), l1=(318, 335), t0=9.7, t1=61.0, minrate=13500000, cls=0x4000),
    0x8000: dict(row=4, scan=625, n=34, l0=(6, 22), l1=(318, 335), t0=9.6, t1=63.5, minrate=13500000, cls=0x8000),
    0x4: dict(row=5, scan=625, n=13, l0=(16, 16), l1=None, t0=12.3, t1=61.0, minrate=10000000, cls=0x1004),
    0x1000: dict(row=6, scan=625, n=13, l0=None, l1=(329, 329), t0=12.3, t1=61.0, minrate=10000000, cls=0x1004),
    0x400: dict(row=7, scan=625, n=2, l0=(23, 23), l1=None, t0=10.9, t1=39.0, minrate=10000000, cls=0x400),
    0x8: dict(row=8, scan=625, n=2, l0=(22, 22), l1=None, t0=10.0, t1=62.0, minrate=2000000, cls=0x18),
    0x10: dict(row=9, scan=625, n=2, l0=None, l1=(335, 335), t0=10.0, t1=62.0, minrate=2000000, cls=0x18),
    0x10000: dict(row=11, scan=525, n=34, l0=(10, 21), l1=(272, 284), t0=9.7, t1=62.5, minrate=13500000, cls=0x10000),
    0x100: dict(row=12, scan=525, n=33, l0=(10, 21), l1=(272, 284), t0=9.7, t1=61.5, minrate=13500000, cls=0x100),
    0x20000: dict(row=13, scan=525, n=34, l0=(10, 21), l1=(272, 284), t0=9.7, t1=62.5, minrate=13500000, cls=0x20000),
    0x20: dict(row=14, scan=525, n=2, l0=(21, 21), l1=None, t0=10.0, t1=62.0, minrate=2013952, cls=0x60),
    0x40: dict(row=15, scan=525, n=2, l0=None, l1=(284, 284), t0=10.0, t1=62.0, minrate=2013952, cls=0x60),
}
BITRATE = {0x2000: 6203125, 0x1: 6937500, 0x3: 6937500, 0x4000: 5734375, 0x8000: 5642787, 0x4: 2500000, 0x1000: 2500000,
           0x400: 833333, 0x8: 500000, 0x10: 500000, 0x10000: 5727272, 0x100: 5727272, 0x20000: 5727272,
           0x20: 503488, 0x40: 503488}
FRCBITS = {0x4: 0, 0x1000: 0, 0x400: 0, 0x8: 2, 0x10: 2, 0x20: 0, 0x40: 0}
TTX = [0x2000, 0x1, 0x3, 0x4000, 0x8000, 0x10000, 0x100, 0x20000]
STD_RATES = (13500000, 14318181, 14750000, 17734475, 27000000, 28636362, 35468950)


def drift_bits(sid, rate):
    """how far (in bit periods) the sampling point of the LAST payload bit has drifted from the nominal one because
    bs->step = floor(256*rate/bit_rate) drops the fraction"""
    b = BITRATE[sid]
    x = 256.0 * rate / b
    frac = x - int(x)
    nbits = FRCBITS.get(sid, 6) + (14 if sid == 0x400 else SVC[sid]["n"] * 8)
    return frac / 256.0 * nbits / (rate / float(b))


def sig_span(sid):
    """(start, end) in us after 0H of everything the transmitter (io-sim, which follows the standards' timing) emits for
    service `sid` on its line - independent of the decoder.  Teletext (all systems): run-in rises from 12.0 us - 13 T,
    16 run-in + 8 framing + 8n payload bits, the trailing edge of the last bit is over 8n + 25 bit periods T later;
    VPS: 12.5 us - 0.1 us, 240 bi-phase elements at 5 MHz; WSS: 11.0 us - 0.1 us, 29 + 24 + 14 * 6 + 1 elements at 5 MHz;
    Caption (EIA 608-B, bit period D): run-in from 10.5 us - D/4, the falling edge of the last data bit ends
    25.5 D after 10.5 us."""
    b = float(BITRATE[sid])
    if sid in TTX:
        t = 12.0 - 13e6 / b
        return t, t + (SVC[sid]["n"] * 8 + 25) * 1e6 / b
    if sid in (0x4, 0x1000):
        return 12.4, 12.4 + 240 / 5.0
    if sid == 0x400:
        return 10.9, 10.9 + (29 + 24 + 14 * 6 + 1) / 5.0
    D = 1e6 / b
    return 10.5 - 0.25 * D, 10.5 + 25.5 * D


# margins (us) the window generators keep around the emission: first sample at least WIN_START before the run-in begins,
# last sample WIN_END after the emission ends (0 = the minimum window; NOTES/C04.md round 3)
WIN_START = 0.0
WIN_END = (0.0, 0.02, 0.05, 0.1, 0.2, 0.4, 0.8, 1.5, 3.0)


def window_contains(sp, sid, m0=0.0, m1=0.0):
    """the sampled window of `sp` contains the whole nominal signal of `sid` with margins m0/m1 (us): the first sample
    is taken no later than the first run-in edge, the LAST SAMPLE (instant (offset + spl - 1) / rate) no earlier than the
    end of the last payload bit"""
    a, b = sig_span(sid)
    start = sp.offset * 1e6 / sp.rate
    last = (sp.offset + sp.spl - 1) * 1e6 / sp.rate
    return start <= a - m0 and last >= b + m1


def repo_flag(name):
    try:
        t = open(os.path.join(verif.LEAN, "ZvbiModel", "Generated", "RawdecFacts.lean")).read()
    except OSError:
        return False
    return ("def %s : Bool := true" % name) in t


def domain_tags(fmt, rate, services, removed=False, old16=False):
    """context classes in which the unchanged tree is known not to meet the property (NOTES/C04.md); computed from
    the op parameters only, never from the outputs.  The first tag is the known-finding signature."""
    tags = []
    if removed and not (repo_flag("fixJobAdvance") and repo_flag("fixMarker") and repo_flag("fixMerged")):
        tags.append("after-remove")
    if old16 and not repo_flag("fixLegacy16"):
        tags.append("old-slicer-15/16-bit")
    ids = [i for i in SVC if i & services == i]
    if services & 0x2000 and services & 0x4000:
        tags.append("teletext-A+C625")
    if services & 0x60 and any(i in ids for i in (0x10000, 0x100, 0x20000)):
        tags.append("caption525-shares-line-with-teletext")
    if services & 0x18 and any(i in ids for i in TTX) and rate > 24900000:
        tags.append("caption625-lowpass-shares-line-with-teletext")
    if services & 0x60 and rate // 1006976 > 24:
        tags.append("caption525-lowpass")
    if any(drift_bits(i, rate) > 0.2 for i in ids):
        tags.append("step-truncation-drift")
    # the rates of real capture hardware are exempt for the 8 bit formats: no failure is known there
    if any(rate < (1.15 if fmt >= 38 else 1.1) * SVC[i]["minrate"] for i in ids) and not (fmt < 38 and rate in STD_RATES):
        tags.append("near-minimum-rate")
    return tags


def fromsvc_flag(name):
    try:
        t = open(os.path.join(verif.LEAN, "ZvbiModel", "Generated", "RawdecFromSvc.lean")).read()
    except OSError:
        return False
    return ("def %s : Bool := true" % name) in t


def fromsvc_domain(fam, sv):
    """F80 domain, from the op parameters only: two requested services of one line system use a field, and the one that
    comes LATER in zvbi's table order starts (and ends) on an earlier line: the range update of
    _vbi_sampling_par_from_services_log lowers `start` first and loses the old end.  Table order = SVC['row']."""
    tab = dict(SVC)
    # the two "all VBI lines" pseudo services of the table (last row of each line system)
    tab[0x20000000] = dict(row=10, scan=625, l0=(6, 22), l1=(318, 335))
    tab[0x40000000] = dict(row=17, scan=525, l0=(10, 21), l1=(272, 284))
    if sv & 0x2:
        sv |= 0x3       # the table has no row for Level 2.5 alone: bit 0x2 selects the row "Teletext System B, 625" (0x3)
    ids = sorted((i for i in tab if i & sv == i), key=lambda i: tab[i]["row"])
    for scan in (625, 525):
        if fam and fam != (1 if scan == 625 else 2):
            continue
        sel = [i for i in ids if tab[i]["scan"] == scan]
        for k in ("l0", "l1"):
            for x in range(len(sel)):
                for y in range(x + 1, len(sel)):
                    a, b = tab[sel[x]][k], tab[sel[y]][k]
                    if a and b and b[0] < a[0] and b[1] < a[1]:
                        return True
    return False


IDS625 = [i for i, s in SVC.items() if s["scan"] == 625]
IDS525 = [i for i, s in SVC.items() if s["scan"] == 525]


def hexs(b):
    return "".join("%02x" % x for x in b) if len(b) else "-"


def rec_tok(t):
    return "%x:%d:%s" % (t[0], t[1], hexs(t[2]))


class Sp:
    """sampling parameters as the sender sees them"""
    def __init__(self, scanning, fmt, rate, spl, offset, s0, c0, s1, c1, il, sync, pad=0):
        self.scanning, self.fmt, self.rate, self.spl, self.offset = scanning, fmt, rate, spl, offset
        self.s0, self.c0, self.s1, self.c1, self.il, self.sync = s0, c0, s1, c1, il, sync
        self.bpl = spl * bpp_of(fmt) + pad * bpp_of(fmt)

    def par(self, iface=3):
        return "par %d %d %d %d %d %d %d %d %d %d %d %d" % (self.scanning, self.fmt, self.rate, self.bpl, self.offset,
                                                           self.s0, self.c0, self.s1, self.c1, self.il, self.sync, iface)

    def lines(self):
        return self.c0 + self.c1

    def line_of(self, row):
        if row >= self.c0:
            return self.s1 + row - self.c0 if (self.sync and self.s1) else 0
        return self.s0 + row if (self.sync and self.s0) else 0

    def rows_for(self, sid):
        """rows of the image on which service `sid` may be transmitted (and is looked for)"""
        s = SVC[sid]
        out = []
        rs0 = self.s0 if self.s0 else (10 if self.scanning == 525 else 7)
        rs1 = self.s1 if self.s1 else (273 if self.scanning == 525 else 320)
        for row in range(self.lines()):
            f = 0 if row < self.c0 else 1
            rng_ = s["l0"] if f == 0 else s["l1"]
            if rng_ is None:
                continue
            known = (self.s0 if f == 0 else self.s1) != 0
            if not self.sync or not known:
                out.append(row)
            else:
                line = (rs0 + row) if f == 0 else (rs1 + row - self.c0)
                if rng_[0] <= line <= rng_[1]:
                    out.append(row)
        return out


def parse_par(line):
    w = line.split()
    if len(w) != 13 or w[0] != "par":
        return None
    try:
        v = [int(x, 0) for x in w[1:]]
    except ValueError:
        return None
    sp = Sp(v[0], v[1], v[2], 0, v[4], v[5], v[6], v[7], v[8], v[9], v[10])
    sp.bpl = v[3]
    sp.spl = v[3] // bpp_of(v[1])
    sp.iface = v[11]
    return sp


def parse_recs(tokens):
    out = []
    for t in tokens:
        a = t.split(":")
        if len(a) != 3:
            return None
        try:
            out.append((int(a[0], 16), int(a[1]), bytes.fromhex("" if a[2] == "-" else a[2])))
        except ValueError:
            return None
    return out


class C04(verif.Spec):
    prop = "C04"
    comp = "rawdec"
    lean_modules = ["ZvbiModel.Props.C04", "ZvbiModel.Props.C04Bits", "ZvbiModel.Props.C04Hist", "ZvbiModel.Props.C04Reach",
                    "ZvbiModel.Props.C04FromSvc"]
    harness = "rawdec_harness"
    timeout_per_case = 6.0
    partial_note = ("proved: the discrete logic (pattern/job bookkeeping invariant over every add/remove/decode history, "
                    "decode_pattern incl. move-to-front, one record per line / right service / line numbers / blank / "
                    "nothing beyond count for every slicer behaviour, payload stage of all three slicers exact in all four "
                    "endian modes under the eye-open hypothesis, CRI search window exact, line/field/memory line of every row, "
                    "services = union of pairwise disjoint job ids, <= 7 jobs, remove leaves no requested id, every row armed with "
                    "pairwise distinct job numbers, add_job_to_pattern never out of space, add accepts exactly the rows check_services "
                    "accepts, set_params assertion unreachable for every non-aborting configuration - all histories of "
                    "the repaired code; from every reachable pattern and over every history of decode calls: no line is "
                    "ever skipped, the records of a frame are a function of that frame's image and do not depend on earlier "
                    "frames [hypotheses: slicing independent of the adaptive threshold, at most one job matches a line]; the "
                    "CRI search range of add_services covers every accepted window for every table row). NOT proved: that io-sim's floating point waveform satisfies eye-open for every "
                    "rate, offset, format and payload - sampled by the oracle (frame/decode/slice ops)")
    assumptions = ["IEEE double comparisons of _vbi_sampling_par_permit_service (signal length vs sampled length) agree with "
                   "exact rational arithmetic (validated by correspondence)",
                   "phase_shift double arithmetic = exact rational floor (C05)",
                   "threshold arithmetic stays inside 32 bits as analysed in NOTES/C04.md (validated by correspondence on "
                   "noise and saturated images)"]
    open_statements = ["threshold independence: decode_is_history_independent assumes the slicers' verdict on a frame does not "
                       "depend on bs->thresh left behind by earlier lines/frames (ThreshFree); for io-sim's nominal waveforms this "
                       "is sampled by the long-history generator, not proved",
                       "ids_within_services_full as literally stated in Props/C04.lean quantifies over ALL sampling parameters: proved for "
                       "every configuration in which C does not abort by design (CfgOK: pixel format known to set_params, <= 32767 samples "
                       "per line, 32 bit rate - ids_within_services_every_history, set_params_assertion_unreachable); outside CfgOK the model's "
                       "error state stands for a process abort (cfg_hypothesis_needed) and the literal statement is not claimed",
                       "from_services_permits_all WITHOUT exception (every contributing table row passes the whole of permit_service on the "
                       "returned parameters, every strictness): FALSE for Teletext D 625 at (unsigned) strict > 0 (F81, "
                       "from_services_strict_length_counterexample); proved for the repaired range update for every other row of the real "
                       "services and for all rows at strict 0 (from_services_permits_every_returned_service); for /repo's released range "
                       "update the statement is false (F80, from_services_counterexample)",
                       "waveform_eye_open (io-sim's rendering satisfies the eye-open hypothesis for all rates/offsets/"
                       "formats/payloads): not formalisable here, sampled by the oracle; FALSE in the domains of F65-F70"]
    trusted_base = ["translate/gen_rawdec.py (recognises applied repairs; a wrong flag shows as model~code disagreement)",
                    "translate/gen_rawdecfromsvc.py (cuts the double arithmetic statements of _vbi_sampling_par_from_services_log out of the "
                    "source and evaluates them per table row with gcc; recognises the two shapes of the range update; a wrong reading shows "
                    "in the fromsvc ops of the correspondence check)",
                    "translate/gen_rawdecflags.py (text of the blank-counter branch of decode_pattern and of the cri_end assignments "
                    "of add_services; an unrecognised form makes the proofs fail, a wrong reading shows in the long-history / "
                    "window cases of the correspondence check)",
                    "translate/gen_slicer.py + Slicer model of C05 (slicer configuration arithmetic)",
                    "harness/rawdec_harness.c (exact-size heap images and output arrays, guard pattern behind the records)",
                    "io-sim.c as the transmitter of the oracle (its own UB in signal_closed_caption/_vbi_raw_video_image exempted from UBSan)"]

    # ------------------------------------------------------------------ helpers
    def harness_exe(self):
        exe, err = verif.build_harness(self.harness)
        if exe is None:
            raise RuntimeError("harness build failed: " + err[-2000:])
        return exe

    def run_harness(self, cases):
        out, inc = verif.run_side([self.harness_exe()], cases, self.timeout_per_case)
        return out

    def payload(self, rng, sid):
        n = SVC[sid]["n"]
        k = rng.random()
        if k < 0.5:
            b = bytes(rng.randrange(256) for _ in range(n))
        elif k < 0.6:
            b = bytes([0x00] * n)
        elif k < 0.7:
            b = bytes([0xFF] * n)
        elif k < 0.8:
            b = bytes([rng.choice([0xAA, 0x55, 0x0F, 0xF0, 0x01, 0x80])] * n)
        else:
            # long runs of equal bits
            bits, cur = [], rng.randrange(2)
            while len(bits) < n * 8:
                bits += [cur] * rng.randrange(1, 40)
                cur ^= 1
            b = bytes(sum(bits[i * 8 + k2] << k2 for k2 in range(8)) for i in range(n))
        if sid == 0x400:
            b = bytes([b[0], b[1] & 0x3F])
        return b

    def gen_sp(self, rng, scanning=None, services=None, fmt=None, small=False, clean=False):
        """clean=True: stay inside the domain where the nominal-slicer model is expected to be exact
        (no known finding of domain_tags applies)"""
        for _try in range(200):
            sp, sv = self.gen_sp1(rng, scanning, services, fmt, small)
            if not clean:
                return sp, sv
            m = 0
            for x in sv:
                m |= x
            if not domain_tags(sp.fmt, sp.rate, m):
                return sp, sv
        raise RuntimeError("no clean sampling parameters found")

    def gen_sp1(self, rng, scanning=None, services=None, fmt=None, small=False):
        scanning = scanning or rng.choice([625, 625, 525])
        ids = IDS625 if scanning == 625 else IDS525
        services = services if services is not None else rng.sample(ids, rng.randrange(1, min(5, len(ids)) + 1))
        fmt = fmt or rng.choice(FMTS)
        minrate = max(SVC[s]["minrate"] for s in services)
        t0 = min(SVC[s]["t0"] for s in services)
        t1 = max(SVC[s]["t1"] for s in services)
        k = rng.random()
        if k < 0.25:
            rate = rng.choice(STD_RATES)
            rate = max(rate, minrate)
        elif k < 0.5:
            rate = minrate + rng.randrange(0, 200000)
        else:
            rate = int(minrate * (1 + 2.0 * rng.random() ** 2)) + rng.randrange(1000)
        rate = min(rate, 60000000)
        off_us = t0 - rng.choice([0.3, 0.5, 1.0, 2.0, 3.5]) * rng.random() - 0.5
        offset = max(1, int(off_us * rate / 1e6))
        end_us = t1 + rng.choice([1.6, 2.0, 3.0, 6.0])
        spl = int((end_us - offset * 1e6 / rate) * rate / 1e6) + 1
        if fmt in (2, 3, 4, 5) and spl % 2:
            spl += 1
        spl = min(spl, 32767 // 1)
        if bpp_of(fmt) * spl > 131068:
            spl = 131068 // bpp_of(fmt) // 2 * 2
        if scanning == 625:
            lo0, hi0, d = 6, 23, 313
        else:
            lo0, hi0, d = 10, 21, 263
        if small:
            s0 = rng.randrange(lo0, hi0 + 1)
            c0 = rng.randrange(1, min(3, hi0 - s0 + 1) + 1)
        else:
            s0 = rng.randrange(lo0 - 1, lo0 + 4)
            c0 = hi0 - s0 + 1 - rng.randrange(0, 3)
        il = rng.random() < 0.35
        if il or rng.random() < 0.6:
            s1, c1 = s0 + d, c0
            if scanning == 525:
                s1 = s0 + 263
        else:
            s1 = s0 + d + rng.randrange(-1, 2)
            c1 = rng.randrange(0, c0 + 2)
            if scanning == 525:
                s1 = max(263, s1)
        sync = rng.random() < 0.85
        if rng.random() < 0.1:
            s0 = 0
        if rng.random() < 0.1:
            s1 = 0
        if c1 == 0 and rng.random() < 0.5:
            s1 = 0
        pad = rng.choice([0, 0, 0, 1, 7])
        if fmt in (2, 3, 4, 5):
            pad = rng.choice([0, 0, 2, 8])
        sp = Sp(scanning, fmt, rate, spl, offset, s0, c0, s1, c1, 1 if il else 0, 1 if sync else 0, pad)
        return sp, services

    @staticmethod
    def fits(sp, sid):
        """the nominal signal of service `sid` lies inside the sampled part of the line (0.5 us before, 1.6 us after)
        and the sampling rate is at least the minimum the property text names for it"""
        start_us = sp.offset * 1e6 / sp.rate
        end_us = start_us + sp.spl * 1e6 / sp.rate
        return (SVC[sid]["t0"] - 0.5 >= start_us and SVC[sid]["t1"] + 1.6 <= end_us and sp.rate >= SVC[sid]["minrate"])

    def make_tx(self, rng, sp, candidates, fill=0.5):
        """records on distinct rows; candidates = service ids allowed on the wire"""
        rows = {}
        for sid in candidates:
            for row in sp.rows_for(sid):
                rows.setdefault(row, []).append(sid)
        tx = []
        for row in sorted(rows):
            if rng.random() < fill:
                sid = rng.choice(rows[row])
                tx.append((sid, row, self.payload(rng, sid)))
        return tx

    # ------------------------------------------------------------------ generators
    def gen_history(self, rng, n, with_remove, iface_old=False):
        """persistent decoder, nominal frames; lines shared by several services change their service"""
        cases = []
        for _ in range(n):
            sp, services = self.gen_sp(rng, clean=True)
            if sp.scanning == 525 and any(x in services for x in (0x20, 0x40)):
                # Caption 525 has no usable CRI/FRC test: keep Teletext off the wire in these cases
                services = [x for x in services if x in (0x20, 0x40)]
            iface = 2 if iface_old else 3
            c = [sp.par(iface)]
            active = set()
            pool = IDS625 if sp.scanning == 625 else IDS525
            mask = 0
            for s in services:
                mask |= s
            strict = rng.choice([0, 0, 1, 1, 2, -1])
            c.append("add 0x%x %d" % (mask, strict))
            active |= set(services)
            ml = sp.lines()
            for _f in range(rng.randrange(2, 7)):
                k = rng.random()
                if k < 0.12 and not iface_old:
                    more = [x for x in rng.sample(pool, rng.randrange(1, 3)) if self.fits(sp, x)]
                    am = 0
                    for x in list(active) + more:
                        am |= x
                    if domain_tags(sp.fmt, sp.rate, am):
                        more = []
                    m2 = 0
                    for s in more:
                        m2 |= s
                    if m2:
                        c.append("add 0x%x %d" % (m2, rng.choice([0, 1, 2])))
                    active |= set(more)
                elif k < 0.3 and with_remove and active:
                    rem = rng.sample(sorted(active), 1)
                    c.append("remove 0x%x" % rem[0])
                    active -= set(rem)
                # the wire carries requested services and, sometimes, blank frames
                if rng.random() < 0.15:
                    tx = []
                else:
                    tx = self.make_tx(rng, sp, sorted(active) if active else [], fill=rng.choice([0.3, 0.6, 1.0]))
                m = ml if (iface_old or rng.random() < 0.85) else rng.randrange(0, ml + 1)
                c.append("frame %d 0 %d %s" % (m, rng.randrange(1, 1 << 31), " ".join(rec_tok(t) for t in tx)))
            cases.append([l.rstrip() for l in c])
        return self.settle(cases, keep_removed=with_remove)

    def gen_shared_line(self, rng, n):
        """the tester's scenario: one persistent decoder, a line shared by two services changes its service
        between frames (line 16 Teletext B / VPS; lines 22, 335 Teletext B / Caption 625; line 21/284 in 525)"""
        cases = []
        for _ in range(n):
            if rng.random() < 0.85:
                scanning, combos = 625, [((0x3, 0x4), 16), ((0x3, 0x18), 22), ((0x3, 0x18), 335), ((0x1, 0x4, 0x8), 16),
                                         ((0x2000, 0x3, 0x8000, 0x4), 16), ((0x3, 0x4000, 0x8000, 0x18), 22)]
            else:
                scanning, combos = 525, [((0x10000, 0x100), 21), ((0x10000, 0x20000), 284), ((0x100, 0x20000, 0x10000), 15)]
            svc, line = rng.choice(combos)
            fmt = rng.choice(FMTS)
            wire = []
            for s in svc:
                wire += [i for i in SVC if i & s and SVC[i]["scan"] == scanning]
            sp, _ = self.gen_sp(rng, scanning, sorted(set(wire)), fmt, clean=True)
            sp.sync, sp.il = 1, rng.choice([0, 1])
            if scanning == 625:
                sp.s0, sp.c0, sp.s1, sp.c1 = 7, 17, 320, 17
            else:
                sp.s0, sp.c0, sp.s1, sp.c1 = 10, 12, 273, 12
            mask = 0
            for s in svc:
                mask |= s
            c = [sp.par(3), "add 0x%x %d" % (mask, rng.choice([0, 1]))]
            row = (line - sp.s0) if line < 300 and line < sp.s1 else (sp.c0 + line - sp.s1)
            if scanning == 525 and line == 284:
                row = sp.c0 + 284 - 273
            cands = [i for i in sorted(set(wire)) if row in sp.rows_for(i)]
            last = None
            for _f in range(rng.randrange(4, 9)):
                sid = rng.choice(cands) if cands else None
                if last is not None and len(cands) > 1 and rng.random() < 0.7:
                    sid = rng.choice([x for x in cands if x != last])
                last = sid
                tx = [(sid, row, self.payload(rng, sid))] if sid else []
                if rng.random() < 0.5:
                    others = self.make_tx(rng, sp, sorted(set(wire)), fill=0.3)
                    tx += [t for t in others if t[1] != row]
                    tx.sort(key=lambda t: t[1])
                c.append("frame %d 0 %d %s" % (sp.lines(), rng.randrange(1, 1 << 31), " ".join(rec_tok(t) for t in tx)))
            cases.append([l.rstrip() for l in c])
        return self.settle(cases)

    def settle(self, cases, keep_removed=False):
        """The sender transmits only services the decoder accepted: run the add/remove ops through the real code
        once, read the returned service sets and drop records of other services from the `frame` ops.
        keep_removed: services that were accepted and later removed stay on the wire (625 line systems with
        known line numbers only, where no other slicer can mistake them)."""
        out = self.run_harness(cases)
        res = []
        for i, c in enumerate(cases):
            o = out.get(i, [])
            services, ever, sp, c2 = 0, 0, None, []
            for k, line in enumerate(c):
                w = line.split()
                ow = o[k].split() if k < len(o) else ["rej"]
                if w[0] == "par":
                    sp = parse_par(line)
                if w[0] in ("add", "remove", "reset") and ow[0] == "ok":
                    services = int(ow[1], 16)
                    ever |= services
                if w[0] == "frame":
                    tx = parse_recs(w[4:]) or []
                    allow = services
                    if keep_removed and sp is not None and sp.scanning == 625 and sp.sync and sp.s0 and sp.s1:
                        allow = ever
                    tx = [t for t in tx if t[0] & allow == t[0]]
                    line = " ".join(w[:4] + [rec_tok(t) for t in tx])
                c2.append(line)
            res.append(c2)
        return res

    def render_pass(self, plans):
        """plans: list of (sp, tx, flags, seed) -> list of image bytes (or None) rendered by the harness"""
        cases = [[sp.par(3), "render %d %d %d %s" % (sp.lines(), fl, seed, " ".join(rec_tok(t) for t in tx))]
                 for sp, tx, fl, seed in plans]
        out = self.run_harness(cases)
        imgs = []
        for i in range(len(plans)):
            o = out.get(i, [])
            if len(o) == 2 and o[1].startswith("ok "):
                h = o[1][3:]
                imgs.append(bytes.fromhex("" if h == "-" else h))
            else:
                imgs.append(None)
        return imgs

    def gen_concrete(self, rng, n):
        """decode ops on concrete images: rendered (with expectation), noisy, shifted, garbage"""
        plans = []
        for _ in range(n):
            sp, services = self.gen_sp(rng, small=True)
            tx = self.make_tx(rng, sp, services, fill=0.8)
            tx2 = self.make_tx(rng, sp, services, fill=0.6)
            plans.append((sp, tx, 0, rng.randrange(1, 1 << 31), services))
            plans.append((sp, tx2, 0, rng.randrange(1, 1 << 31), services))
        imgs = self.render_pass([(p[0], p[1], p[2], p[3]) for p in plans])
        cases = []
        for i in range(0, len(plans), 2):
            sp, tx, _, _, services = plans[i]
            tx2 = plans[i + 1][1]
            a, b = imgs[i], imgs[i + 1]
            if a is None or b is None:
                continue
            mask = 0
            for s in services:
                mask |= s
            c = [sp.par(3), "add 0x%x %d" % (mask, rng.choice([0, 1]))]
            ml = sp.lines()
            c += ["expect " + " ".join(rec_tok(t) for t in tx), "decode %d %s" % (ml, hexs(a))]
            c += ["expect " + " ".join(rec_tok(t) for t in tx2), "decode %d %s" % (ml, hexs(b))]
            k = rng.random()
            if k < 0.35:
                # additive noise of small amplitude: no expectation, model and code must still agree
                amp = rng.choice([2, 6, 20, 60])
                nz = bytes(max(0, min(255, x + rng.randrange(-amp, amp + 1))) for x in a)
                c.append("decode %d %s" % (ml, hexs(nz)))
            elif k < 0.6:
                sh = rng.randrange(1, 40) * bpp_of(sp.fmt)
                c.append("decode %d %s" % (ml, hexs(a[sh:] + a[:sh])))
            elif k < 0.8:
                c.append("decode %d %s" % (ml, hexs(bytes(rng.randrange(256) for _ in range(len(a))))))
            else:
                v = rng.choice([0, 255, 128])
                c.append("decode %d %s" % (ml, hexs(bytes([v]) * len(a))))
            c += ["expect " + " ".join(rec_tok(t) for t in tx), "decode %d %s" % (rng.choice([ml, ml, max(0, ml - 1)]), hexs(a))]
            cases.append(c)
        return cases

    def gen_slices(self, rng, n, fmts=None):
        """stand-alone slicers (vbi3_bit_slicer and the legacy vbi_bit_slicer) on one rendered line"""
        plans = []
        for _ in range(n):
            sid = rng.choice(list(SVC))
            fmt = rng.choice(fmts or FMTS)
            sp, _ = self.gen_sp(rng, SVC[sid]["scan"], [sid], fmt)
            f = 0 if SVC[sid]["l0"] else 1
            line = (SVC[sid]["l0"] or SVC[sid]["l1"])[0]
            sp.sync, sp.il, sp.bpl = 1, 0, sp.spl * bpp_of(fmt)
            if f == 0:
                sp.s0, sp.c0, sp.s1, sp.c1 = line, 1, 0, 0
            else:
                sp.s0, sp.c0, sp.s1, sp.c1 = 0, 0, line, 1
            tx = [(sid, 0, self.payload(rng, sid))]
            plans.append((sp, tx, 0, rng.randrange(1, 1 << 31), sid))
        imgs = self.render_pass([(p[0], p[1], p[2], p[3]) for p in plans])
        cases = []
        for p, img in zip(plans, imgs):
            if img is None:
                continue
            sp, tx, _, _, sid = p
            row = SVC[sid]["row"]
            c = []
            for variant in (3, 2):
                c.append("expect " + rec_tok(tx[0]))
                c.append("slice %d %d %d %d %d - %s" % (variant, sp.fmt, sp.rate, sp.spl, row, hexs(img)))
            k = rng.random()
            variant = rng.choice([3, 2])
            if k < 0.3:
                amp = rng.choice([3, 10, 40])
                nz = bytes(max(0, min(255, x + rng.randrange(-amp, amp + 1))) for x in img)
                c.append("slice %d %d %d %d %d - %s" % (variant, sp.fmt, sp.rate, sp.spl, row, hexs(nz)))
            elif k < 0.5:
                c.append("slice %d %d %d %d %d %d %s" % (variant, sp.fmt, sp.rate, sp.spl, row, rng.randrange(1 << 32),
                                                        hexs(bytes(rng.randrange(256) for _ in range(len(img))))))
            elif k < 0.7:
                # a different service's slicer on this line (must not match; model and code must agree anyway)
                other = rng.choice([s for s in SVC if SVC[s]["scan"] == SVC[sid]["scan"]])
                c.append("slice %d %d %d %d %d - %s" % (variant, sp.fmt, sp.rate, sp.spl, SVC[other]["row"], hexs(img)))
            cases.append(c)
        return cases

    # ------------------------------------------------------------------ round 2 generators
    CC_IDS = {625: (0x8, 0x10), 525: (0x20, 0x40)}

    @staticmethod
    def cc_end_us(sid):
        """end of the last data bit of a nominal caption line (EIA 608-B timing as io-sim renders it: first start
        bit edge at 10.5 us + 6.5 D - 0.12 us, 19 further bit periods D)"""
        return 10.38 + 25.5e6 / BITRATE[sid]

    def tight_sp(self, rng, scanning, fmt, rate, eps, single=None):
        """sampling parameters whose lines END `eps` us after the last caption bit: the signal lies inside the line,
        the slicer has to find the CRI at (nearly) the last position its search window admits"""
        ids = self.CC_IDS[scanning]
        start_us = 10.0 - 0.25 - rng.choice([0.3, 0.6, 1.0, 2.0]) * rng.random() - 0.3
        offset = max(1, int(start_us * rate / 1e6))
        end_us = max(self.cc_end_us(i) for i in ids) + eps
        spl = int(end_us * rate / 1e6) + 1 - offset
        if fmt in (2, 3, 4, 5) and spl % 2:
            spl += 1
        l0, l1 = (22, 335) if scanning == 625 else (21, 284)
        if single is None:
            sp = Sp(scanning, fmt, rate, spl, offset, l0, 1, l1, 1, rng.choice([0, 1]), 1, 0)
        elif single == 0:
            sp = Sp(scanning, fmt, rate, spl, offset, l0, 1, 0, 0, 0, 1, 0)
        else:
            sp = Sp(scanning, fmt, rate, spl, offset, 0, 0, l1, 1, 0, 1, 0)
        return sp

    TIGHT_EPS = (0.02, 0.05, 0.1, 0.2, 0.35, 0.5, 0.8, 1.2)
    TIGHT_RATES = (27000000, 28636362, 35468950, 25300000)

    def gen_tight(self, rng, reps):
        """every pixel format x caption services (low-pass slicer from 25.2 MHz) x line ends sweeping down to the last
        bit: new and old decoder interface (frame ops) and both stand-alone slicers (slice ops)"""
        cases, plans, dplans = [], [], []
        for rep in range(reps):
            for fmt in FMTS:
                scanning = rng.choice([625, 625, 525])
                rate = rng.choice(self.TIGHT_RATES + (rng.randrange(25300000, 45000000),))
                eps = rng.choice(self.TIGHT_EPS)
                ids = self.CC_IDS[scanning]
                # --- raw decoder, both APIs.  625: nominal `frame` ops (the model predicts the records); 525 caption
                # at low-pass rates is the domain of F70, where the nominal prediction is not valid: concrete images
                sp = self.tight_sp(rng, scanning, fmt, rate, eps)
                iface = rng.choice([3, 3, 2])
                head = [sp.par(iface), "add 0x%x %d" % (ids[0] | ids[1], rng.choice([0, 0, 1]))]
                frames = []
                for _f in range(rng.randrange(2, 4)):
                    tx = [(ids[0], 0, self.payload(rng, ids[0])), (ids[1], 1, self.payload(rng, ids[1]))]
                    if rng.random() < 0.3:
                        tx = [rng.choice(tx)]
                    frames.append(tx)
                if scanning == 625:
                    cases.append(head + ["frame %d 0 %d %s" % (sp.lines(), rng.randrange(1, 1 << 31),
                                                              " ".join(rec_tok(t) for t in tx)) for tx in frames])
                else:
                    for tx in frames:
                        dplans.append((sp, tx, 0, rng.randrange(1, 1 << 31), head))
                # --- stand-alone slicers on one tight line
                f = rng.randrange(2)
                sid = ids[f]
                sp1 = self.tight_sp(rng, scanning, fmt, rate, rng.choice(self.TIGHT_EPS), single=f)
                plans.append((sp1, [(sid, 0, self.payload(rng, sid))], 0, rng.randrange(1, 1 << 31), sid))
        cases = self.settle(cases)
        dimgs = self.render_pass([(p[0], p[1], p[2], p[3]) for p in dplans])
        byhead = {}
        for p, img in zip(dplans, dimgs):
            if img is None:
                continue
            c = byhead.setdefault(id(p[4]), list(p[4]))
            c += ["expect " + " ".join(rec_tok(t) for t in p[1]), "decode %d %s" % (p[0].lines(), hexs(img))]
        cases += list(byhead.values())
        imgs = self.render_pass([(p[0], p[1], p[2], p[3]) for p in plans])
        for p, img in zip(plans, imgs):
            if img is None:
                continue
            sp, tx, _, _, sid = p
            c = []
            for variant in (3, 2):
                c.append("expect " + rec_tok(tx[0]))
                c.append("slice %d %d %d %d %d - %s" % (variant, sp.fmt, sp.rate, sp.spl, SVC[sid]["row"], hexs(img)))
            # one sample shorter / longer lines: no expectation, model and code must agree on the window
            bpp = bpp_of(sp.fmt)
            for cut in (1, 2, 7, 16, 31, 46):
                if sp.spl - cut > 64 and not (sp.fmt in (2, 3, 4, 5) and cut % 2):
                    c.append("slice %d %d %d %d %d - %s" % (rng.choice([3, 2]), sp.fmt, sp.rate, sp.spl - cut, SVC[sid]["row"],
                                                          hexs(img[:(sp.spl - cut) * bpp])))
            cases.append(c)
        return cases

    TIE_FMTS = (1, 2, 4, 36, 32, 33)

    def gen_ties(self, rng, n):
        """decision ties: the tail of a rendered line is replaced by a constant level L; the real code tells (bisection
        over L, eight harness passes) at which L the sliced tail bits switch from 0 to 1, the case then slices L-1, L,
        L+1 - at L equal to the slicer's threshold `raw0 >= tr` and `raw0 > tr` differ in every tail bit"""
        plans = []
        for _ in range(n):
            sid = rng.choice([0x400, 0x400, 0x4, 0x3, 0x8, 0x20, 0x10000])
            fmt = rng.choice(self.TIE_FMTS)
            sp, _ = self.gen_sp(rng, SVC[sid]["scan"], [sid], fmt, clean=True)
            f = 0 if SVC[sid]["l0"] else 1
            line = (SVC[sid]["l0"] or SVC[sid]["l1"])[0]
            sp.sync, sp.il, sp.bpl = 1, 0, sp.spl * bpp_of(fmt)
            if f == 0:
                sp.s0, sp.c0, sp.s1, sp.c1 = line, 1, 0, 0
            else:
                sp.s0, sp.c0, sp.s1, sp.c1 = 0, 0, line, 1
            plans.append((sp, [(sid, 0, self.payload(rng, sid))], 0, rng.randrange(1, 1 << 31), sid))
        imgs = self.render_pass([(p[0], p[1], p[2], p[3]) for p in plans])
        items = []
        for p, img in zip(plans, imgs):
            if img is None:
                continue
            sp, tx, _, _, sid = p
            t_cut = SVC[sid]["t0"] + 0.72 * (SVC[sid]["t1"] - SVC[sid]["t0"])
            cut = int(t_cut * sp.rate / 1e6) - sp.offset
            if not (8 < cut < sp.spl - 8):
                continue
            for variant in (3, 2):
                items.append(dict(sp=sp, sid=sid, img=img, cut=cut * bpp_of(sp.fmt), variant=variant, lo=0, hi=255))

        def op(it, L):
            img = it["img"][:it["cut"]] + bytes([L]) * (len(it["img"]) - it["cut"])
            sp = it["sp"]
            return "slice %d %d %d %d %d - %s" % (it["variant"], sp.fmt, sp.rate, sp.spl, SVC[it["sid"]]["row"], hexs(img))

        def run(levels):
            out = self.run_harness([[op(it, L)] for it, L in zip(items, levels)])
            res = []
            for i in range(len(items)):
                o = out.get(i, [])
                w = o[0].split() if o else []
                res.append(w[1] if len(w) >= 3 and w[0] == "ok" and w[1] != "fail" else None)
            return res
        if not items:
            return []
        r0, r1 = run([0] * len(items)), run([255] * len(items))
        keep = [i for i in range(len(items)) if r0[i] and r1[i] and r0[i] != r1[i]]
        items = [items[i] for i in keep]
        top = [r1[i] for i in keep]
        for _ in range(8):
            if not items:
                break
            mids = [(it["lo"] + it["hi"]) // 2 for it in items]
            r = run(mids)
            for it, m, got, t in zip(items, mids, r, top):
                if got == t:
                    it["hi"] = m
                else:
                    it["lo"] = m
        cases = []
        for it in items:
            T = it["hi"]
            cases.append([op(it, L) for L in (T - 2, T - 1, T, T + 1) if 0 <= L <= 255])
        return cases

    # ------------------------------------------------------------------ round 3 generators
    CLEAN_RATES = (13500000, 14750000, 14318181, 17734475, 27000000, 28636362, 35468950, 15000000, 16000000, 20000000)

    def clean_rate(self, rng, services, fmt, anyrate=False):
        """a sampling rate at which no known finding applies to `services` (hardware rates first)"""
        mask = 0
        for x in services:
            mask |= x
        minrate = max(SVC[x]["minrate"] for x in services)
        cands = [r for r in self.CLEAN_RATES if r >= minrate]
        if anyrate:
            rng.shuffle(cands)
            cands = [int(minrate * (1.1 + 1.5 * rng.random())) for _ in range(3)] + cands
        cands += [int(minrate * (1.1 + 2.0 * rng.random())) for _ in range(60)]
        for r in cands:
            if r >= minrate and not domain_tags(fmt, r, mask):
                return r
        raise RuntimeError("no clean rate for 0x%x" % mask)

    @staticmethod
    def full_geometry(scanning, il=0):
        """every line any service of the system uses: 6-23 / 318-335 resp. 10-22 / 272-284"""
        if scanning == 625:
            return 6, 18, 318, 18
        return 10, 13, 272, 13

    # service sets of the long histories: every service class, alone and on shared lines
    LONG_SETS = [(625, (0x3,)), (625, (0x3, 0x18)), (625, (0x18,)), (625, (0x4, 0x1000)), (625, (0x400,)),
                 (625, (0x2000,)), (625, (0x4000,)), (625, (0x8000,)), (625, (0x1, 0x4, 0x400, 0x8)),
                 (525, (0x60,)), (525, (0x10000,)), (525, (0x100,)), (525, (0x20000,)), (625, (0x3, 0x4, 0x18, 0x400))]

    def gen_long(self, rng, n, frames=(420, 700)):
        """ONE decoder object over hundreds of frames: every searched line alternates between blank runs of 1..300
        frames and runs of signal; the property has no warm-up allowance - every transmitted line is due in every frame
        in which it is transmitted.  Cheap frames: 8 bit luma, few lines, lowest clean hardware rate."""
        cases = []
        order = list(range(len(self.LONG_SETS)))
        rng.shuffle(order)
        for k in range(n):
            scanning, sets = self.LONG_SETS[order[k % len(order)]]
            ids = sorted({i for s_ in sets for i in SVC if i & s_ == i and SVC[i]["scan"] == scanning and i & s_})
            # the ids the sender may put on the wire: single-bit ids and the level 2.5 Teletext B id
            ids = [i for i in ids if i in SVC]
            if any(s_ == 0x3 for s_ in sets):
                ids = [i for i in ids if i != 0x1]
            fmt = 1
            rate = self.clean_rate(rng, ids, fmt)
            t0 = min(sig_span(i)[0] for i in ids) - 0.6
            t1 = max(sig_span(i)[1] for i in ids) + 1.7
            offset = int(t0 * rate / 1e6)
            spl = int(t1 * rate / 1e6) + 1 - offset
            # few lines: the lines of the requested services only (plus a neighbour), both fields
            lines0 = sorted({l for i in ids if SVC[i]["l0"] for l in (SVC[i]["l0"][1], SVC[i]["l0"][1] - 1)} |
                            {SVC[i]["l0"][0] for i in ids if SVC[i]["l0"]})
            if scanning == 625:
                s0 = min(lines0) if lines0 else 20
                c0 = (max(lines0) if lines0 else 22) - s0 + 1
                if c0 > 4:
                    s0, c0 = max(lines0) - 3, 4
                    if 0x4 in ids:
                        s0, c0 = 16, 8      # 16 .. 23
                s1, c1 = s0 + 313, c0
            else:
                s0, c0, s1, c1 = 19, 3, 282, 3
            il = rng.choice([0, 0, 1])
            sync = 1
            sp = Sp(scanning, fmt, rate, spl, offset, s0, c0, s1, c1, il, sync, 0)
            iface = 2 if k % 3 == 2 else 3
            mask = 0
            for s_ in sets:
                mask |= s_
            # strict 0 / -1: with a few lines only, strict >= 1 rejects the Teletext systems (their range is not covered)
            c = [sp.par(iface), "add 0x%x %d" % (mask, rng.choice([0, 0, -1]))]
            rows = {}
            for sid in ids:
                for row in sp.rows_for(sid):
                    rows.setdefault(row, []).append(sid)
            # per row: [frames left in the current run, service on the wire or None]
            st = {}
            for row in rows:
                st[row] = [rng.randrange(1, 8), rng.choice(rows[row])] if rng.random() < 0.6 else [self.blank_run(rng), None]
            nframes = rng.randrange(*frames)
            for _f in range(nframes):
                tx = []
                for row in sorted(rows):
                    left, sid = st[row]
                    if left == 0:
                        if sid is None:
                            st[row] = [rng.choice([1, 1, 2, 3, 5, 20]), rng.choice(rows[row])]
                        else:
                            st[row] = [self.blank_run(rng), None]
                        left, sid = st[row]
                    st[row][0] = left - 1
                    if sid is not None:
                        tx.append((sid, row, self.payload(rng, sid)))
                c.append("frame %d 0 %d %s" % (sp.lines(), rng.randrange(1, 1 << 31), " ".join(rec_tok(t) for t in tx)))
            cases.append([l.rstrip() for l in c])
        return self.settle(cases)

    @staticmethod
    def blank_run(rng):
        k = rng.random()
        if k < 0.3:
            return rng.randrange(1, 20)
        if k < 0.5:
            return rng.randrange(125, 150)
        return rng.randrange(1, 301)

    def gen_windows(self, rng, reps):
        """sampling windows in general position, EVERY service: the window starts anywhere from 0H up to just before the
        first run-in edge and ends anywhere from just behind the last payload bit up to the end of the line - incl.
        short windows that start early.  Nominal `frame` ops, both decoder APIs, strict 0/1/2: what add_services accepts
        and the sender transmits inside the window must be decoded."""
        cases = []
        for rep in range(reps):
            for sid in sorted(SVC):
                scanning = SVC[sid]["scan"]
                fmt = 1 if rng.random() < 0.6 else rng.choice(FMTS)
                rate = self.clean_rate(rng, [sid], fmt, anyrate=rng.random() < 0.5)
                a, b = sig_span(sid)
                k = rng.random()
                if k < 0.2:
                    start = 0.0
                elif k < 0.45:
                    start = rng.random() * 5.0
                elif k < 0.8:
                    start = rng.random() * (a - WIN_START)
                else:
                    start = a - WIN_START - rng.random() * 0.5
                offset = int(start * rate / 1e6)
                k = rng.random()
                if k < 0.55:
                    end = b + rng.choice(WIN_END)
                elif k < 0.8:
                    end = b + rng.random() * 6.0
                else:
                    end = b + rng.random() * (63.9 - b)
                # last sample instant (offset + spl - 1) / rate >= end
                spl = int(end * rate / 1e6) + 2 - offset
                if fmt in (2, 3, 4, 5) and spl % 2:
                    spl += 1
                spl = min(spl, 32767, 131068 // bpp_of(fmt))
                s0, c0, s1, c1 = self.full_geometry(scanning)
                il = rng.choice([0, 0, 1])
                sp = Sp(scanning, fmt, rate, spl, offset, s0, c0, s1, c1, il, 1, 0)
                if not window_contains(sp, sid, 0.0, 0.0):
                    continue
                iface = rng.choice([3, 3, 2])
                req = SVC[sid]["cls"] if rng.random() < 0.3 else sid
                if domain_tags(fmt, rate, req):
                    req = sid
                c = [sp.par(iface), "add 0x%x %d" % (req, rng.choice([0, 1, 2]))]
                wire = [i for i in SVC if i & req == i and SVC[i]["scan"] == scanning and i != 0x1 or i == sid]
                wire = [i for i in sorted(set(wire)) if window_contains(sp, i, 0.0, 0.0)]
                for _f in range(rng.randrange(2, 4)):
                    tx = self.make_tx(rng, sp, wire, fill=rng.choice([0.4, 0.8, 1.0]))
                    c.append("frame %d 0 %d %s" % (sp.lines(), rng.randrange(1, 1 << 31), " ".join(rec_tok(t) for t in tx)))
                cases.append([l.rstrip() for l in c])
        return self.settle(cases)

    def gen_fromsvc(self, rng, n):
        """vbi_sampling_par_from_services: every pair of services with every family argument (3 cases), then random
        service sets (random subsets of the real service bits, sometimes the two VBI pseudo services, sometimes junk bits)"""
        ids = [i for i in SVC if i != 0x3] + [0x2]
        cases, cur = [], []
        for a in ids:
            for b in ids:
                if a <= b:
                    for fam in (0, 1, 2):
                        cur.append("fromsvc %d 0x%x" % (fam, a | b))
        for k in range(0, len(cur), 60):
            cases.append(cur[k:k + 60])
        bits = [0x2000, 0x1, 0x2, 0x4000, 0x8000, 0x4, 0x1000, 0x400, 0x8, 0x10, 0x10000, 0x100, 0x20000, 0x20, 0x40, 0x80]
        for _ in range(n):
            case = []
            for _ in range(40):
                sv = 0
                pool = rng.choice([bits, bits[:10], bits[10:]])
                for b in rng.sample(pool, rng.randint(1, min(6, len(pool)))):
                    sv |= b
                r = rng.random()
                if r < 0.1:
                    sv |= 0x20000000
                elif r < 0.2:
                    sv |= 0x40000000
                elif r < 0.25:
                    sv |= rng.getrandbits(32)
                elif r < 0.28:
                    sv = 0
                case.append("fromsvc %d 0x%x" % (rng.choice([0, 0, 0, 1, 1, 2, 2, 3]), sv))
            cases.append(case)
        return cases

    def gen_fromsvc_add(self, rng, n):
        """the end-to-end use of from_services: compute parameters for a service set (first pass through the real code),
        build a decoder with exactly these parameters and add the returned services with strict 0 / 1 / 2 - every returned
        service must be accepted (it is the "subset of services covered by the calculated sampling parameters")"""
        bits625 = [0x2000, 0x1, 0x3, 0x4000, 0x8000, 0x4, 0x1000, 0x400, 0x8, 0x10]
        bits525 = [0x10000, 0x100, 0x20000, 0x20, 0x40, 0x80]
        reqs = [(1, b) for b in bits625] + [(2, b) for b in bits525]
        for _ in range(n):
            fam = rng.choice([0, 1, 2])
            pool = bits625 if fam == 1 else bits525 if fam == 2 else rng.choice([bits625, bits525])
            sv = 0
            for b in rng.sample(pool, rng.randint(1, min(5, len(pool)))):
                sv |= b
            reqs.append((fam, sv))
        first = [["fromsvc %d 0x%x" % r] for r in reqs]
        out = self.run_harness(first)
        cases = []
        for i, c in enumerate(first):
            o = (out.get(i, [""]) or [""])[0].split()
            if len(o) < 3 or o[0] != "ok" or o[1] == "0":
                continue
            try:
                f = {k: int(self.field(o, k + "=")) for k in ("sc", "fmt", "rate", "bpl", "off", "s0", "c0", "s1", "c1", "il", "sy")}
            except ValueError:
                continue
            case = [c[0]]
            for strict in (0, 1, 2):
                case.append("par %d %d %d %d %d %d %d %d %d %d %d %d" % (f["sc"], f["fmt"], f["rate"], f["bpl"], f["off"], f["s0"],
                                                                          f["c0"], f["s1"], f["c1"], f["il"], f["sy"], rng.choice([2, 3])))
                case.append("add 0x%s %d" % (o[1], strict))
            cases.append(case)
        return cases

    def gen_malformed(self, rng, n):
        cases = []
        bad = ["par", "par 625 1 13500000 720 132 7 17 320 17 0 1", "par 625 6 13500000 1440 132 7 17 320 17 0 1 3",
               "par 625 1 13500000 720 132 7 17 320 17 2 1 3", "par 625 1 13500000 720 132 7 17 320 17 0 1 4",
               "par 625 1 -5 720 132 7 17 320 17 0 1 3", "par 600 1 13500000 720 132 7 17 320 17 0 1 3",
               "par 625 1 13500000 0 132 7 17 320 17 0 1 3", "par 625 1 13500000 720 132 7 0 320 0 0 1 3",
               "par 625 1 13500000 720 132 400 3 320 17 0 1 3", "par 625 2 13500000 721 132 7 17 320 17 0 1 3",
               "par 625 1 13500000 720 132 7 3 320 4 1 1 3", "add 0x7", "add 7 x", "add -1 1", "remove", "remove zz",
               "reset 1", "decode 3", "decode 3 zz", "decode 3 0", "frame 1", "frame 1 0 1 3:0", "frame 1 0 1 3:0:zz",
               "frame 1 9 1", "slice 3 1 13500000 720 2 -", "slice 4 1 13500000 720 2 - 00", "slice 3 6 13500000 720 2 - 00",
               "slice 3 1 13500000 720 99 - 00", "slice 3 1 13500000 720 10 - 00", "slice 3 1 13500000 2 2 - 0000",
               "expect 3", "expect 3:1:00", "bogus", "table"]
        for _ in range(n):
            c = []
            for _k in range(rng.randrange(3, 10)):
                if rng.random() < 0.3:
                    c.append("par 625 1 13500000 720 132 7 17 320 17 0 1 3")
                    c.append("add 0x%x %d" % (rng.randrange(1 << 32), rng.choice([-1, 0, 1, 2, 3])))
                    c.append("frame 34 0 1")
                    c.append("remove 0x%x" % rng.randrange(1 << 32))
                c.append(rng.choice(bad))
            cases.append(c)
        return cases

    def gen_cases(self, rng, tier):
        q = tier == "quick"
        cases = [["table"]]
        cases += self.gen_history(rng, 200 if q else 2000, with_remove=False)
        cases += self.gen_history(rng, 50 if q else 400, with_remove=False, iface_old=True)
        cases += self.gen_history(rng, 40 if q else 400, with_remove=True)
        cases += self.gen_shared_line(rng, 120 if q else 1200)
        cases += self.gen_concrete(rng, 80 if q else 800)
        cases += self.gen_slices(rng, 300 if q else 4000)
        cases += self.gen_slices(rng, 80 if q else 800, fmts=[33, 35, 32, 34, 36, 37, 4, 5])
        cases += self.gen_malformed(rng, 30 if q else 200)
        cases += self.gen_tight(rng, 2 if q else 12)
        cases += self.gen_ties(rng, 24 if q else 200)
        cases += self.gen_windows(rng, 20 if q else 200)
        cases += self.gen_long(rng, 28 if q else 280)
        cases += self.gen_fromsvc(rng, 25 if q else 400)
        cases += self.gen_fromsvc_add(rng, 40 if q else 600)
        return cases

    # ------------------------------------------------------------------ classification / oracle
    def classify(self, case):
        ops = {l.split()[0] for l in case if l.split()}
        if "slice" in ops:
            return "slice"
        if "fromsvc" in ops:
            return "from-services"
        if "decode" in ops:
            return "concrete-decode"
        if "frame" in ops:
            if len(case) > 150:
                return "long-history"
            if any(l.startswith("par ") and (" 6 18 318 18 " in l or " 10 13 272 13 " in l) for l in case):
                return "window"
            if "remove" in ops:
                return "history+remove"
            for l in case:
                if l.startswith("par ") and l.split()[-1] == "2":
                    return "history-0.2-api"
            return "history"
        return "other"

    @staticmethod
    def expected(sp, services, tx, maxlines):
        """(id, line, payload) the property demands"""
        out = []
        for sid, row, pl in sorted(tx, key=lambda t: t[1]):
            cls = SVC[sid]["cls"] if sid in SVC else sid
            if sid & services:
                out.append((services & cls, sp.line_of(row), pl))
        return out[:maxlines]

    def oracle(self, case, out):
        w = self.oracle1(case, out)
        return w

    def oracle1(self, case, out):
        sp, services, ever, pending, removed = None, 0, 0, None, False
        fs_last, fs_par = None, None

        def fail(msg, fmt=None, rate=None, sv=None, old16=False):
            tags = domain_tags(fmt if fmt is not None else (sp.fmt if sp else 1), rate if rate is not None else (sp.rate if sp else 0),
                               sv if sv is not None else ever, removed, old16)
            return msg + (" {%s}" % ",".join(tags) if tags else "")

        for idx, line in enumerate(case):
            if idx >= len(out):
                return None  # truncated run (incident handled elsewhere)
            w, o = line.split(), out[idx].split()
            if not w:
                continue
            op = w[0]
            if o[0] in ("rej",):
                if op == "par":
                    sp = None
                continue
            if o[0] == "err":
                continue
            if op == "table":
                if out[idx] != "ok ways=8 jobs=8 sliced=64 data=56":
                    return "table constants changed: " + out[idx]
            elif op == "par":
                sp, services, ever, pending, removed = parse_par(line), 0, 0, None, False
                fs_par = fs_last if (fs_last and w[1:12] == fs_last[3]) else None
            elif op in ("add", "remove", "reset"):
                try:
                    services = int(o[1], 16)
                except (ValueError, IndexError):
                    return "unparsable " + op
                if op == "add" and fs_par is not None and int(w[1], 0) == fs_par[2] and ever == 0:
                    want = fs_par[2] & ~0x60000000
                    if services != want:
                        strict = int(w[2])
                        tags = []
                        if strict >= 1 and fromsvc_domain(fs_par[0], fs_par[1]) and not fromsvc_flag("fsEndFixed"):
                            tags.append("from-services-range")
                        if strict >= 1 and fs_par[2] & 0x8000:
                            tags.append("from-services-strict-length")
                        return ("parameters computed by from_services do not admit the returned services (returned 0x%x, "
                                "add_services strict %d accepts 0x%x; request 0x%x)" % (fs_par[2], strict, services, fs_par[1])
                                + (" {%s}" % ",".join(tags) if tags else ""))
                ever |= services
                if op == "remove":
                    removed = True
                # the job list must agree with the reported services: every service has a job, every job a service
                jf = self.field(o, "j=")
                jobs = [int(x, 16) for x in jf.split(",")] if jf not in ("", "-") else []
                jm = 0
                for j in jobs:
                    jm |= j
                if jm & ~services & 0xFFFFFFFF:
                    return fail("job for a service not in the returned set after %s (jobs 0x%x services 0x%x)" % (op, jm, services))
                if services & ~jm:
                    return fail("returned service without a job after %s (jobs 0x%x services 0x%x)" % (op, jm, services))
            elif op == "fromsvc":
                w1 = self.oracle_fromsvc(w, o)
                if w1:
                    return w1
                try:
                    fs_last = (int(w[1]), int(w[2], 0), int(o[1], 16),
                               [self.field(o, k + "=") for k in ("sc", "fmt", "rate", "bpl", "off", "s0", "c0", "s1", "c1", "il", "sy")])
                except (ValueError, IndexError):
                    fs_last = None
            elif op == "expect":
                pending = parse_recs(w[1:])
            elif op in ("frame", "decode"):
                if sp is None:
                    continue
                ml = int(w[1])
                tx = parse_recs(w[4:]) if op == "frame" else pending
                if op == "decode":
                    pending = None
                try:
                    n = int(o[1])
                    got = []
                    for t in o[2:2 + n]:
                        a = t.split(":")
                        got.append((int(a[0], 16), int(a[1]), bytes.fromhex("" if a[2] == "-" else a[2])))
                except (ValueError, IndexError):
                    return "unparsable decode output"
                if self.field(o, "g=") != "ok":
                    return "record array written beyond the returned count (%s)" % self.field(o, "g=")
                if n > ml or len(got) != n:
                    return "more records than max_lines"
                for g in got:
                    if g[0] == 0 or (g[0] & ~services):
                        return fail("record with service id 0x%x outside the requested set 0x%x" % (g[0], services))
                if sp.sync and sp.s0 and sp.s1:
                    ls = [g[1] for g in got]
                    if any(b <= a for a, b in zip(ls, ls[1:])):
                        return "line numbers not ascending"
                if tx is None:
                    continue
                # lines carrying a service that is not (or no longer) requested: the property only says they are
                # never reported under an id outside the requested set (checked above); what a requested slicer
                # makes of them is not constrained.  They are matched by line number.
                unreq = [t for t in tx if not (t[0] & services)]
                if unreq:
                    if not (sp.sync and (sp.s0 or not sp.c0) and (sp.s1 or not sp.c1)):
                        continue
                    ul = {sp.line_of(t[1]) for t in unreq}
                    got = [g for g in got if g[1] not in ul]
                    if ml < sp.lines():
                        continue
                exp = self.expected(sp, services, tx, ml)
                if got != exp:
                    return fail(self.describe(exp, got))
            elif op == "slice":
                tx, pending = pending, None
                if tx is None or len(o) < 2:
                    continue
                want = hexs(tx[0][2])
                if o[1] != want:
                    v = "new" if w[1] == "3" else "old"
                    f = int(w[2])
                    return fail("%s bit slicer: %s instead of the transmitted payload" % (
                        v, "no match" if o[1] == "fail" else "wrong payload"), f, int(w[3]), tx[0][0], old16=(w[1] == "2" and f >= 38))
        return None

    def oracle_fromsvc(self, w, o):
        """vbi_sampling_par_from_services returns the "subset of services covered by the calculated sampling parameters":
        every returned service must lie inside the returned scan line ranges and the returned horizontal window, the rate
        must be at least the minimum of the property text, the services must belong to one line system."""
        try:
            fam, sv, rsv = int(w[1]), int(w[2], 0), int(o[1], 16)
            f = {k: int(self.field(o, k + "=")) for k in ("sc", "fmt", "rate", "bpl", "off", "s0", "c0", "s1", "c1", "il", "sy", "max")}
        except (ValueError, IndexError):
            return "unparsable fromsvc"
        tag = " {from-services-range}" if (fromsvc_domain(fam, sv) and not fromsvc_flag("fsEndFixed")) else ""
        # ids are those of whole table rows: a request touching Teletext B 625 (0x1 / 0x2) is answered with the row ids 0x1, 0x3
        if rsv & ~(sv | (0x3 if sv & 0x3 else 0)) & 0xFFFFFFFF:
            return "from_services returns a service that was not requested (0x%x of 0x%x)" % (rsv, sv)
        if rsv == 0:
            return None
        sp = Sp(f["sc"], f["fmt"], f["rate"], f["bpl"] // bpp_of(f["fmt"]) if f["fmt"] in BPP else 0, f["off"], f["s0"], f["c0"],
                f["s1"], f["c1"], f["il"], f["sy"])
        for sid in SVC:
            if sid & rsv != sid:
                continue
            d = SVC[sid]
            if d["scan"] != f["sc"]:
                return "from_services returns service 0x%x of the other line system (scanning %d)" % (sid, f["sc"])
            for k, st, ct in (("l0", f["s0"], f["c0"]), ("l1", f["s1"], f["c1"])):
                if d[k] and not (ct > 0 and 0 < st <= d[k][0] and d[k][1] <= st + ct - 1):
                    return ("from_services: returned service not covered by the returned scan lines (0x%x needs %d-%d, "
                            "returned start %d count %d; request 0x%x)" % (sid, d[k][0], d[k][1], st, ct, sv)) + tag
            if f["rate"] < d["minrate"] or not f["sy"] or f["il"]:
                return "from_services: rate / field flags do not suit service 0x%x" % sid
            # horizontally only the length is demanded (FRC + payload of the service fit the window): zvbi's table places the
            # start of the window at the nominal start of the run-in, io-sim starts the run-in up to 0.6 us earlier - the
            # first run-in bits are not needed by the CRI search
            a_, b_ = sig_span(sid)
            if sp.spl * 1e6 / sp.rate < (b_ - a_) - 0.7:
                return "from_services: returned service 0x%x does not fit the returned horizontal window" % sid
        return None

    @staticmethod
    def field(o, key):
        for t in o:
            if t.startswith(key):
                return t[len(key):]
        return ""

    @staticmethod
    def fmt_class(f):
        return "15/16-bit RGB" if f >= 38 else "8-bit"

    @staticmethod
    def describe(exp, got):
        if len(got) < len(exp):
            return "transmitted line not decoded (%d of %d records)" % (len(got), len(exp))
        if len(got) > len(exp):
            return "record for a line that carries nothing decodable (%d instead of %d)" % (len(got), len(exp))
        for e, g in zip(exp, got):
            if e[1] != g[1]:
                return "record on the wrong line"
            if e[0] != g[0]:
                return "record with the wrong service id"
            if e[2] != g[2]:
                return "payload differs from the transmitted bits"
        return "records differ"

    def signature(self, case, what):
        import re
        w = what
        for pre in ("crash", "hang"):
            if w.startswith(pre):
                return "rawdec|" + w[:120]
        m = re.search(r" \{([^}]*)\}$", w)
        if m:
            return "rawdec|known-domain:" + m.group(1).split(",")[0]
        shape = w.split(" (")[0]
        shape = re.sub(r"0x[0-9a-f]+", "N", shape)
        shape = re.sub(r"\d+", "N", shape)
        return "rawdec|" + shape

    def nontrivial(self, case, impl_out):
        return any(l.startswith("ok ") and len(l) > 6 for l in impl_out)


if __name__ == "__main__":
    verif.run_check(C04())
