#!/usr/bin/env python3
"""C20 - documented cross-thread use of service decoder and raw decoder is race-free.

Tie of the Lean table to the code: translator based (translate/gen_locks.py regenerates
Generated/Locks.lean from the current source on every run, Lean re-proves the discipline on it).
The translator is cross-checked against the real code in two ways:
  * every lock/unlock/callback/field-change trace of an API call observed on the real code
    (ThreadSanitizer build, mutex calls wrapped) must be a path of the extracted graph
    (`zvbi_model locks accept ...`) - this is the correspondence step of run_check;
  * every ThreadSanitizer race must be a conflicting pair the extraction lists as unbracketed.
Property oracle (independent of the model): on the traces, a documented shared field changes only
while its mutex is held, callbacks never arrive with cc.mutex held, mutexes are used well bracketed;
on the concurrent runs, no ThreadSanitizer report, no torn caption page, no watchdog; at the deterministic schedule
points (`sched`), a channel switch requested at any release of chswcd_mutex inside vbi_decode() is neither overwritten by
a stale countdown (lost update) nor left without the documented reset at the next frame.
Atomicity of read-modify-write sequences: translate/gen_locks_rmw.py -> Generated/LocksRmw.lean, Props/C20Rmw.lean.
"""
import json, os, re, subprocess, sys
sys.path.insert(0, os.path.join(os.path.dirname(os.path.abspath(__file__)), "..", "lib"))
import verif

TSAN_FLAGS = ["-O1", "-g", "-fsanitize=thread", "-fno-omit-frame-pointer"]
WRAP = ["-Wl,--wrap=pthread_mutex_lock,--wrap=pthread_mutex_unlock,--wrap=pthread_mutex_trylock,"
        "--wrap=vbi_caption_channel_switched"]
TSAN_ENV = {"TSAN_OPTIONS": "exitcode=0:history_size=7:second_deadlock_stack=1:report_thread_leaks=0"}

# ---------------------------------------------------------------------------------------------
# wrapping of lib/verif.py (not edited): TSan build, own runner, extra known-findings file
# ---------------------------------------------------------------------------------------------
_orig_build_harness = verif.build_harness


def build_harness(name, link_lib=True, flags=None, extra=None, tag="san", cc="gcc"):
    return _orig_build_harness(name, link_lib=link_lib, flags=TSAN_FLAGS, extra=WRAP + list(extra or []), tag="tsan", cc=cc)


verif.build_harness = build_harness

_orig_load_known = verif.load_known


def load_known():
    k = _orig_load_known()
    p = os.path.join(verif.VERIF, "known_findings.C20.json")
    if os.path.exists(p):
        mine = json.load(open(p)).get("findings", [])
        have = {(f.get("property"), f.get("signature")) for f in k.get("findings", [])}
        k.setdefault("findings", [])
        k["findings"] += [f for f in mine if (f.get("property"), f.get("signature")) not in have]
    return k


verif.load_known = load_known

_orig_regenerate = verif.regenerate
_xcheck = {}


def regenerate():
    """translators, then the mechanical cross-check of the lock extractor against the compiler's GIMPLE
    (translate/locks_gimple_xcheck.py); a difference is a broken tie model <-> code and is reported like
    a failing translator: `VIOLATION ... no-failing-input-found`, the function named in the replay header"""
    out = _orig_regenerate()
    x = os.path.join(verif.VERIF, "translate", "locks_gimple_xcheck.py")
    if any(f == "gen_locks.py" and rc != 0 for f, rc, _ in out):
        return out                       # no table to compare
    rc, so, se = verif.sh([sys.executable, x], timeout=120)
    msg = (so + se).strip()
    _xcheck["rc"] = rc
    _xcheck["summary"] = [l for l in msg.split("\n") if "functions compared" in l][-1:] or [msg[-300:]]
    _xcheck["broken"] = [l for l in msg.split("\n") if "BROKEN TIE" in l][:20]
    _xcheck["notes"] = [l for l in msg.split("\n") if ": note " in l][:20]
    out.append(("locks_gimple_xcheck.py (extractor vs gcc -fdump-tree-gimple)", rc,
                "\n".join(_xcheck["broken"]) or msg[-1500:]))
    return out


verif.regenerate = regenerate

API_FNS = ["vbi_decode", "vbi_fetch_cc_page", "vbi_channel_switched", "vbi_raw_decode", "vbi_raw_decoder_add_services",
           "vbi_raw_decoder_remove_services", "vbi_raw_decoder_check_services", "vbi_raw_decoder_resize",
           "vbi_raw_decoder_parameters", "vbi_raw_decoder_reset", "vbi_event_handler_register"]
MARKERS = ["vbi_caption_channel_switched", "vbi_caption_desync"]


def stack_label(frames):
    """frames innermost first -> 'root/marker'"""
    fr = [f for f in frames if not f.startswith(("__wrap_", "__interceptor", "pthread_", "__tsan", "memcpy", "memset",
                                                 "__real_", "handler", "do_fetch", "th_", "run_stream", "main", "op_"))]
    root = next((f for f in reversed(fr) if f in API_FNS), None)
    if root is None:
        root = fr[-1] if fr else "?"
    mark = next((m for m in MARKERS if m in fr), None)
    if mark is None:
        mark = fr[0] if fr else "?"
    return root if mark == root else "%s/%s" % (root, mark)


def parse_tsan(stderr):
    """-> dict case# -> sorted list of canonical report lines"""
    out = {}
    cur = None
    blocks = re.split(r"^=+\s*$", stderr, flags=re.M)
    for b in blocks:
        for m in re.finditer(r"^@@case (\d+)", b, flags=re.M):
            cur = int(m.group(1))
        m = re.search(r"WARNING: ThreadSanitizer: ([^\n(]*)", b)
        if not m:
            continue
        # a marker may precede the report inside the same block
        pre = b[:m.start()]
        for mm in re.finditer(r"^@@case (\d+)", pre, flags=re.M):
            cur = int(mm.group(1))
        kind = m.group(1).strip()
        stacks = []
        for sec in re.split(r"\n\s*\n", b):
            frames = re.findall(r"^\s+#\d+ (\S+) ", sec, flags=re.M)
            if not frames:
                continue
            if kind == "data race" and re.search(r"^\s*(Previous )?(atomic )?(write|read) of size", sec, flags=re.I | re.M):
                stacks.append(frames)
            elif kind.startswith("lock-order") and "acquired here" in sec:
                stacks.append(frames)
        if kind == "data race":
            labs = sorted(stack_label(s) for s in stacks[:2]) or ["?"]
            line = "race " + "~".join(labs)
        elif kind.startswith("lock-order"):
            acq = sorted({next((f for f in s if not f.startswith(("__wrap_", "__interceptor", "pthread_"))), "?") for s in stacks})
            line = "lockorder " + "~".join(acq)
        else:
            line = "tsan " + re.sub(r"\s+", "-", kind)
        # markers after the report (the next case started) must not re-label this one
        out.setdefault(cur if cur is not None else -1, set()).add(line)
        for mm in re.finditer(r"^@@case (\d+)", b[m.end():], flags=re.M):
            cur = int(mm.group(1))
    return {k: sorted(v) for k, v in out.items()}


_last_impl = {}
_skipped = set()          # cases not executed because the harness kept failing the same way


def run_side(cmd, cases, timeout_per_case=5.0, env=None, min_timeout=20.0):
    if os.path.basename(cmd[0]) == "zvbi_model":
        return run_model(cmd, cases, timeout_per_case)
    return run_impl(cmd, cases, timeout_per_case)


def run_impl(cmd, cases, timeout_per_case):
    """sequential cases in one process, every concurrent case in a process of its own
    (ThreadSanitizer reports each racing pair once per process)"""
    outputs, incidents = {}, []
    e = dict(os.environ)
    e.update(TSAN_ENV)
    seq = [i for i, c in enumerate(cases) if not any(l.startswith("par ") for l in c)]
    par = [i for i, c in enumerate(cases) if any(l.startswith("par ") for l in c)]

    def run(idxs, to):
        text = "".join("case %d\n%s\n" % (i, "\n".join(cases[i])) for i in idxs)
        try:
            p = subprocess.run(cmd, input=text.encode(), stdout=subprocess.PIPE, stderr=subprocess.PIPE, timeout=to, env=e)
            return p.returncode, p.stdout.decode("utf-8", "replace"), p.stderr.decode("utf-8", "replace"), False
        except subprocess.TimeoutExpired as ex:
            return -9, (ex.stdout or b"").decode("utf-8", "replace"), (ex.stderr or b"").decode("utf-8", "replace"), True

    def absorb(so, se):
        got = verif.split_cases(so)
        outputs.update(got)
        for k, lines in parse_tsan(se).items():
            if k in outputs:
                outputs[k] = outputs[k] + lines
            elif k >= 0:
                outputs[k] = lines
        return got

    def complete(se):
        return "@@done" in se

    todo = list(seq)
    while todo:
        rc, so, se, hung = run(todo, (6.0 if len(todo) <= 2 else 40.0) + 0.08 * len(todo))
        got = absorb(so, se)
        if rc == 0 and not hung and complete(se):
            break
        last = max(got.keys()) if got else todo[0]
        incidents.append({"case": last, "kind": "hang" if (hung or rc == 70 or "WATCHDOG" in se) else "crash", "rc": rc,
                          "detail": ("no progress within the watchdog (deadlock)\n" if hung else "") + se[-3000:]})
        todo = [i for i in todo if i > last]
        if len(incidents) >= 3:           # the same failure over and over: stop, the rest stays unexplored
            _skipped.update("\n".join(cases[i]) for i in todo)
            break
    for i in par:
        if len(incidents) >= 5:
            _skipped.add("\n".join(cases[i]))
            continue
        rc, so, se, hung = run([i], 150.0)
        absorb(so, se)
        if rc != 0 or hung or not complete(se):
            kind = "hang" if (hung or rc == 70 or "WATCHDOG" in se) else "crash"
            incidents.append({"case": i, "kind": kind, "rc": rc, "detail": se[-3000:]})
    _last_impl.clear()
    _last_impl.update(outputs)
    return outputs, incidents


def trace_lines(out_lines):
    return [l for l in out_lines if l.startswith("ok vbi_")]


def strip_marks(tokens):
    return [t for t in tokens if not t.startswith("!")]


def run_model(cmd, cases, timeout_per_case):
    """the model side answers for the traces the implementation produced: is each one a path of the
    extracted graph?  Lines that are not traces are copied (they are judged by the oracle only)."""
    outputs = {}
    text = []
    for i in range(len(cases)):
        text.append("case %d" % i)
        for l in _last_impl.get(i, []):
            if l.startswith("ok vbi_"):
                w = l.split()
                text.append("accept " + " ".join([w[1]] + strip_marks(w[2:])))
    p = subprocess.run(cmd, input=("\n".join(text) + "\n").encode(), stdout=subprocess.PIPE, stderr=subprocess.PIPE,
                       timeout=max(60.0, 0.2 * len(cases)))
    got = verif.split_cases(p.stdout.decode("utf-8", "replace"))
    incidents = []
    if p.returncode != 0:
        incidents.append({"case": max(got.keys()) if got else 0, "kind": "crash", "rc": p.returncode,
                          "detail": p.stderr.decode("utf-8", "replace")[-2000:]})
    for i in range(len(cases)):
        verdicts = list(got.get(i, []))
        res = []
        for l in _last_impl.get(i, []):
            if l.startswith("ok vbi_"):
                v = verdicts.pop(0) if verdicts else "<missing>"
                if v.startswith("ok "):
                    res.append(l)            # accepted: identical line (the ! marks are not part of the path)
                else:
                    res.append(v)
            else:
                res.append(l)
        outputs[i] = res
    return outputs, incidents


verif.run_side = run_side

# ---------------------------------------------------------------------------------------------
# generators
# ---------------------------------------------------------------------------------------------
HAM8 = [0x15, 0x02, 0x49, 0x5E, 0x64, 0x73, 0x38, 0x2F, 0xD0, 0xC7, 0x8C, 0x9B, 0xA1, 0xB6, 0xFD, 0xEA]


def odd(c):
    c &= 0x7F
    return c | (0 if bin(c).count("1") & 1 else 0x80)


def cc(a, b, line=21, par=True):
    if par:
        a, b = odd(a), odd(b)
    return "c%d:%02x%02x" % (line, a & 255, b & 255)


def text_pairs(s):
    if len(s) % 2:
        s += "\0"
    return [(ord(s[i]), ord(s[i + 1])) for i in range(0, len(s), 2)]


def xds_packet(cls, typ, payload):
    bs = [cls, typ] + list(payload)
    if len(bs) % 2:
        bs.append(0x40 if False else 0)
    s = sum(bs) + 0x0F
    bs += [0x0F, (-s) & 0x7F]
    return [(bs[i], bs[i + 1]) for i in range(0, len(bs), 2)]


def ttx_header(rng, mag, page, flags=0):
    b = [HAM8[(mag & 7) | 0], HAM8[0]]          # packet 0
    b += [HAM8[page & 15], HAM8[(page >> 4) & 15]]
    b += [HAM8[0], HAM8[0], HAM8[0], HAM8[0], HAM8[flags & 15], HAM8[0]]
    txt = "%-24s%s" % ("ZVBI TEST", "12:34:56" if flags == 0 else "%02d:%02d:%02d" % (rng.randrange(24), rng.randrange(60), rng.randrange(60)))
    b += [odd(ord(c)) for c in txt[:32]]
    return "t:" + "".join("%02x" % x for x in b[:42])


def ttx_station_header(mag, page, station, clock="12:34:56", damage=None):
    """rolling page header (no control bits) of page <mag><page> whose text carries the page number, as
    same_header() needs it, the station name and a clock; damage = index of a text byte with wrong parity"""
    b = [HAM8[mag & 7], HAM8[0], HAM8[page & 15], HAM8[(page >> 4) & 15]] + [HAM8[0]] * 6
    txt = "%x%02x %-20.20s%-8.8s" % (mag & 7 or 8, page & 0xFF, station, clock)
    t = [odd(ord(c)) for c in txt[:32]]
    if damage is not None:
        t[damage % 32] ^= 0x80
    return "t:" + "".join("%02x" % x for x in (b + t)[:42])


class C20(verif.Spec):
    prop = "C20"
    comp = "locks"
    # the root first: lake then builds the table parts in parallel, the later entries are no-ops
    lean_modules = ["ZvbiModel.Props.C20", "ZvbiModel.Props.C20TableA", "ZvbiModel.Props.C20TableB",
                    "ZvbiModel.Props.C20TableC", "ZvbiModel.Props.C20TableD", "ZvbiModel.Props.C20Snapshot",
                    "ZvbiModel.Props.C20Rmw"]
    harness = "locks_harness"
    harness_link_lib = True
    timeout_per_case = 5.0
    partial_note = ("Proof of lock discipline, deadlock freedom, critical-section exclusiveness and section-level "
                    "serialisability over an abstraction extracted from the source (control-flow graphs with "
                    "lock/unlock/access/callout actions), not over the C semantics; sequential consistency assumed (no "
                    "memory-model effects); accesses are field-granular over a fixed list of shared fields; roles outside "
                    "the documented set (vbi_event_handler_register from another thread, resize/reset concurrently with "
                    "decode) are not claimed. No exception list: the defects K1/K2/K3 of the first delivery are repaired in "
                    "the source (c1561e0, f194102) and the theorems are stated with noKnown/noSite. In the Cc instance of "
                    "the serialisability theorem the split of one vbi_decode_caption call into the sections between its "
                    "callbacks is a parameter (any split whose composition is Cc.decodePair): the Cc model counts events "
                    "but does not expose the intermediate states. Atomicity of read-modify-write sequences (no lost update): "
                    "the dependent read/write pairs are extracted by translate/gen_locks_rmw.py (data and control dependence "
                    "through locals, parameters and return values of inlined callees, path-insensitive, over-approximating); "
                    "on the current tree every pair of vbi.chswcd and of the caption dirty regions lies in one critical section "
                    "except the expiry-clear pair (countdown expires in vbi_decode's section, vbi_chsw_reset clears it in a later "
                    "one), whose serialisability against vbi_channel_switched is proved on a hand-written value-level shape "
                    "(expiry_clear_serializable) matched to the source by extracted flags (control dependence, literal 0 stored, "
                    "read consumed in its own section, every concurrent write stores the literal 1) and by the schedule-point "
                    "harness, not by a statement-by-statement extraction of the values.")
    assumptions = ["pthread mutexes give mutual exclusion; lock blocks, trylock does not",
                   "at most one thread calls vbi_decode on a decoder (documented: not reentrant)",
                   "event handlers call only vbi_fetch_cc_page / vbi_channel_switched on the decoder",
                   "buffers passed to vbi_raw_decode match rd->count[] (so resize is not concurrent with decode)"]
    trusted_base = ["translate/gen_locks.py: C statement parser, inlining, pointer-provenance rules (cross-checked three ways: "
                    "every runtime lock/callback/field-change trace is accepted as a path of the graph; every TSan race is a "
                    "listed pair; per C function the ordered pthread_mutex_* calls with line and mutex, the shared fields "
                    "written, the callouts and the calls agree with what gcc -fdump-tree-gimple shows, derived by "
                    "type-based provenance in translate/locks_gimple_xcheck.py)",
                    "harness/locks_harness.c + ThreadSanitizer (gcc 12 libtsan) as the runtime detector",
                    "Locks/Instance.lean: the lock order and the field <-> mutex association",
                    "translate/gen_locks_rmw.py: dependence analysis (taint through locals / parameters / return values, control "
                    "context, section tokens) on the parser and provenance of gen_locks.py; cross-checked at run time by the "
                    "schedule-point harness (op `sched`: vbi_channel_switched() after the k-th release of chswcd_mutex inside "
                    "one vbi_decode() call, outcome judged against the documented `reset at the next frame`)"]
    open_statements = ["table_rmw_whole_full (every dependent read/write pair in ONE section, no exception): false on the current "
                       "tree for the expiry-clear pair vbi_decode:463 -> vbi_chsw_reset:560; proved instead: "
                       "table_rmw_whole_modulo_expiry_clear + expiry_clear_serializable (value-level shape model; what is missing is "
                       "a mechanical extraction of the guard `--chswcd == 0` and of the stored values into that model)"]
    rule = ("cases = corpus + seeded sequential op streams (caption command scripts incl. XDS and ITV triggers, teletext/VPS "
            "lines, Teletext services with rolling headers whose station name changes with/without announcement, fetch / channel "
            "switch / raw decoder service changes, malformed op lines) + deterministic schedule points (`sched`: a channel "
            "switch request after the k-th release of chswcd_mutex inside one vbi_decode call, for every countdown state x "
            "regular / late frame x k, and random ones with Teletext headers) + concurrent role mixes incl. station changes "
            "(`par`); non-trivial = at least one API trace or concurrent run was produced; distinct by md5 of the op lines")

    def gen_cases(self, rng, tier):
        quick = tier == "quick"
        cases = []
        n_seq = 1000 if quick else 12000
        for k in range(n_seq):
            cases.append(self.station_case(rng) if k % 16 == 7 else self.seq_case(rng, k))
        cases.append(self.malformed_case(rng))
        cases += self.sched_cases(rng, 40 if quick else 400)
        # concurrent mixes: (threads, handler mode, gap, frames)
        mixes = [("DFF", 1, 97, 2500), ("DFF", 0, 53, 2000), ("DFC", 1, 0, 400), ("DFCF", 3, 61, 250), ("DF", 0, 0, 3000),
                 ("DFFF", 1, 0, 2000), ("DCC", 2, 0, 300), ("RAA", 0, 0, 1500), ("RRA", 0, 0, 1000), ("RAAA", 0, 0, 1500),
                 ("DFRA", 1, 83, 800),
                 # Teletext station changes nobody announced (header mismatch in the same magazine), with and
                 # without a concurrent vbi_channel_switched() caller
                 ("TFF", 1, 0, 900), ("TC", 0, 0, 500), ("TCF", 3, 61, 400)]
        if not quick:
            mixes = [(a, b, c, d * 2) for (a, b, c, d) in mixes] * 4
        for th, mode, gap, frames in mixes:
            cases.append(["par %d %d %d %d %s" % (rng.randrange(1 << 30), frames, mode, gap, th)])
        return cases

    def caption_script(self, rng, n):
        """list of (line, a, b) frames"""
        fr = []
        f2 = rng.random() < 0.25
        line = 284 if f2 else 21
        chan = rng.choice([0x14, 0x1C])
        if f2:
            chan += 1
        def cmd(b, rep=True):
            fr.append((line, chan, b))
            if rep and rng.random() < 0.7:
                fr.append((line, chan, b))
        kind = rng.random()
        if kind < 0.2:        # roll-up
            cmd(rng.choice([0x25, 0x26, 0x27]))
            for _ in range(n):
                for a, b in text_pairs("".join(rng.choice("ABCDEFG hijk") for _ in range(rng.randrange(2, 12)))):
                    fr.append((line, a, b))
                cmd(0x2D)
        elif kind < 0.4:      # pop-on
            for _ in range(n):
                cmd(0x20)
                cmd(0x2E)
                fr.append((line, 0x11 + rng.randrange(7), 0x40 + rng.randrange(0x40)))
                for a, b in text_pairs("".join(rng.choice("pop ON") for _ in range(rng.randrange(2, 20)))):
                    fr.append((line, a, b))
                cmd(0x2F)
                if rng.random() < 0.3:
                    cmd(0x2C)
        elif kind < 0.55:     # paint-on, misc commands
            cmd(0x29)
            for _ in range(n):
                fr.append((line, 0x11 + rng.randrange(7), 0x40 + rng.randrange(0x40)))
                fr.append((line, 0x11, 0x20 + rng.randrange(16)))
                fr.append((line, 0x11, 0x30 + rng.randrange(16)))
                for a, b in text_pairs("paint"):
                    fr.append((line, a, b))
                cmd(rng.choice([0x21, 0x24, 0x28, 0x2C, 0x2D]))
                fr.append((line, 0x17, 0x21 + rng.randrange(3)))
        elif kind < 0.75:     # text mode with ITV triggers (T2 = second channel of field 1)
            fr.append((21, 0x1C, rng.choice([0x2A, 0x2B])))
            for _ in range(max(1, n // 2)):
                url = rng.choice(["<http://a.bc>", "<http://zvbi.test/x>[n:X]", "<lid://q>", "<http://w*>", "<nonsense", "<http://t.v>[t:p][v:t]"])
                for a, b in text_pairs(url + "<"):
                    fr.append((21, a, b))
                if rng.random() < 0.5:
                    fr.append((21, 0x1C, 0x2D))
        else:                 # XDS on field 2
            for _ in range(n):
                r = rng.random()
                if r < 0.3:
                    pk = xds_packet(0x05, 0x01, [ord(c) for c in rng.choice(["ABC", "ZDF", "NBC4", "X"])])
                elif r < 0.5:
                    pk = xds_packet(0x01, 0x03, [ord(c) for c in rng.choice(["News", "A long program title"])])
                elif r < 0.65:
                    pk = xds_packet(0x01, 0x09, [0x40 + rng.randrange(32), 0x40 + rng.randrange(32)] + ([0x40] if rng.random() < .5 else []))
                elif r < 0.8:
                    pk = xds_packet(0x05, 0x02, [ord(c) for c in "WABC"])
                else:
                    pk = xds_packet(1 + rng.randrange(14), rng.randrange(0x20), [0x20 + rng.randrange(0x5F) for _ in range(rng.randrange(1, 10))])
                for a, b in pk:
                    fr.append((284, a, b))
                if rng.random() < 0.4:       # interleave a caption byte pair on field 2
                    fr.append((284, 0x15, 0x2C))
        return fr

    def sched_cases(self, rng, n_random):
        """deterministic schedule points: vbi_channel_switched() placed after the k-th release of chswcd_mutex inside one
        vbi_decode() call, for every countdown state the decoder can be in (idle, just started by dropped frames, running,
        about to expire, switch already requested) x (regular frame, frame after a time gap) x k; then random ones whose
        frame carries Teletext page headers (the store_lop() uses of the countdown)"""
        out = []
        preludes = [[], ["decode 300"], ["decode 300", "decode 33"], ["decode 300"] + ["decode 33"] * 38,
                    ["decode 300"] + ["decode 33"] * 39, ["chsw"], ["decode 33", "decode 33"]]
        for pre in preludes:
            for dt in (33, 300):
                for k in (1, 2, 3):
                    out.append(["handler 0x7fffffff 0", "decode 33"] + pre + ["sched %d %d" % (dt, k), "decode 33", "fetch 1"])
        for _ in range(n_random):
            c = ["handler 0x%x %d" % (rng.choice([0x7fffffff, 0x1, 0x1 | 0x10 | 0x40]), rng.choice([0, 1, 3]))]
            a, b2 = rng.sample(["STATION ONE", "OTHER TV", "ZVBI TEST", "X"], 2)
            mag = rng.choice([1, 1, 2])
            n = 0
            def hdr(station):
                nonlocal n
                d = n % 100
                n += 1
                return ttx_station_header(mag, (d // 10) * 16 + d % 10, station)
            for _ in range(rng.randrange(0, 4)):
                c.append("decode 33 " + hdr(a))
            c += rng.choice(preludes)
            items = []
            for _ in range(rng.randrange(0, 3)):
                items.append(hdr(rng.choice([a, a, b2])))
            if rng.random() < 0.3:
                items.append(cc(0x14, rng.choice([0x25, 0x2C, 0x2D, 0x20, 0x2F])))
            c.append(("sched %d %d " % (rng.choice([33, 33, 300]), rng.randrange(1, 4)) + " ".join(items)).strip())
            c += ["decode 33", "fetch 1"]
            out.append(c)
        return out

    def station_case(self, rng):
        """Teletext service with consistent rolling headers, then the header text changes: in the same magazine
        (an unannounced station change: store_lop resets the decoder at once), in another magazine, across the
        23h -> 00h date transition, with a parity error, after an announced switch or during a frame-drop countdown"""
        c = ["handler 0x%x %d" % (rng.choice([0x7fffffff, 0x7fffffff, 0x1 | 0x10 | 0x40, 0x1]), rng.choice([0, 1, 1, 3]))]
        mag = rng.choice([1, 1, 1, 2, 8])
        a, b2 = rng.sample(["STATION ONE", "OTHER TV", "ZVBI TEST", "Third Programme 3", "X"], 2)
        clock = "12:34:%02d" % rng.randrange(60)
        page = rng.choice([0, 10, 23, 45])
        def hdr(station, n, **kw):
            d = (page + n) % 100
            pg = (d // 10) * 16 + d % 10               # BCD page number
            return ttx_station_header(mag, pg, station, kw.pop("clock", clock), **kw)
        def dec(item, extra=None):
            items = [item]
            if extra is None and rng.random() < 0.3:
                items.append(cc(0x14, rng.choice([0x25, 0x2C, 0x2D, 0x20, 0x2F])))
            c.append("decode 33 " + " ".join(items))
        n = 0
        for _ in range(rng.randrange(3, 6)):          # station A: the reference header is stored
            dec(hdr(a, n)); n += 1
        kind = rng.choice(["same-mag", "same-mag", "same-mag", "announced", "other-mag", "date", "parity", "countdown", "fetch-between"])
        if kind == "announced":
            c.append("chsw")
            c.append("decode 33")
        elif kind == "countdown":
            c.append("decode 300")                     # frames dropped: 40 frame countdown runs
        elif kind == "fetch-between":
            c.append("fetch %d" % rng.randrange(1, 9))
        if kind == "other-mag":
            m2 = 3 if mag != 3 else 4
            for k in range(3):
                c.append("decode 33 " + ttx_station_header(m2, 0x10 + k, b2, clock))
        elif kind == "date":
            for k in range(3):
                dec(hdr(a, n, clock="23:59:5%d" % k)); n += 1
            for k in range(3):
                dec(hdr(a + "!", n, clock="00:00:0%d" % k)); n += 1
        elif kind == "parity":
            for k in range(3):
                dec(hdr(b2, n, damage=rng.randrange(4, 24))); n += 1
        for _ in range(rng.randrange(3, 6)):          # station B: old header once more, then the mismatch
            dec(hdr(b2, n)); n += 1
            if rng.random() < 0.15:
                c.append("chsw")
        for _ in range(rng.randrange(0, 3)):          # and sometimes back again
            dec(hdr(a, n)); n += 1
        c.append(rng.choice(["chsw", "fetch 1", "decode 33"]))
        c.append("decode 33 " + hdr(b2, n))
        c.append("decode 33")
        return c

    def seq_case(self, rng, k):
        c = []
        mode = rng.choice([0, 1, 1, 1, 3])
        mask = rng.choice([0x7fffffff, 0x7fffffff, 0x4 | 0x10, 0x10, 0, 0x4, 0x8 | 0x40 | 0x100])
        if rng.random() < 0.85:
            c.append("handler 0x%x %d" % (mask, mode))
        raw = rng.random() < 0.35
        if raw:
            c.append("rawinit %d 0x%x %d" % (rng.choice([625, 625, 525]), rng.choice([0x40f, 0x2, 0x400, 0x1fff, 0x60]), rng.randrange(3)))
        frames = self.caption_script(rng, rng.randrange(1, 5)) if rng.random() < 0.9 else []
        i = 0
        steps = rng.randrange(8, 40)
        for _ in range(steps):
            r = rng.random()
            if r < 0.62:
                dt = 33
                if rng.random() < 0.06:
                    dt = rng.choice([0, 10, 200, 5000])
                items = []
                if i < len(frames):
                    ln, a, b = frames[i]
                    i += 1
                    par = rng.random() > 0.03
                    if rng.random() < 0.03:
                        ln = rng.choice([22, 335, 23, 10, 283])      # PAL lines and lines that carry no caption
                    items.append(cc(a, b, ln, par))
                    if rng.random() < 0.15 and i < len(frames):
                        ln, a, b = frames[i]
                        i += 1
                        items.append(cc(a, b, ln))
                if rng.random() < 0.06:                      # null pairs, the most common caption data on air
                    items.append(cc(0, 0, rng.choice([21, 284, 284])))
                if rng.random() < 0.12:
                    items.append(ttx_header(rng, rng.choice([1, 1, 2]), rng.choice([0x00, 0x00, 0x23, 0xFF]), rng.randrange(16)))
                if rng.random() < 0.05:
                    items.append("t:" + "".join("%02x" % rng.randrange(256) for _ in range(42)))
                if rng.random() < 0.06:
                    v = [rng.choice([0, 0xFF, rng.randrange(256)]) for _ in range(13)]
                    items.append("v:" + "".join("%02x" % x for x in v))
                c.append(("decode %d " % dt + " ".join(items)).strip())
            elif r < 0.74:
                c.append("fetch %d" % rng.choice([1, 2, 3, 4, 5, 6, 7, 8, 0, 9]))
            elif r < 0.80:
                c.append("chsw")
            elif raw and r < 0.86:
                c.append("raw %d" % rng.randrange(1 << 20))
            elif raw and r < 0.92:
                c.append(rng.choice(["add 0x%x %d" % (rng.choice([0x1, 0x2, 0x400, 0x40f, 0x8, 0xffffffff]), rng.randrange(3)),
                                     "remove 0x%x" % rng.choice([0x2, 0x400, 0x40f, 0]),
                                     "check 0x%x %d" % (rng.choice([0x2, 0x400, 0x1fff]), rng.randrange(3))]))
            elif raw and r < 0.95:
                c.append(rng.choice(["resize %d %d %d %d" % (rng.choice([6, 7, 10]), rng.randrange(1, 18), 318 + rng.randrange(3), rng.randrange(1, 18)),
                                     "rawreset", "rawparams %d 0x%x" % (rng.choice([625, 525, 0]), rng.choice([0x40f, 0x60, 0x2, 0x1000]))]))
            else:
                c.append("decode 40")
        # dropped frames start the countdown; an unchanged page header then cancels it (store_lop)
        if rng.random() < 0.15:
            if rng.random() < 0.5:        # headers that carry the page number: same_header() is conclusive (case TRUE)
                h0, h1 = ttx_station_header(1, 0x00, "ZVBI TEST"), ttx_station_header(1, 0x01, "ZVBI TEST")
            else:
                h0, h1 = ttx_header(rng, 1, 0x00, 0), ttx_header(rng, 1, 0x01, 0)
            c += ["decode 33 " + h0, "decode 33 " + h1, "decode 33 " + h0, "decode 300", "decode 33 " + h1, "decode 33 " + h0, "decode 33"]
        # always end with the 40-frame countdown sometimes, so that the automatic channel switch fires
        if rng.random() < 0.15:
            c.append("decode 300")
            c += ["decode 33"] * 41
            c.append("fetch 1")
        return c

    def malformed_case(self, rng):
        return ["decode", "decode x", "decode 33 c21", "decode 33 c21:zz", "decode 33 c21:808080", "decode 33 q:00",
                "decode 33 t:00", "fetch", "fetch a", "chsw 1", "sched", "sched 33", "sched 33 x", "sched 33 99", "sched 33 1 q:0", "raw 1", "add 1 1", "remove 1", "check 1 1", "rawreset",
                "rawinit 1 2 3", "rawinit 625 0x40f 7", "handler 1", "handler 1 9", "par 1 2", "par 1 10 0 0 Q",
                "par 1 10 0 0 F", "par 1 10 0 0 DT", "bogus", "accept vbi_decode", "resize 1 2 3", "decode -5", "decode 999999999"]

    # -----------------------------------------------------------------------------------------
    def classify(self, case):
        if not case:
            return "empty"
        if case[0].startswith("par "):
            return "par:" + case[0].split()[-1]
        if case[0] in ("decode",):
            return "malformed"
        if any(l.startswith("sched ") for l in case):
            return "sched:" + ("ttx" if any(" t:" in l for l in case if l.startswith("sched ")) else "plain")
        kinds = []
        txt = " ".join(case)
        if "rawinit" in txt:
            kinds.append("raw")
        if " c284:" in txt:
            kinds.append("f2")
        if " t:" in txt or " v:" in txt:
            kinds.append("ttx")
        if case and case[0].startswith("handler") and len(case) > 3 and case[1].startswith("decode 33 t:") and case[2].startswith("decode 33 t:"):
            kinds.append("station")
        if "chsw" in txt or "decode 300" in txt or "decode 200" in txt or "decode 5000" in txt:
            kinds.append("switch")
        return "seq:" + ("+".join(kinds) or "cc")

    def nontrivial(self, case, impl_out):
        return any(l.startswith(("ok vbi_", "ok par", "ok sched")) for l in impl_out)

    PROTECT = {"cc.channel": "cc", "vbi.chswcd": "chswcd", "rd3": "rd"}

    def oracle(self, case, impl_out):
        probs = []
        n_ops = len(case)
        plain = [l for l in impl_out if not l.startswith(("race ", "lockorder ", "tsan "))]
        if not impl_out and "\n".join(case) in _skipped:
            return None
        if len(plain) < n_ops:
            probs.append("missing-output")
        for l in impl_out:
            if l.startswith(("race ", "lockorder ", "tsan ")):
                probs.append(l.replace(" ", ":", 1))
            elif l.startswith("ok par"):
                m = dict(kv.split("=") for kv in l.split()[2:])
                if m.get("torn", "0") != "0":
                    probs.append("torn-snapshot:vbi_fetch_cc_page")
                if m.get("selfdl", "0") != "0":
                    probs.append("callout-under-cc:vbi_decode")
            elif l.startswith("ok sched "):
                probs += self.sched_oracle(l)
            elif l.startswith("ok vbi_"):
                w = l.split()
                fn, held = w[1], []
                for t in w[2:]:
                    k, name = t[0], t[1:]
                    if k in "LT":
                        if name in held:
                            probs.append("relock:%s:%s" % (name, fn))
                        held.append(name)
                    elif k == "U":
                        if name not in held:
                            probs.append("unlock-not-held:%s:%s" % (name, fn))
                        else:
                            held.remove(name)
                    elif k == "W":
                        mx = self.PROTECT.get(name)
                        if mx and mx not in held:
                            probs.append("unlocked-write:%s:%s" % (name, fn))
                    elif k == "C":
                        if "chswcd" in held:
                            probs.append("callout-under-chswcd:%s" % fn)
                        cc_held_at_callout = "cc" in held
                    elif t.startswith("!cc"):
                        probs.append("callout-under-cc:%s:%s" % (fn, t[4:] or "?"))
                    elif t == "!wiped":
                        probs.append("decoder-wiped:%s" % fn)
                if held:
                    probs.append("returns-holding:%s:%s" % ("+".join(held), fn))
        if not probs:
            return None
        # one finding per run_check violation: report the first by a fixed priority, keep the rest visible
        known = {k.get("signature") for k in verif.load_known().get("findings", []) if k.get("property") == self.prop}
        probs = sorted(set(probs), key=lambda x: (x in known, x))      # an unknown problem is never hidden by a known one
        return probs[0] if len(probs) == 1 else probs[0] + " (+%d more: %s)" % (len(probs) - 1, ", ".join(probs[1:4]))

    @staticmethod
    def sched_oracle(line):
        """documented outcome of vbi_channel_switched(): the reset is executed when the next frame is about to be decoded.
        A request placed at a release of chswcd_mutex inside vbi_decode() must (1) not be overwritten by a countdown value
        the decoding thread computed BEFORE the request (lost update: after the request and before the next reset the
        countdown is 1 = pending, or 0 = expired / cancelled by an unchanged page header), and (2) unless cancelled that
        way, be followed by a reset in the rest of this frame or at the next frame."""
        m = dict(kv.split("=", 1) for kv in line.split()[2:])
        if m.get("inj") != "1":
            return []
        at = int(m["at"])
        v = [int(x) for x in m["v"].split(",")] if m["v"] != "-" else []
        r = [int(x) for x in m["r"].split(",")] if m["r"] != "-" else []
        rinj = int(m["rinj"])
        post = [(v[i], r[i]) for i in range(at, min(len(v), len(r)))]
        before_reset = [x for (x, rr) in post if rr == rinj]
        out = []
        stale = [x for x in before_reset if x not in (0, 1)]
        if stale:
            out.append("lost-update:vbi.chswcd:vbi_decode")
        served = int(m["r1"]) - rinj + int(m["r2"]) >= 1
        cancelled = 0 in before_reset
        if not served and not cancelled and not stale:
            out.append("lost-request:vbi_channel_switched:vbi_decode")
        return out

    def signature(self, case, what):
        w = what.split(" (+")[0]
        if w.startswith(("crash", "hang")):
            m = re.search(r"WATCHDOG|deadlock", what)
            if what.startswith("hang") or m:
                return "deadlock:" + (case[0].split()[-1] if case and case[0].startswith("par ") else "sequential")
            return "crash:" + re.sub(r"[^A-Za-z0-9_:. -]", "", what)[:80]
        return w

    def extra_checks(self, ctx):
        """static report of the table + cross-check TSan races against the extraction"""
        out = []
        try:
            p = subprocess.run(ctx["mcmd"], input=b"case 0\nreport\n", stdout=subprocess.PIPE, timeout=120)
            rep = [l for l in p.stdout.decode().split("\n") if l.startswith("ok annok")]
        except Exception as ex:
            rep = []
            self.extra_coverage["static_report"] = "driver failed: %r" % ex
        if rep:
            head, pairs, callouts = (rep[0].split(" | ") + ["", ""])[:3]
            self.extra_coverage["static_report"] = head
            self.extra_coverage["static_bad_callouts"] = callouts.split(" callout ")[:10] if callouts else []
            sp = [x for x in pairs.replace("pair ", "").split() if x]
            self.extra_coverage["static_bad_pairs_sample"] = sp[:6]
            # TSan races must be pairs the extraction knows as unbracketed
            static_labels = set()
            for pr in sp:
                sides = pr.split("~")
                labs = []
                for s in sides:
                    chain = s.split("@")[1].split("[")[0].split(">")
                    chain = [f for f in chain if f not in ("memcpy", "memset")]
                    root = chain[0]
                    mark = next((m for m in MARKERS if m in chain), chain[-1])
                    labs.append(root if mark == root else "%s/%s" % (root, mark))
                static_labels.add("~".join(sorted(labs)))
            unpredicted = set()
            for i, lines in _last_impl.items():
                for l in lines:
                    if l.startswith("race "):
                        if l[5:] not in static_labels:
                            unpredicted.add(l[5:])
            self.extra_coverage["tsan_races_seen"] = sorted({l[5:] for ls in _last_impl.values() for l in ls if l.startswith("race ")})
            self.extra_coverage["tsan_races_not_in_extraction"] = sorted(unpredicted)
        self.extra_coverage["gimple_xcheck"] = dict(_xcheck) if _xcheck else "not run"
        rmw = os.path.join(verif.CACHE, "locks_rmw.json")
        if os.path.exists(rmw):
            t = json.load(open(rmw))
            self.extra_coverage["rmw_extraction"] = {
                "sections": ["%s %s:%d r%d w%d" % (x["root"], x["chain"], x["line"], x["reads"], x["writes"]) for x in t["sections"]],
                "dependent_pairs": ["%s %s: read %s:%d [%s] -> write %s:%d [%s] %s %s const=%s consumed=%s" % (
                    p["var"], p["root"], p["read_fn"], p["read_line"], p["read_via"], p["write_fn"], p["write_line"], p["write_via"],
                    p["kind"], "same-section" if p["same"] else "SPLIT", p["const"], p["consumed"]) for p in t["pairs"]],
                "writes": ["%s %s %s:%d const=%s locked=%s" % (x["var"], x["role"], x["fn"], x["line"], x["const"], x["locked"]) for x in t["writes"]],
                "region_pairs": t["n_region_pairs"], "region_pairs_split": len(t["region_pairs"])}
        sl = [l for ls in _last_impl.values() for l in ls if l.startswith("ok sched ")]
        self.extra_coverage["schedule_points"] = {"sched_ops": len(sl), "injected": len([l for l in sl if " inj=1 " in l]),
                                                  "max_releases_in_one_call": max([int(l.split()[2][2:]) for l in sl] or [0])}
        parc = [c[0].split() for c in ctx["cases"] if c and c[0].startswith("par ") and len(c[0].split()) == 6 and c[0].split()[2].isdigit()]
        self.extra_coverage["tsan_concurrent_runs"] = {
            "runs": len(parc), "threads": sum(len(w[5]) for w in parc), "frames_per_decode_thread_total": sum(int(w[2]) for w in parc),
            "completed": len([l for ls in _last_impl.values() for l in ls if l.startswith("ok par")]),
            "reports": len([l for ls in _last_impl.values() for l in ls if l.startswith(("race ", "lockorder ", "tsan "))])}
        side = os.path.join(verif.CACHE, "locks_table.json")
        if os.path.exists(side):
            t = json.load(open(side))
            self.extra_coverage["extraction"] = {"source_sha256": t["source_sha256"], "warnings": t["warnings"][:10],
                                                 "graphs": {k: [v["nodes"], v["edges"]] for k, v in t["table"].items()}}
        return out

    extra_coverage = {}


if __name__ == "__main__":
    verif.run_check(C20())
