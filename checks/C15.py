#!/usr/bin/env python3
"""C15 - IDL and PFC demultiplexers deliver the sent data in order and flag loss.

One driver / one harness (`idlpfc`), the first token of every op selects the sub-component.
Structured cases come from the sender specs in lib/idlpfc_util.py; every `feed` op of a structured
case is followed by an `expect <tag> <output>` op (answered `ok` by both sides) carrying what the
*property* demands for that feed, computed on the sender side from what was sent and which packets
were dropped / damaged - independent of the Lean model.  The oracle compares the real code's
output with it, so a replay file is self-contained.
"""
import json, os, subprocess, sys
sys.path.insert(0, os.path.join(os.path.dirname(os.path.abspath(__file__)), "..", "lib"))
import verif
from idlpfc_util import *
from idlpfc_fmt import gen_idl_fmt_case, oracle_idl_fmt

def flip2(rng, b):
    """uncorrectable error of a Hamming 8/4 byte: two bits flipped such that it does not decode"""
    for _ in range(50):
        i, j = rng.sample(range(8), 2)
        c = b ^ (1 << i) ^ (1 << j)
        if unham8(c) is None:
            return c
    return b ^ 3

def flip1(rng, b):
    return b ^ (1 << rng.randrange(8))

# ------------------------------------------------------------------------------------ IDL cases
def idl_packet_dl(channel, ft, ial, spa, ri, ci, dlbyte, rest):
    """format A packet with a DL byte chosen freely (also larger than the room left) and a correct check sum;
    `rest` are the idl_capacity() bytes after the DL byte"""
    assert ft & 8 and len(rest) == idl_capacity(ft, len(spa))
    head = [HAM8[channel], HAM8[15], HAM8[ft], HAM8[ial]] + [HAM8[n] for n in spa]
    if ft & 2:
        head.append(ri)
    region = ([ci] if ft & 4 else []) + [dlbyte] + list(rest)
    w = crc_bitwise(region) ^ unshift16(0 if ft & 4 else ci * 257)
    pkt = head + region + [w & 0xFF, w >> 8]
    assert len(pkt) == 42
    return pkt

def gen_idl_case(rng, kind):
    """kind: clean | loss | corrupt | hamming | repeat | uninit | single"""
    channel = rng.randrange(16)
    spa_len = rng.choice([0, 0, 1, 2, 3, 4, 5, 6])
    spa = [rng.randrange(16) for _ in range(spa_len)]
    addr = spa_value(spa)
    fill = rng.choice([0xFF, 0xBE, 0x01, 0x09]) if kind == "uninit" else 0
    ops = ["idl new %d %d %d" % (channel, addr, fill)]
    ci = rng.choice([0, 1, 0xFF, 0xFE, rng.randrange(256)])
    exp_ci, pending_lost, after_recover = None, False, False
    n = rng.randrange(8, 40)
    dummy = rng.choice([0xAA, 0x55, 0x01, 0xFE, rng.randrange(1, 255)])
    for k in range(n):
        # unrelated traffic
        while rng.random() < 0.3:
            f = rng.randrange(6)
            if f == 0:      # other channel
                oc = (channel + 1 + rng.randrange(15)) % 16
                p = idl_packet(oc, 0, len(spa), spa, 0, rng.randrange(256), [rng.randrange(256) for _ in range(36 - len(spa))])
            elif f == 1:    # same channel, other address (same length)
                if spa:
                    o = list(spa); o[rng.randrange(len(o))] ^= 1 + rng.randrange(15)
                else:
                    o = [1 + rng.randrange(15)]
                p = idl_packet(channel, 4, len(o), o, 0, rng.randrange(256), [0x31] * (35 - len(o)))
            elif f == 2:    # not packet 30/31: designation != 15
                p = idl_packet(channel, 0, len(spa), spa, 0, 0, [0x31] * (36 - len(spa)), designation=rng.randrange(15))
            elif f == 3:    # format B (ft & 1)
                p = idl_packet(channel, 0, len(spa), spa, 0, 0, [0x31] * (36 - len(spa)))
                p[2] = HAM8[rng.choice([1, 3, 5, 7, 9, 11, 13, 15])]
            elif f == 4:    # reserved address length 7
                p = idl_packet(channel, 0, 0, [], 0, 0, [0x31] * 36)
                p[3] = HAM8[7 | rng.choice([0, 8])]
            else:           # some ordinary teletext row of another magazine/row
                p = [HAM8[(channel + 1) % 16], HAM8[rng.randrange(15)]] + [rng.randrange(256) for _ in range(40)]
            ops.append("idl feed " + hx(p))
            ops.append("idl expect foreign 1")
        ft = rng.choice([0, 2, 4, 6, 8, 10, 12, 14])
        if kind == "repeat":
            ft |= 2
        ial = spa_len | rng.choice([0, 8])
        cap = idl_capacity(ft, spa_len)
        data = fit_data(rng, cap, ci, dummy, not (ft & 8), rng.choice(["runs", "runs", "rand", "zeros", "ff"]))
        ri = 0
        if ft & 2:
            ri = rng.choice([0, 0x80, 0x10, 0x70]) if kind != "repeat" else 0x80
        pkt = idl_packet(channel, ft, ial, spa, ri, ci, data, dummy)
        assert pkt is not None
        fault = None
        if 2 < k < n - 3 and rng.random() < 0.25:
            fault = {"loss": "drop", "corrupt": "crc", "hamming": "ham2", "single": "ham1",
                     "repeat": rng.choice(["crc-repeat", "crc-repeat-late", "dup"])}.get(kind)
        depflag = ial & 8
        def deliver_exp(tag):
            nonlocal exp_ci, pending_lost, after_recover
            lost = pending_lost or (exp_ci is not None and exp_ci != ci)
            t = tag
            if after_recover:
                t = "after-recover"
            ops.append("idl expect %s 1 cb %d %s" % (t, (1 if lost else 0) | depflag, hx(data)))
            exp_ci, pending_lost, after_recover = (ci + 1) & 255, False, False
        base_tag = "uninit" if fill else ("clean" if kind in ("clean", "single") else "stream")
        if fault == "drop":
            pass                                            # never sent
        elif fault == "crc":
            bad = list(pkt)
            lo = 4 + spa_len + (1 if ft & 2 else 0)
            for _ in range(rng.choice([1, 2, 3, 9])):
                bad[rng.randrange(lo, 42)] ^= 1 << rng.randrange(8)
            if bad == pkt or crc_ok(bad, spa_len, ft):
                bad[41] ^= 0x10
            if ft & 2:
                bad[4 + spa_len] &= 0x7F                    # "will not repeat"
            ops.append("idl feed " + hx(bad))
            ops.append("idl expect crc 0")
            pending_lost, exp_ci = True, None
        elif fault == "ham2":
            bad = list(pkt)
            pos = rng.randrange(0, 4 + spa_len)
            bad[pos] = flip2(rng, bad[pos])
            ops.append("idl feed " + hx(bad))
            ops.append("idl expect ham2 0")                 # packet lost; the gap shows at the next delivery
        elif fault == "crc-repeat":
            # damaged first transmission announcing a repeat, then the intact repeat (RI low nibble 1)
            bad = list(pkt)
            bad[rng.randrange(5 + spa_len, 42)] ^= 1 << rng.randrange(8)
            if crc_ok(bad, spa_len, ft):
                bad[41] ^= 0x10
            ops.append("idl feed " + hx(bad))
            ops.append("idl expect crc-repeat 0")
            rep = idl_packet(channel, ft, ial, spa, 0x81, ci, data, dummy)
            ops.append("idl feed " + hx(rep))
            deliver_exp("recovered")
            after_recover = True
            # further repeats of the packet that was just recovered are discarded
            for r in range(2, rng.choice([2, 2, 3, 4])):
                rep2 = idl_packet(channel, ft, ial, spa, 0x80 | r, ci, data, dummy)
                ops.append("idl feed " + hx(rep2))
                ops.append("idl expect dup-after-recover 1")
        elif fault == "crc-repeat-late":
            # damaged first transmission announcing a repeat; repeat 1 is lost too, a later repeat arrives: the
            # receiver cannot know what it missed - discarded, and the loss shows at the next delivery
            bad = list(pkt)
            bad[rng.randrange(5 + spa_len, 42)] ^= 1 << rng.randrange(8)
            if crc_ok(bad, spa_len, ft):
                bad[41] ^= 0x10
            ops.append("idl feed " + hx(bad))
            ops.append("idl expect crc-repeat 0")
            r = rng.choice([9, 9, 2, 3, 5, 15])
            rep = idl_packet(channel, ft, ial, spa, 0x80 | r, ci, data, dummy)
            ops.append("idl feed " + hx(rep))
            ops.append("idl expect late-repeat 1")
            pending_lost, exp_ci = True, None
        elif fault is None and (ft & 8) and rng.random() < 0.12:
            # a DL byte that promises more than the packet holds (or has its two reserved MSBs set), check sum
            # correct: at most the bytes of the packet are delivered, nothing is read behind it
            rest = [rng.choice([0x11, 0x5A, 0xC3, 0x7E, rng.randrange(1, 255)]) for _ in range(cap)]
            dlbyte = rng.choice([cap + 1, 40, 63, 0x7F, 0xFF, 0x40 | rng.randrange(cap + 1), 0x80 | rng.randrange(cap + 1)])
            data = rest[:min(dlbyte & 0x3F, cap)]
            pkt = idl_packet_dl(channel, ft, ial, spa, ri, ci, dlbyte, rest)
            ops.append("idl feed " + hx(pkt))
            deliver_exp("dl-big" if not fill else "uninit")
        else:
            if fault == "ham1":
                pkt = list(pkt)
                for pos in rng.sample(range(0, 4 + spa_len), rng.randrange(1, 4 + spa_len + 1)):
                    pkt[pos] = flip1(rng, pkt[pos])
            ops.append("idl feed " + hx(pkt))
            deliver_exp(base_tag)
            if fault == "dup":
                # repeats of a packet that arrived intact are discarded
                for r in range(1, rng.randrange(2, 4)):
                    rep = idl_packet(channel, ft, ial, spa, 0x80 | r, ci, data, dummy)
                    ops.append("idl feed " + hx(rep))
                    ops.append("idl expect dup 1")
        ci = (ci + 1) & 255
    return ops

def idl_foreign(rng, channel, spa):
    """a packet a receiver for (channel, spa) must ignore: other channel / other address / not 30,31 / format B /
    reserved address length / ordinary teletext row"""
    f = rng.randrange(6)
    if f == 0:
        oc = (channel + 1 + rng.randrange(15)) % 16
        return idl_packet(oc, 2, len(spa), spa, 0x80 | rng.randrange(3), rng.randrange(256), [rng.randrange(256) for _ in range(35 - len(spa))])
    if f == 1:
        if spa:
            o = list(spa); o[rng.randrange(len(o))] ^= 1 + rng.randrange(15)
        else:
            o = [1 + rng.randrange(15)]
        return idl_packet(channel, 6, len(o), o, rng.choice([0, 0x80, 0x81, 1]), rng.randrange(256), [0x31] * (34 - len(o)))
    if f == 2:
        return idl_packet(channel, 0, len(spa), spa, 0, 0, [0x31] * (36 - len(spa)), designation=rng.randrange(15))
    if f == 3:
        p = idl_packet(channel, 0, len(spa), spa, 0, 0, [0x31] * (36 - len(spa)))
        p[2] = HAM8[rng.choice([1, 3, 5, 7, 9, 11, 13, 15])]
        return p
    if f == 4:
        p = idl_packet(channel, 0, 0, [], 0, 0, [0x31] * 36)
        p[3] = HAM8[7 | rng.choice([0, 8])]
        return p
    return [HAM8[(channel + 1) % 16], HAM8[rng.randrange(15)]] + [rng.randrange(256) for _ in range(40)]

def gen_idl_ri_case(rng, style):
    """IDL format A streams of a sender that uses the repeat indicator: message k (continuity index ci0 + k) is sent as
    an original (RI low nibble 0) and R_k repeats (RI low nibble 1..R_k), bit 7 of RI = "a(nother) repeat follows"
    (style 'more': set on all but the last transmission; style 'all': set on every transmission of a repeated message).
    Every transmission independently: received / dropped / bit error(s) in the CRC region / header destroyed (filtered
    out without trace).  Foreign packets in between.

    The expectation after every feed is the sender-side reading of the property: a message is handed over at most once -
    by its intact original, or by the intact repeat j+1 that directly follows (among the packets of ours that got through)
    the corrupt transmission j announcing it; DATA_LOST is set on a delivery iff it does not directly continue the previous
    delivery or a corrupt transmission that was not repaired by its announced repeat intervened."""
    channel = rng.randrange(16)
    spa_len = rng.choice([0, 0, 1, 2, 3, 6])
    spa = [rng.randrange(16) for _ in range(spa_len)]
    ops = ["idl new %d %d 0" % (channel, spa_value(spa))]
    ci0 = rng.choice([0, 1, 0xF0, 0xFE, rng.randrange(256)])
    n = rng.randrange(10, 36)
    dummy = rng.choice([0xAA, 0x55, 0x01, rng.randrange(1, 255)])
    hi = rng.choice([0, 0, 0, 0x10, 0x50])                     # RI bits 4-6 (not interpreted)
    p_ok, p_drop, p_crc = rng.choice([(0.6, 0.2, 0.17), (0.4, 0.3, 0.25), (0.75, 0.15, 0.08), (0.5, 0.1, 0.38)])
    last, pending, aw = None, False, None                       # last delivered message, unrepaired damage, awaited repeat number
    for k in range(n):
        ci = (ci0 + k) & 255
        ft = rng.choice([2, 6, 10, 14])
        ial = spa_len | rng.choice([0, 8])
        cap = idl_capacity(ft, spa_len)
        data = fit_data(rng, cap, ci, dummy, not (ft & 8), rng.choice(["runs", "rand", "rand", "zeros"]))
        if len(data) >= 2:
            data[0], data[1] = (k * 7 + 1) & 0xFF or 1, 0x40 | (k & 0x3F)      # messages are told apart by their bytes
            while len(stuff(data, ci, dummy)) > cap:
                data.pop()
            if not (ft & 8):
                while len(stuff(data, ci, dummy)) < cap:
                    data.append(0x5A)
        reps = rng.choice([0, 1, 1, 2, 2, 3, 4])
        for j in range(reps + 1):
            while rng.random() < 0.2:
                ops.append("idl feed " + hx(idl_foreign(rng, channel, spa)))
                ops.append("idl expect foreign 1")
            more = (j < reps) if style == "more" else (reps > 0)
            ri = (0x80 if more else 0) | hi | j
            pkt = idl_packet(channel, ft, ial, spa, ri, ci, data, dummy)
            assert pkt is not None
            u = rng.random()
            if u < p_drop:
                continue
            if u < p_drop + p_crc:
                bad = list(pkt)
                for _ in range(rng.choice([1, 1, 2, 5])):
                    bad[rng.randrange(5 + spa_len, 42)] ^= 1 << rng.randrange(8)
                if bad == pkt or crc_ok(bad, spa_len, ft):
                    bad = list(pkt); bad[41] ^= 0x10
                ops.append("idl feed " + hx(bad))
                ops.append("idl expect ri-crc 0")
                if more:
                    aw = (j + 1) & 15
                else:
                    aw, pending, last = None, True, None
                continue
            if u < p_drop + p_crc + (1.0 - p_ok - p_drop - p_crc):
                bad = list(pkt)
                pos = rng.randrange(0, 4 + spa_len)
                bad[pos] = flip2(rng, bad[pos])
                ops.append("idl feed " + hx(bad))
                ops.append("idl expect ri-ham2 0")
                continue
            # intact
            ops.append("idl feed " + hx(pkt))
            deliver, tag = False, None
            if aw is not None:
                if j != aw:
                    aw, pending, last = None, True, None        # the announced repeat never came
                    deliver, tag = (j == 0), ("ri-first" if j == 0 else "ri-late")
                else:
                    aw = None
                    if last == k:
                        deliver, tag = False, "ri-dup-awaited"  # a repeat of the message handed over last
                    else:
                        deliver, tag = True, "ri-repaired"
            else:
                deliver, tag = (j == 0), ("ri-first" if j == 0 else "ri-dup")
            if deliver:
                lost = pending or (last is not None and last + 1 != k)
                ops.append("idl expect %s 1 cb %d %s" % (tag, (1 if lost else 0) | (ial & 8), hx(data)))
                last, pending = k, False
            else:
                ops.append("idl expect %s 1" % tag)
    return ops

def crc_ok(pkt, spa_len, ft):
    i = 4 + spa_len + (1 if ft & 2 else 0)
    c = crc_bitwise(pkt[i:])
    if ft & 4:
        return c == 0
    return (c & 0xFF) == (c >> 8)

def idl_accepts(addr_filter, pkt):
    """independent reading of a format A packet: (header decodes and is for (channel, addr), crc ok)"""
    n = [unham8(pkt[i]) for i in range(4)]
    if None in n:
        return None
    channel, des, ft, ial = n
    if des != 15 or ft & 1 or (ial & 7) == 7:
        return None
    spa = [unham8(b) for b in pkt[4:4 + (ial & 7)]]
    if None in spa:
        return None
    return (channel, spa_value(spa), crc_ok(pkt, ial & 7, ft))

# ------------------------------------------------------------------------------------ PFC cases
PFC_SIZES = [0, 1, 2, 3, 28, 29, 30, 33, 34, 35, 36, 37, 38, 39, 40, 41, 72, 73, 74, 75, 78, 112, 113, 300, 2047]

def gen_pfc_case(rng, kind):
    """kind: clean | single | drop | taildrop | drophdr | droppage | bp2 | pmag2 | shlo2 | shhi2 | hdrlo2 |
             hdrhi2 | hdrpg2 | sep2 | parallel | serial"""
    mag = rng.randrange(1, 9)
    pgno = (mag << 8) | rng.randrange(256)
    stream = rng.randrange(16)
    nb = rng.randrange(3, 14)
    blocks = []
    for b in range(nb):
        size = rng.choice(PFC_SIZES) if rng.random() < 0.7 else rng.randrange(0, 200)
        if size == 2047 and rng.random() < 0.7:
            size = rng.randrange(100, 400)
        style = rng.random()
        if style < 0.2:
            data = [HAM8[SEP]] * size                       # data that looks like separators
        elif style < 0.3:
            data = [HAM8[FILL]] * size
        else:
            data = [rng.randrange(256) for _ in range(size)]
        blocks.append((rng.randrange(32), data))
    gaps = [rng.choice([0, 0, 0, 1, 2, 3, 5, 38, 39, 40, 80]) if rng.random() < 0.7 else rng.randrange(45) for _ in blocks]
    s, roles, spans = pfc_layout(blocks, gaps, lead=rng.choice([0, 0, 3, 5, 39, 41]))
    npk = len(s) // 39
    # pages
    pages, k = [], 0
    while k < npk:
        n = min(npk - k, rng.choice([1, 2, 3, 5, 8, 25]))
        pages.append((k, n)); k += n
    ci = rng.randrange(16)
    # where the fault goes
    fpage = rng.randrange(len(pages)) if len(pages) > 1 else 0
    if kind in ("taildrop", "droppage", "drophdr") and len(pages) > 2:
        fpage = rng.randrange(len(pages) - 1)
    fpk = rng.randrange(pages[fpage][1])                    # index within the page
    if kind == "taildrop":
        fpk = pages[fpage][1] - 1
    if kind == "drop" and pages[fpage][1] > 1:
        fpk = rng.randrange(pages[fpage][1] - 1)
    if kind == "drop" and fpk == pages[fpage][1] - 1:
        kind = "taildrop"                                   # a one-packet page: the dropped packet is its last
    # byte level damage inside the stream
    s = list(s)
    dmg = {}                                                # stream index -> 'x' (uncorrectable) for the expectation walk
    def damage_role(role_pred, how):
        cand = [i for i in range(len(s)) if role_pred(i)]
        if not cand:
            return
        i = rng.choice(cand)
        s[i] = flip2(rng, s[i]); dmg[i] = how
    def sh_index(i, which):
        return roles[i] == "H" and i >= 1 + min(which) and any(roles[i - 1 - w] == "S" for w in which)
    if kind == "shlo2":
        damage_role(lambda i: sh_index(i, (0, 1)), "sh")
    elif kind == "shhi2":
        damage_role(lambda i: sh_index(i, (2, 3)), "sh")
    elif kind == "sep2":
        damage_role(lambda i: roles[i] in ("S", "F"), "sf")
    elif kind == "single":
        for _ in range(rng.randrange(1, 30)):
            i = rng.randrange(len(s))
            if roles[i] != "D" and i not in dmg:
                s[i] = flip1(rng, s[i]); dmg[i] = "1"
    ops = ["pfc new %d %d" % (pgno, stream)]
    # intended receiver, on the sender's knowledge (roles), see module doc
    st = {"page": False, "ci": None, "y": 0, "n": 0, "cur": None, "got": 0, "hdrbad": False}
    blk_at = {}
    for bi, (a, b) in enumerate(spans):
        blk_at[a] = bi
    def reset():
        st.update(page=False, ci=None, y=0, n=0, cur=None, got=0, hdrbad=False)
    def feed_expect(tag, pkt, exp):
        ops.append("pfc feed " + hx(pkt))
        ops.append("pfc expect %s %s" % (tag, exp))
    def foreign(tag_mid):
        f = rng.randrange(4)
        omag = (mag % 8) + 1
        if f == 0:      # row of another magazine
            p = pfc_data_packet(omag << 8, rng.randrange(1, 26), rng.randrange(16), [rng.randrange(256) for _ in range(39)])
        elif f == 1:    # stuffing rows 26..31 of our magazine
            p = pfc_data_packet(pgno, rng.randrange(26, 32), rng.randrange(16), [rng.randrange(256) for _ in range(39)])
        elif f == 2:    # 8/30-ish packet: magazine 8 row 30
            p = pfc_data_packet(0x800 if mag != 8 else 0x100, 30, 0, [HAM8[0]] * 39)
        else:
            p = pfc_data_packet(omag << 8, rng.randrange(1, 26), 13, [HAM8[FILL]] * 39)
        feed_expect("foreign", p, "1")
    def walk(k, bp_ok, tag):
        """expected callbacks of data packet k (global packet index) for the intended receiver"""
        out, ret = [], 1
        off = 0
        if st["cur"] is None:
            bp = pfc_bp(roles, k)
            if bp == 13:
                return "1"
            off = 3 * bp
        i = 39 * k + off
        end = 39 * k + 39
        while i < end:
            r = roles[i]
            d = dmg.get(i)
            if st["cur"] is None:
                if d in ("sf",):
                    reset(); ret = 0; break
                if r == "F":
                    i += 1; continue
                assert r == "S", (r, i, k, off)
                st["cur"], st["got"], st["hdrbad"] = blk_at[i], 0, False
                i += 1
                continue
            bi = st["cur"]
            size = len(blocks[bi][1])
            if d == "sh":
                st["hdrbad"] = True
            st["got"] += 1
            i += 1
            if st["got"] == 4 and st["hdrbad"]:
                reset(); ret = 0; break
            if st["got"] >= 4 and st["got"] == 4 + size:
                if size > 0:
                    out.append("blk %d %d %s" % (blocks[bi][0], size, hx(blocks[bi][1])))
                st["cur"] = None
        return " ".join([str(ret)] + out)
    serial_mid = kind == "parallel"
    for pi, (k0, n) in enumerate(pages):
        # traffic between pages
        while rng.random() < 0.4:
            f = rng.randrange(3)
            omag = (mag % 8) + 1
            if f == 0:      # another page of our magazine with its rows (serial or parallel, allowed between pages)
                op = (mag << 8) | ((pgno + 1 + rng.randrange(254)) & 0xFF)
                feed_expect("foreign-page", pfc_header_packet(op, stream, rng.randrange(16), 3), "1")
                st["page"] = False
                for y in range(1, rng.randrange(1, 4)):
                    feed_expect("foreign-page", pfc_data_packet(op, y, rng.randrange(14), [rng.randrange(256) for _ in range(39)]), "1")
            elif f == 1:    # our page, other stream
                feed_expect("foreign-stream", pfc_header_packet(pgno, (stream + 1 + rng.randrange(15)) % 16, rng.randrange(16), 2), "1")
                st["page"] = False
                feed_expect("foreign-stream", pfc_data_packet(pgno, 1, 0, [HAM8[SEP]] + [rng.randrange(256) for _ in range(38)]), "1")
            else:           # page of another magazine (serial mode: ends our page, which is complete anyway)
                feed_expect("foreign-mag", pfc_header_packet((omag << 8) | rng.randrange(256), stream, ci, 2), "1")
                if kind != "parallel":
                    pass
                feed_expect("foreign-mag", pfc_data_packet(omag << 8, 1, 0, [HAM8[SEP]] + [rng.randrange(256) for _ in range(38)]), "1")
        whole_page_dropped = kind == "droppage" and pi == fpage
        hdr = pfc_header_packet(pgno, stream, ci, n)
        hdr_fault = None
        if pi == fpage:
            if kind == "drophdr":
                hdr_fault = "drop"
            elif kind == "hdrlo2":
                j = rng.choice([4, 5]); hdr[j] = flip2(rng, hdr[j]); hdr_fault = "bad"
            elif kind == "hdrhi2":
                j = rng.choice([6, 7]); hdr[j] = flip2(rng, hdr[j]); hdr_fault = "bad"
            elif kind == "hdrpg2":
                j = rng.choice([0, 1, 2, 3]); hdr[j] = flip2(rng, hdr[j]); hdr_fault = "bad"
        if kind == "single":
            for j in rng.sample(range(8), rng.randrange(0, 5)):
                hdr[j] = flip1(rng, hdr[j])
        tag = kind
        if whole_page_dropped or hdr_fault == "drop":
            pass
        elif hdr_fault == "bad":
            reset()
            feed_expect(tag, hdr, "0")
        else:
            # the intended receiver: continuity index must follow, and the previous page must be complete
            if st["ci"] != ci or (st["n"] > 0 and st["y"] != st["n"] + 1):
                reset()
            st.update(page=True, ci=(ci + 1) & 15, y=1, n=n)
            feed_expect(tag, hdr, "1")
        ci = (ci + 1) & 15
        for j in range(n):
            k = k0 + j
            y = j + 1
            if kind in ("parallel", "serial", "clean", "single") and rng.random() < 0.25:
                foreign(True)
            if kind == "parallel" and rng.random() < 0.3:
                # parallel mode: a header of another magazine in the middle of our page
                omag = (mag % 8) + 1
                feed_expect("parallel-hdr", pfc_header_packet((omag << 8) | rng.randrange(256), rng.randrange(16), rng.randrange(16), 5), "1")
            if whole_page_dropped:
                continue
            pkt = pfc_data_packet(pgno, y, pfc_bp(roles, k), s[39 * k:39 * k + 39])
            fault_here = pi == fpage and j == fpk
            if fault_here and kind in ("drop", "taildrop"):
                continue
            bp_ok = True
            if kind == "single":
                for jj in rng.sample(range(3), rng.randrange(0, 3)):
                    pkt[jj] = flip1(rng, pkt[jj])
            if fault_here and kind == "bp2":
                pkt[2] = flip2(rng, pkt[2]); bp_ok = False
            if fault_here and kind == "pmag2":
                jj = rng.choice([0, 1]); pkt[jj] = flip2(rng, pkt[jj])
                reset()
                feed_expect(tag, pkt, "0")
                continue
            if not st["page"]:
                feed_expect(tag, pkt, "1")
                continue
            if y != st["y"] or y > st["n"]:
                reset()
                feed_expect(tag, pkt, "1")
                continue
            st["y"] = y + 1
            if not bp_ok:
                reset()
                feed_expect(tag, pkt, "0")
                continue
            feed_expect(tag, pkt, walk(k, bp_ok, tag))
    return ops


class C15(verif.Spec):
    prop = "C15"
    comp = "idlpfc"
    lean_modules = ["ZvbiModel.Props.C15", "ZvbiModel.Props.C15Sender", "ZvbiModel.Props.C15Repeats",
                    "ZvbiModel.Props.C15Formats"]
    harness = "idlpfc_harness"
    harness_link_lib = True
    partial_note = ("IDL and PFC: full for the modelled behaviour, end to end for the executable senders. IDL: "
                    "idl_sender_packets_valid (Spec.mkPacket yields Valid packets for all inputs), idl_roundtrip / "
                    "idl_roundtrip_lossy (consecutive continuity indices modulo 256, repeats, damage, drops, foreign packets; "
                    "a loss that shows only as a continuity gap of an exact multiple of 256 messages is not detectable - stated "
                    "in the spec `want`), idl_loss_flagged_repeats (streams using RI repeats, every fault pattern "
                    "received/dropped/corrupt per transmission: DATA_LOST on a delivery iff it does not directly continue the "
                    "previous delivery or an unrepaired corrupt transmission intervened; finding C15-R2: a message whose repeat j "
                    "arrives corrupt and repeat j+1 intact after the original was delivered is handed over twice, witness "
                    "idl_duplicate_after_corrupt_repeat_counterexample), idl_unsupported_format_refused / "
                    "idl_unsupported_format_silent_history (vbi_idl_demux_feed for dx->format B / Datavideo / Audetel / LBRA: "
                    "state unchanged, no callback, return value characterised, for every history). PFC: pfc_roundtrip (transmit = encode + paginate + headers), "
                    "pfc_delivers_blocks_foreign_traffic / pfc_roundtrip_foreign_traffic (closing headers and foreign rows "
                    "between our pages, transparent packets anywhere). Finding F42 (last rows of a page lost): the full "
                    "statement is false on the current tree; pfc_tail_loss_reads_spliced_stream says what happens instead, "
                    "witnesses pfc_tail_loss_counterexample and pfc_tail_loss_spliced_counterexample.")
    assumptions = ["the callbacks return TRUE (as in the harness)",
                   "packets are 42 bytes; dx->block.pgno is a page number 0x100..0x8FF for the page level theorems",
                   "dupecount (uint8_t) is a Nat: it is incremented at most 36 times per packet",
                   "the allocator's fill byte is the only uninitialised-memory behaviour modelled (dx->flags)"]
    open_statements = []
    trusted_base = ["translate/gen_idlpfc.py (CRC polynomial, FT/RI/flag masks, separator/filler nibbles, block[] extent, "
                    "four source shape flags); cross-checked: the compiled idl_a_crc_table is compared with the model's "
                    "table and with a Python bit-serial CRC on every run",
                    "translate/gen_tables.py (Hamming 8/4 table)",
                    "harness/idlpfc_harness.c + lean/Driver/{Idl,Pfc,Idlpfc}.lean (line-protocol correspondence; `idl newfmt` reaches "
                    "_vbi_idl_demux_init for the formats the public API has no constructor for, `idl state` prints the struct fields)",
                    "Idl/Spec.lean, Pfc/Spec.lean: my transcription of EN 300 708 (IDL format A 6.5, PFC 4); dummy bytes "
                    "(6.5.7.1) and the unit of the block pointer (3 bytes) are libzvbi's reading, the standard text is not "
                    "available offline",
                    "lib/idlpfc_util.py: Python senders used by the generator and the oracle, compared with the Lean "
                    "senders on every run (extra_checks)"]
    FAULT_TAGS_KNOWN = ("taildrop",)
    DUP_AWAITED = "idl: ri-dup-awaited: unexpected delivery"
    IDL_KINDS = ["clean", "clean", "loss", "corrupt", "hamming", "repeat", "uninit", "single"]
    PFC_KINDS = ["clean", "clean", "single", "drop", "taildrop", "drophdr", "droppage", "bp2", "pmag2", "shlo2",
                 "shhi2", "hdrlo2", "hdrhi2", "hdrpg2", "sep2", "parallel", "serial"]

    def gen_cases(self, rng, tier):
        n_idl, n_pfc, n_rand = (1600, 1360, 300) if tier == "quick" else (16000, 13600, 3000)
        n_ri = 600 if tier == "quick" else 6000
        n_fmt = 200 if tier == "quick" else 2000
        cases = [["idl crctab"]]
        for i in range(n_idl):
            cases.append(gen_idl_case(rng, self.IDL_KINDS[i % len(self.IDL_KINDS)]))
        for i in range(n_pfc):
            cases.append(gen_pfc_case(rng, self.PFC_KINDS[i % len(self.PFC_KINDS)]))
        # IDL streams of a sender using RI repeats, per-transmission fault patterns (own rng stream: the cases above keep their bytes)
        rng_ri = __import__("random").Random(rng.randrange(1 << 30))
        for i in range(n_ri):
            cases.append(gen_idl_ri_case(rng_ri, ("more", "more", "all")[i % 3]))
        # demultiplexers of the formats idl_demux.c does not implement (B, Datavideo, Audetel, LBRA): refused, no effect
        for i in range(n_fmt):
            cases.append(gen_idl_fmt_case(rng_ri))
        # malformed streams (no expectations: correspondence + the generic oracle clauses)
        for i in range(n_rand):
            cases.append(self.gen_malformed(rng))
        return cases

    def gen_malformed(self, rng):
        ops = []
        k = rng.random()
        if k < 0.1:
            ops += ["idl feed " + hx([0] * 42), "pfc feed " + hx([0] * 42), "idl reset", "pfc reset",
                    "idl new 16 0 0", "idl new 3 16777216 0", "idl new 15 16777215 0", "idl feed 00", "pfc feed zz",
                    "idl new", "pfc new 1", "idl bogus", "nonsense", "pfc new 0x1df 1", "pfc feed " + hx([0x15] * 41)]
            return ops
        if k < 0.55:
            channel, spa = rng.randrange(16), [rng.randrange(16) for _ in range(rng.randrange(4))]
            ops.append("idl new %d %d %d" % (channel, spa_value(spa), 0))
            ci = rng.randrange(256)
            for _ in range(rng.randrange(10, 60)):
                ft = rng.choice([0, 2, 4, 6, 8, 10, 12, 14])
                cap = idl_capacity(ft, len(spa))
                data = fit_data(rng, cap, ci, 0xAA, not (ft & 8), "runs")
                p = idl_packet(channel, ft, len(spa) | rng.choice([0, 8]), spa, rng.choice([0, 0x80, 0x81, 0x82, 1, rng.randrange(256)]), ci, data)
                m = rng.random()
                if m < 0.5:
                    for _ in range(rng.choice([1, 1, 2, 5])):
                        p[rng.randrange(42)] ^= 1 << rng.randrange(8)
                elif m < 0.6:
                    p = [rng.randrange(256) for _ in range(42)]
                elif m < 0.7:
                    p[rng.randrange(42)] = rng.choice([0, 0xFF])
                if rng.random() < 0.8:
                    ci = (ci + 1) & 255
                if rng.random() < 0.03:
                    ops.append("idl reset")
                ops.append("idl feed " + hx(p))
            return ops
        base = gen_pfc_case(rng, "clean")
        for l in base:
            if l.startswith("pfc expect"):
                continue
            if l.startswith("pfc feed") and rng.random() < 0.35:
                p = list(bytes.fromhex(l.split()[2]))
                m = rng.random()
                if m < 0.6:
                    for _ in range(rng.choice([1, 2, 2, 6])):
                        p[rng.randrange(42)] ^= 1 << rng.randrange(8)
                elif m < 0.8:
                    p[rng.randrange(8)] = rng.randrange(256)
                else:
                    p = [rng.randrange(256) for _ in range(42)]
                l = "pfc feed " + hx(p)
            if rng.random() < 0.05:
                continue
            if rng.random() < 0.01:
                ops.append("pfc reset")
            ops.append(l)
        return ops

    def classify(self, case):
        comp = case[0].split()[0] if case else "empty"
        tags = [l.split()[2] for l in case if " expect " in l]
        kinds = sorted(set(tags) - {"foreign", "foreign-page", "foreign-stream", "foreign-mag"})
        return comp + ":" + ("+".join(kinds) if kinds else ("structured" if tags else "malformed"))

    def nontrivial(self, case, impl_out):
        return any((" cb " in l) or (" blk " in l) for l in impl_out) or (case and case[0].endswith("crctab"))

    # -- the property on the real code's output ------------------------------------------------
    def oracle(self, case, out):
        if len(out) != len(case):
            return "output count %d != ops %d" % (len(out), len(case))
        idl_filter = None
        dup_seen = None
        if any(l.startswith("idl newfmt") for l in case):
            w = oracle_idl_fmt(case, out)
            if w:
                return w
        for i, (op, o) in enumerate(zip(case, out)):
            w = op.split()
            if len(w) >= 2 and w[1] == "expect":
                if o != "ok":
                    return "harness: expect not acknowledged"
                continue
            if op == "idl crctab":
                want = "ok " + "".join("%04x" % crc_bitwise([b]) for b in range(256))
                if o != want:
                    return "idl: crc table differs from the bitwise CRC of x^16+x^9+x^7+x^4+1"
                continue
            if w[:2] == ["idl", "newfmt"]:
                idl_filter = None
                if len(w) == 5 and o == "ok" and w[2] == "1":
                    try:
                        idl_filter = (int(w[3], 0), int(w[4], 0))
                    except ValueError:
                        idl_filter = None
            if w[:2] == ["idl", "new"] and len(w) == 5 and o == "ok":
                try:
                    idl_filter = (int(w[2], 0), int(w[3], 0))
                except ValueError:
                    idl_filter = None
            # generic clauses, independent of any expectation
            if w[:2] == ["idl", "feed"] and " cb " in o:
                try:
                    pkt = list(bytes.fromhex(w[2]))
                except ValueError:
                    pkt = None
                acc = idl_accepts(idl_filter, pkt) if pkt and len(pkt) == 42 else None
                if acc is None:
                    return "idl: gate: delivery from a packet whose header does not decode as format A"
                if not acc[2]:
                    return "idl: gate: delivery from a packet failing its CRC"
                if idl_filter and (acc[0], acc[1]) != idl_filter:
                    return "idl: gate: delivery from another channel/address"
            if w[:2] == ["pfc", "feed"] and " blk " in o:
                t = o.split()
                j = 2
                while j < len(t):
                    if t[j] != "blk" or j + 3 >= len(t):
                        return "pfc: unparsable output"
                    app, size, data = int(t[j + 1]), int(t[j + 2]), t[j + 3]
                    n = 0 if data == "-" else len(data) // 2
                    if app > 31 or size > 2047 or n != size or size == 0:
                        return "pfc: gate: block with impossible app/size (%d, %d, %d bytes)" % (app, size, n)
                    j += 4
            # the expectation of the sender side
            if i + 1 < len(case):
                e = case[i + 1].split()
                if len(e) >= 4 and e[1] == "expect" and e[0] == w[0] and w[1] == "feed":
                    tag, want = e[2], "ok " + " ".join(e[3:])
                    if o != want:
                        d = describe(w[0], want, o)
                        what = "%s: %s: %s" % (w[0], tag, d)
                        if what == self.DUP_AWAITED:
                            # known finding C15-R2: the intended and the real receiver are in the same state afterwards,
                            # so the rest of the case is still judged and any other deviation is reported first
                            dup_seen = what
                            continue
                        return what
        return dup_seen

    def signature(self, case, what):
        if what.startswith("idl: after-recover: DATA_LOST flag set without loss"):
            return "idl: after-recover: DATA_LOST flag set without loss"
        # component : tag : shape   (no payload bytes, no positions)
        p = what.split(": ")
        if len(p) >= 3 and p[1] in self.FAULT_TAGS_KNOWN:
            # generator kinds built around one fault whose handling is a known finding: how the damage
            # shows (garbage block / missing block / return value) depends on sizes, so the shape is left out
            return ": ".join(p[:2])
        return ": ".join(p[:3]) if len(p) >= 3 else what

    def extra_checks(self, ctx):
        """the Lean sender specs must produce what the Python senders produce (so that the theorems speak about
        the packets that were tested)"""
        rng = ctx["rng"]
        lines, want = [], []
        for _ in range(60):
            ft = rng.choice([0, 2, 4, 6, 8, 10, 12, 14])
            spa = [rng.randrange(16) for _ in range(rng.randrange(7))]
            ci = rng.randrange(256)
            cap = idl_capacity(ft, len(spa))
            data = fit_data(rng, cap, ci, 0xAA, not (ft & 8), rng.choice(["runs", "rand", "zeros", "ff"]))
            ch, ial, ri = rng.randrange(16), len(spa) | rng.choice([0, 8]), rng.randrange(256)
            pay = stuff(data, ci, 0xAA)
            pad = [0x55] * (cap - len(pay)) if ft & 8 else []
            lines.append("idl spec_pkt %d %d %d %s %d %d %s %d %s" % (ch, ft, ial, hx(spa), ri, ci, hx(data), 0xAA, hx(pad)))
            want.append("ok " + hx(idl_packet(ch, ft, ial, spa, ri, ci, data, 0xAA)))
        for _ in range(25):
            nb = rng.randrange(1, 7)
            blocks = [(rng.randrange(32), [rng.randrange(256) for _ in range(rng.choice([0, 1, 30, 34, 35, 36, 40, 75, 120]))]) for _ in range(nb)]
            gaps = [rng.choice([0, 1, 2, 3, 38, 39, 41]) for _ in blocks]
            lead = rng.choice([0, 2, 39])
            s, roles, spans = pfc_layout(blocks, gaps, lead)
            lines.append("pfc spec_stream %d %s" % (lead, " ".join("%d %s %d" % (a, hx(d), g) for (a, d), g in zip(blocks, gaps))))
            want.append("ok " + " ".join("%d %s" % (pfc_bp(roles, k), hx(s[39 * k:39 * k + 39])) for k in range(len(s) // 39)))
        p = subprocess.run(ctx["mcmd"], input=("\n".join(lines) + "\n").encode(), stdout=subprocess.PIPE, timeout=600)
        got = p.stdout.decode().split("\n")
        bad = []
        for l, w_, g in zip(lines, want, got):
            if w_ != g:
                bad.append(("spec: Lean sender differs from the Python sender the cases are built with", [l]))
                break
        self.extra_coverage = {"sender_spec_crosschecks": len(lines),
                               }
        return bad


def describe(comp, want, got):
    """coarse shape of a deviation (used in the signature)"""
    tw, tg = want.split(), got.split()
    if comp == "idl":
        if ("cb" in tw) != ("cb" in tg):
            return "delivery missing" if "cb" in tw else "unexpected delivery"
        if "cb" in tw:
            if tw[4:] != tg[4:]:
                return "delivered bytes differ from the sent bytes"
            fw, fg = int(tw[3]), int(tg[3])
            if (fw ^ fg) & ~9:
                return "flags have bits outside DATA_LOST|DEPENDENT (got %d)" % fg if False else "flags have bits outside DATA_LOST|DEPENDENT"
            if (fw ^ fg) & 1:
                return "DATA_LOST flag %s" % ("missing" if fw & 1 else "set without loss")
            return "DEPENDENT flag wrong"
        return "return value"
    bw = [" ".join(tw[j:j + 4]) for j in range(2, len(tw), 4)]
    bg = [" ".join(tg[j:j + 4]) for j in range(2, len(tg), 4)]
    if bw != bg:
        extra = [b for b in bg if b not in bw]
        if extra:
            return "block delivered that was not sent"
        return "block missing"
    return "return value"


if __name__ == "__main__":
    verif.run_check(C15())
