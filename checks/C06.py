#!/usr/bin/env python3
"""C06 - DVB VBI multiplexer output is standard-conformant and demultiplexes to its input.

Correspondence: lean/Driver/Mux.lean vs harness/mux_harness.c (src/dvb_mux.c) on the same op lines.
Oracle (on the real code's output, independent of the model of dvb_mux.c):
  * sizes / atomic rejection / acceptance of permitted frames, judged in Python from the API contract
  * every accepted frame's bytes are read by the Lean spec `EnParse` (executed through the model
    driver's `enparse` op): well-formed PES (and TS) packets carrying exactly the selected lines,
    PTS, data_identifier, continuity
  * the same bytes fed to the library's demultiplexer (harness --demux) must come back as the
    frames that were sent (frames split where the line number does not increase)
  * raw lines (ops feedraw / feedraw2 / mraw, in the correspondence stream since round 3): acceptance judged from
    the API contract, every accepted frame's bytes read by the Lean spec `RawSpec.parsePesR` (op `enparser`):
    well-formed monochrome data units (EN 301 775 4.9), segments contiguous, reassembled lines = the input
    samples on the right line / pixel position; atomic rejection, multiplexer usable afterwards
  * a crash of the real code must be predicted by the model (`rej model:assert...` at the same op): this is
    what ties Generated/MuxFlags.lean (source shape read by translate/gen_muxflags.py) to the tree under test
"""
import os, re, subprocess, sys
sys.path.insert(0, os.path.join(os.path.dirname(os.path.abspath(__file__)), "..", "lib"))
import verif

TTX_IDS = (1, 2, 3)
VPS, WSS, CC, CC1, VBI625 = 4, 0x400, 0x18, 8, 0x20000000
BAD_IDS = (0x10, 0x20, 0x40, 0x60, 0x800, 0x1000, 0x1004, 5, 0x404, 0x2000, 0x80000000, 0x19, 0xC)
ALL = 0xFFFFFFFF
PTS_EDGE = (0, 1, 2**33 - 1, 2**33, 2**32 - 1, 2**32, -1, -2**63 + 1, 2**63 - 1, 0x155555555, 0xAAAAAAAA, 2**30, 2**30 - 1)
BUFS = (1, 2, 3, 4, 5, 7, 45, 46, 47, 183, 184, 185, 187, 188, 189, 190, 376, 1000, 4096, 65536)


def hx(bs): return "".join("%02x" % b for b in bs) or "-"


def payload(rng, n):
    k = rng.random()
    if k < 0.08: return [0] * n
    if k < 0.16: return [255] * n
    if k < 0.22: return [0x80 >> (i % 8) for i in range(n)]
    return [rng.randrange(256) for _ in range(n)]


def nbytes(sid):
    if sid in TTX_IDS: return 42
    if sid == VPS: return 13
    return 2


def canon(sid, line, data):
    """what a receiver is to see for an input line: (demux id, line, payload bits)"""
    d = list(data) + [0] * 56
    if sid in TTX_IDS: return (3, line, d[:42])
    if sid == VPS: return (4, line, d[:13])
    if sid == WSS: return (0x400, line, [d[0], d[1] & 0x3F])
    if sid in (CC, CC1): return (8, line, d[:2])
    return None


def permitted(sid, line):
    if sid in TTX_IDS: return line == 0 or 7 <= line <= 22 or 320 <= line <= 335
    if sid == VPS: return line == 16
    if sid == WSS: return line == 23
    if sid in (CC, CC1): return line == 21
    return False


def du_size(sid, fixed):
    if fixed: return 46
    return {1: 46, 2: 46, 3: 46, VPS: 16, WSS: 5, CC: 5, CC1: 5}[sid]


def gen_frame(rng, dense=None, first_max=None):
    """a valid frame: ascending lines 7..23 / 320..335 with permitted services"""
    p = rng.choice([0.1, 0.3, 0.6, 0.95]) if dense is None else dense
    lines = []
    for ln in list(range(7, 24)) + list(range(320, 336)):
        if rng.random() > p: continue
        if ln == 23: sid = WSS
        elif ln == 16 and rng.random() < 0.6: sid = VPS
        elif ln == 21 and rng.random() < 0.6: sid = rng.choice([CC, CC1])
        else: sid = rng.choice(TTX_IDS)
        lines.append((sid, ln, payload(rng, nbytes(sid) if rng.random() < 0.9 else rng.randrange(57))))
    if first_max is not None and lines and lines[0][1] > first_max:
        lines.insert(0, (3, 7, payload(rng, 42)))
    return lines


def spoil(rng, lines):
    """make a frame the multiplexer must reject (or return it unchanged with kind None)"""
    lines = list(lines)
    k = rng.randrange(6)
    if not lines: lines = [(3, 7, payload(rng, 42))]
    i = rng.randrange(len(lines))
    if k == 0 and len(lines) >= 2:
        j = (i + 1 + rng.randrange(len(lines) - 1)) % len(lines)
        lines[i], lines[j] = lines[j], lines[i]
        return lines
    if k == 1:
        lines.insert(i, lines[i]); return lines
    if k == 2:
        lines[i] = (rng.choice(BAD_IDS), lines[i][1], lines[i][2]); return lines
    if k == 3:
        sid = lines[i][0]
        bad = {VPS: [15, 17, 329, 0], WSS: [22, 24, 336, 0], CC: [20, 22, 334, 0], CC1: [20, 22, 334, 0]}.get(
            sid, [1, 6, 23, 24, 312, 313, 319, 336, 337, 345, 1000, 2**32 - 1, 2**31])
        lines[i] = (sid, rng.choice(bad), lines[i][2]); return lines
    if k == 4:
        lines.append((VBI625, (lines[-1][1] if lines[-1][1] else 22) + 1, [])); return lines
    lines[i] = (lines[i][0], 2**32 - 1 - rng.randrange(3), lines[i][2]); return lines


def fmt_lines(lines):
    return "%d" % len(lines) + "".join(" %s %d %s" % (("0x%x" % s) if s > 9 else str(s), l, hx(d)) for s, l, d in lines)


def parse_lines_tokens(tok):
    n = int(tok[0]); out = []
    for i in range(n):
        sid = int(tok[1 + 3 * i], 0); line = int(tok[2 + 3 * i], 0)
        h = tok[3 + 3 * i]
        out.append((sid & ALL, line & ALL, list(bytes.fromhex(h)) if h != "-" else []))
    return out


class MuxSim:
    """what the API contract says about configuration and acceptance (not a model of the encoder)"""

    def __init__(self, pid):
        self.pid, self.dataid, self.min, self.max = pid, 0x10, 184, 65504
        self.cc = 0                 # next continuity counter (TS packets begun so far)
        self.pending = None         # coroutine output in progress: dict(bytes, frame, pts, mask)

    def set_size(self, a, b):
        a &= ALL; b &= ALL
        mn = 184 if a < 184 else 65504 if a > 65504 else (a + 183) // 184 * 184
        mx = mn if b < mn else 65504 if b > 65504 else b // 184 * 184
        self.min, self.max = mn, mx

    def acceptable(self, lines, mask):
        """frame accepted per the documented contract; None = unspecified here (raw ids in the mask)"""
        last = 0
        for sid, ln, _ in lines:
            if ln > 0:
                if ln <= last: return False
                last = ln
        fixed = 0x10 <= self.dataid <= 0x1F
        size = 46
        for sid, ln, _ in lines:
            if sid & mask == 0: continue
            if sid == VBI625: return False      # raw == NULL
            if not permitted(sid, ln): return False
            size += du_size(sid, fixed)
        return size <= self.max

    def expect_size(self, lines, mask):
        fixed = 0x10 <= self.dataid <= 0x1F
        size = 46 + sum(du_size(s, fixed) for s, l, _ in lines if s & mask)
        return max(self.min, (size + 183) // 184 * 184)


class C06(verif.Spec):
    prop = "C06"
    comp = "mux"
    lean_modules = ["ZvbiModel.Props.C06", "ZvbiModel.Props.C06Join", "ZvbiModel.Props.C06Raw", "ZvbiModel.Props.C06Ts",
                    "ZvbiModel.Props.C06CorRaw", "ZvbiModel.Props.C06Undef", "ZvbiModel.Props.C06CorRawHist", "ZvbiModel.Props.C06Fill", "ZvbiModel.Props.C06Hdr", "ZvbiModel.Props.C06UndefDemux"]
    harness = "mux_harness"
    harness_link_lib = True
    timeout_per_case = 5.0
    partial_note = ("theorems cover sliced services and raw (monochrome samples) lines through vbi_dvb_mux_feed (PES and TS), both source "
                    "shapes of generate_pes_packet (flag read from the source by translate/gen_muxflags.py); vbi_dvb_mux_cor proved equal "
                    "to feed for all buffer size sequences with and without raw / sp (Props/C06Join.lean, Props/C06CorRaw.lean); "
                    "vbi_dvb_multiplex_sliced; vbi_dvb_multiplex_raw for all arguments (Props/C06CorRaw.lean); the round trip through "
                    "C07's model of the library demultiplexer is proved for the PES path (Props/C06Join.lean) and the TS path "
                    "(Props/C06Ts.lean: foreign packets interleaved, any feed partition, any start counter), frames of defined sliced "
                    "lines; lines with the undefined line number 0: proved at packet / demux_pes_packet_frame level (Props/C06UndefDemux.lean), the "
                    "stream-level statement is open and judged by the --demux oracle (finding C06-D4, fixed in /repo b67fe9c: Props/C06Undef.lean); "
                    "round 6: the size computation of generate_pes_packet exists in two source shapes (Generated/MuxFlags.lean muxBumpBothPaths, "
                    "Props/C06Fill.lean), PES header constants and the PTS coding are tied to the source (Generated/MuxConsts.lean, Props/C06Hdr.lean)")
    open_statements = [
        "mux_demux_roundtrip_undef_full (Props/C06Join.lean): the library round trip over whole streams for frames WITHOUT raw line requests that also carry Teletext lines with the undefined line number 0 - still not proved as a whole. Proved since round 6 (Props/C06UndefDemux.lean, both shapes of line_address): for every accepted frame whose first selected line is defined, extract_data_units on the frame's packet stores exactly the selected lines in order, undefined ones with line number 0, without 'illegal line order' (demux_extract_undef_packet_partial), and demux_pes_packet_frame on that packet either starts the frame (new_frame) or delivers the frame under assembly with its PTS and lines when the packet's first line does not exceed that frame's last defined line, then holds the new frame (demux_frame_undef_partial); chain: undef_field_parity_ascends + generatePes_defasc (defined line numbers ascend, zeros skipped) => contUnits_of_fields => extractLoop_stores_cont (line_address' line_offset-0 branch, lineAddress_undef). STILL MISSING: lifting these per-packet facts through vbi_dvb_demux_feed over whole streams (PES header parsing, wrap-around buffer, any partition of the input, the held last frame): C07's Demux/Join{Packet,Stream}.lean (frames_of_pesStream) run over EnParse.pesStream, whose Line does not record the field parity, and are stated for AscFrom (all lines defined) only; a units-level variant of that induction is needed. For frames WITH a raw line request before the undefined line the statement was FALSE on the tree before b67fe9c (finding C06-D4, corpus/C06/undef-after-raw-field.ops; undef_after_raw_frame_lost / undef_after_raw_repaired); judged on the real code by the --demux oracle",
        "mux_current_shape_F29: on the tree without fixes/C06-mux-raw-last-stuffing.diff mux_never_aborts fails (f29_counterexample); /repo has the fix since b15a657; all other raw theorems hold for both shapes"]
    assumptions = ["callers pass vbi_sliced arrays of the stated length; callback is non-NULL",
                   "the raw frame holds the sp->count[0] + sp->count[1] lines of bytes_per_line bytes the caller declares (RawHolds)",
                   "sampling parameters: scanning 625, YUV420, 13.5 MHz, synchronous (the only values valid_sampling_par admits; the "
                   "harness fixes them), offset / bytes_per_line / start / count / interlaced free"]
    trusted_base = ["harness/mux_harness.c + lean/Driver/Mux.lean (correspondence of feed/feedraw/cor/corraw/multiplex_sliced/multiplex_raw/encode_stuffing)",
                    "Mux/Spec.lean EnParse and Mux/RawSpec.lean: my transcription of EN 300 472 / EN 301 775 (4.9 for raw units) / ISO 13818-1",
                    "translate/gen_muxflags.py -> Generated/MuxFlags.lean (source shapes of generate_pes_packet / insert_sliced_data_units: muxKeepsLastDuSize, muxSegLastLine, muxBumpBothPaths; a stale flag shows as an unpredicted crash or a correspondence disagreement)",
                    "translate/gen_muxconsts.py -> Generated/MuxConsts.lean (PES header constants, PTS shifts, data_identifier ranges read from dvb_mux.c / dvb.h; Props/C06Hdr.lean ties the model to them)",
                    "constants of sliced.h/dvb.h compared op `consts` on every run"]

    # ------------------------------------------------------------------ generators
    def gen_cases(self, rng, tier):
        N = 1500 if tier == "quick" else 12000
        cases = [["consts"]]
        for i in range(N):
            k = rng.random()
            if k < 0.34: cases.append(self.case_clean(rng))
            elif k < 0.60: cases.append(self.case_mixed(rng))
            elif k < 0.70: cases.append(self.case_msliced(rng))
            elif k < 0.76: cases.append(self.case_stuff(rng))
            elif k < 0.88: cases.append(self.case_raw(rng))
            elif k < 0.94: cases.append(self.case_mraw(rng))
            else: cases.append(self.case_malformed(rng))
        # round 5: undefined-line Teletext behind a raw line request (finding C06-D4 when the lines before are on the second field)
        for _ in range(4 if tier == "quick" else 40):
            cases.append(self.case_undef_raw(rng))
        # round 6: frames built to end 0..3 bytes short of min_packet_size / of the next multiple of 184, last data unit of
        # every size class (seeded change C06-e: the 257 test applied on the round-up path only)
        for _ in range(90 if tier == "quick" else 900):
            cases.append(self.case_minfill(rng))
        return cases

    def case_minfill(self, rng):
        """data_identifier 0x99..0x9B (some 0x10..0x1F), min_packet_size raised, a frame whose header + data units end d = 0..3
        bytes before min_packet_size (fill path) or before the next multiple of 184 above it (round-up path), and whose last
        data unit is a raw unit of maximum size (257), a short raw unit, or a sliced unit of 46 / 16 / 5 bytes"""
        ttx_pool = [8, 9, 10, 11, 12, 13, 14, 15, 17, 18, 19, 20, 22] + list(range(320, 335))
        for attempt in range(1200):
            if attempt % 150 == 0:
                # the shape is fixed first (a class that is hard to build must not be under-represented), then built by retrying
                cls = rng.choice(["raw257", "raw257", "raw257", "rawshort", "rawshort", "ttx", "wss", "vps", "cc"])
                d = rng.choice([0, 1, 1, 1, 2, 3])
                fill = rng.random() < 0.7
            fixed = cls != "raw257" and rng.random() < 0.08
            m = rng.randrange(2, 10)
            mn = 184 * m if fill else 184 * rng.randrange(0, m)
            T = 184 * m - d - 46
            # fixed part: sliced lines
            xs = [s for s in (("vps", 16, 16), ("cc", 21, 5), ("wss", 23, 5)) if rng.random() < 0.4 or s[0] == cls]
            nraw, spl, rawlines = 0, 100, []
            if cls == "raw257":
                # 46 + 257 k n + 46 b + x = 184 m - d: solve for the number b of Teletext lines (d = 1 needs k n = 3, 6, 10, ..)
                k = rng.choice([1, 1, 2]); nraw = rng.randrange(1, 11); spl = 251 * k
                if fixed: continue
                base = 46 + d + 257 * k * nraw + sum(x[2] for x in xs)
                bs = [b for b in range(0, 20) if (base + 46 * b) % 184 == 0]
                if not bs: continue
                b = rng.choice(bs)
                m = (base + 46 * b) // 184
                mn = 184 * m if fill else 184 * rng.randrange(0, m)
                free = [l for l in list(range(7, 24)) + list(range(320, 336)) if l not in [x[1] for x in xs]]
                rawlines = rng.sample(free, nraw - 1) + [336]
            else:
                b = rng.randrange(0, 6) if rng.random() < 0.7 else rng.randrange(0, 20)
                if cls == "ttx": b = max(b, 1)
                S = 46 * (b + len(xs)) if fixed else 46 * b + sum(x[2] for x in xs)
                R = T - S
                if cls == "rawshort" or (R and rng.random() < 0.8):
                    nraw = 1
                    if fixed:
                        if R <= 0 or R % 46: continue
                        spl = 40 * (R // 46) - rng.randrange(0, 40)
                        if not 1 <= spl <= 720: continue
                    else:
                        cand = [n for n in range(1, 721) if n + 6 * ((n + 250) // 251) == R and n % 251]
                        if not cand: continue
                        spl = cand[0]
                    rawlines = [336] if cls == "rawshort" else [7]
                elif R != 0: continue
            pool = [l for l in ttx_pool if l not in rawlines]
            if b > len(pool): continue
            lines = [(rng.choice(TTX_IDS), l, payload(rng, 42)) for l in rng.sample(pool, b)]
            for name, ln, _ in xs:
                lines.append(({"vps": VPS, "cc": rng.choice([CC, CC1]), "wss": WSS}[name], ln, payload(rng, 13 if name == "vps" else 2)))
            lines += [(VBI625, l, []) for l in rawlines]
            lines.sort(key=lambda x: x[1])
            last = lines[-1] if lines else None
            if last is None: continue
            want_last = {"raw257": VBI625, "rawshort": VBI625, "ttx": None, "wss": WSS, "vps": VPS, "cc": None}[cls]
            if cls == "ttx" and last[0] not in TTX_IDS: continue
            if cls == "cc" and last[0] not in (CC, CC1): continue
            if want_last is not None and last[0] != want_last: continue
            c = [self.new_line(rng), "dataid %d" % (rng.choice([0x10, 0x1F, 0x15]) if fixed else rng.choice([0x99, 0x9A, 0x9B]))]
            mx = rng.choice([65504, 65504, 184 * (m + 1), 184 * (m + 2), 184 * m])
            c.append("size %d %d" % (mn, mx))
            pts = rng.randrange(2**33)
            if nraw:
                off = 132 + (rng.randrange(0, 721 - spl) if rng.random() < 0.5 else 0)
                if rng.random() < 0.25:
                    sizes = ",".join(str(rng.choice(BUFS)) for _ in range(rng.randrange(1, 4)))
                    c.append("corraw %d 0xffffffff %s %d %d 7 17 320 17 %d 0 0 %s" % (pts, sizes, off, spl, rng.randrange(256), fmt_lines(lines)))
                else:
                    c.append("feedraw %d 0xffffffff %d %d 7 17 320 17 %d %s" % (pts, off, spl, rng.randrange(256), fmt_lines(lines)))
            else:
                c.append("feed %d 0xffffffff 0 %s" % (pts, fmt_lines(lines)))
            c.append("feed %d 0xffffffff 0 %s" % (rng.randrange(2**33), fmt_lines([(3, 7, payload(rng, 42))])))
            c.append("state")
            self._minfill = getattr(self, "_minfill", {})
            key = "%s/%s/short%d%s" % (cls, "fill" if fill else "round", d, "/fixed" if fixed else "")
            self._minfill[key] = self._minfill.get(key, 0) + 1
            return c
        return self.case_raw(rng)

    def case_undef_raw(self, rng):
        """sliced frames (raw == NULL) holding a masked-out raw line request followed by a Teletext line with line number 0"""
        c = [self.new_line(rng)]
        first = rng.choice([7, 9, 22, 320, 321, 334])
        f = [(rng.choice(TTX_IDS), first, payload(rng, 42))]
        rawline = first + 1 + rng.randrange(0, 3) if rng.random() < 0.8 else rng.choice([8, 23, 330, 336])
        if rawline > first: f.append((VBI625, rawline, []))
        f.append((rng.choice(TTX_IDS), 0, payload(rng, 42)))
        c.append("feed %d 0x%x 0 %s" % (rng.randrange(2**33), ALL & ~VBI625, fmt_lines(f)))
        for _ in range(2):
            c.append("feed %d 0xffffffff 0 %s" % (rng.randrange(2**33), fmt_lines([(3, 7, payload(rng, 42))])))
        return c

    # raw line lengths that make the data end near a packet boundary / a full data unit
    SPLS = (720, 720, 1, 2, 40, 41, 80, 131, 125, 126, 137, 250, 251, 252, 257, 309, 315, 500, 502, 503, 100, 719)

    def raw_frame_lines(self, rng, f, nraw):
        used = {l for _, l, _ in f}
        for _ in range(nraw):
            free = [x for x in list(range(7, 24)) + list(range(320, 337)) if x not in used]
            if not free: break
            ln = rng.choice(free); used.add(ln)
            f.append((VBI625, ln, []))
        zero = [x for x in f if x[1] == 0]
        f = sorted([x for x in f if x[1]], key=lambda x: x[1])
        for z in zero: f.insert(rng.randrange(len(f) + 1), z)
        return f

    def case_raw(self, rng):
        """frames mixing sliced and raw lines through vbi_dvb_mux_feed with raw / sp"""
        c = [self.new_line(rng)]
        c.append("dataid %d" % rng.choice([0x10, 0x15, 0x99, 0x99, 0x9B, 0x99]))
        if rng.random() < 0.8:
            c.append("size %d %d" % (rng.choice([0, 0, 184, 368, 1104]), rng.choice([184, 368, 552, 736, 920, 1104, 1472, 1656, 2024, 65504])))
        for _ in range(rng.randrange(1, 5)):
            f = gen_frame(rng, dense=rng.choice([0.0, 0.05, 0.1, 0.3]))
            if rng.random() < 0.15: f.insert(rng.randrange(len(f) + 1), (rng.choice(TTX_IDS), 0, payload(rng, 42)))
            spl = rng.choice(self.SPLS) if rng.random() < 0.8 else rng.randrange(1, 721)
            off = 132 + (rng.randrange(0, 721 - spl) if rng.random() < 0.5 else 0)
            s0, c0, s1, c1 = 7, 17, 320, 17
            k = rng.random()
            if k < 0.08: s0, c0 = rng.choice([(9, 15), (7, 5), (0, 17), (1, 23)])
            elif k < 0.16: s1, c1 = rng.choice([(322, 15), (320, 3), (0, 17), (312, 25)])
            elif k < 0.20: off, spl = rng.choice([(131, 100), (132, 721), (800, 100), (132, 0), (852, 1), (0, 10)])
            elif k < 0.23: c0, c1 = rng.choice([(0, 0), (0, 17), (17, 0), (400, 17)])[0:2]
            f = self.raw_frame_lines(rng, f, rng.choice([1, 1, 1, 2, 2, 3, 0]))
            if rng.random() < 0.12: f = spoil(rng, f)
            mask = ALL if rng.random() < 0.85 else rng.choice([ALL & ~VBI625, VBI625, 3 | VBI625, 0x400 | VBI625, 3])
            il = 1 if rng.random() < 0.15 else 0
            if il and rng.random() < 0.7: c1 = c0
            rnull = 1 if rng.random() < 0.04 else 0
            if rng.random() < 0.3:
                # round 5: the same frame through vbi_dvb_mux_cor with raw / sp, any output buffer sizes
                sizes = ",".join(str(rng.choice(BUFS)) for _ in range(rng.randrange(1, 5)))
                c.append("corraw %d 0x%x %s %d %d %d %d %d %d %d %d %d %s" % (rng.randrange(2**33), mask, sizes, off, spl, s0, c0, s1, c1,
                                                                            rng.randrange(256), il, rnull, fmt_lines(f)))
            elif il or rnull or rng.random() < 0.2:
                c.append("feedraw2 %d 0x%x %d %d %d %d %d %d %d %d %d %s" % (rng.randrange(2**33), mask, off, spl, s0, c0, s1, c1,
                                                                          rng.randrange(256), il, rnull, fmt_lines(f)))
            else:
                c.append("feedraw %d 0x%x %d %d %d %d %d %d %d %s" % (rng.randrange(2**33), mask, off, spl, s0, c0, s1, c1,
                                                                   rng.randrange(256), fmt_lines(f)))
            # a plain sliced frame afterwards: the multiplexer must still be usable
            c.append("feed %d 0xffffffff 0 %s" % (rng.randrange(2**33), fmt_lines([(3, 7, payload(rng, 42))])))
        c.append("state")
        return c

    def case_mraw(self, rng):
        """vbi_dvb_multiplex_raw: every buffer size / line length / offset, both formats, 625 and 525, error paths"""
        c = []
        for _ in range(rng.randrange(3, 10)):
            did = rng.choice([0x10, 0x1F, 0x99, 0x99, 0x9B, 0, 0x20, rng.randrange(256)])
            fixed = (did >> 4) == 1
            ntot = rng.choice(self.SPLS) if rng.random() < 0.8 else rng.randrange(1, 721)
            fpp = rng.randrange(0, 721 - ntot) if rng.random() < 0.6 else 0
            rl = ntot if rng.random() < 0.7 else rng.randrange(0, ntot + 1)
            vs = rng.choice([1, 1, 1, 2, 2, 3, 0])
            f2 = 263 if vs == 2 else 313
            line = rng.choice(list(range(7, 24)) + [f2 + x for x in range(7, 24)]) if rng.random() < 0.85 else \
                rng.choice([0, 6, 24, f2 + 6, f2 + 24, 312, 313, 262, 263, 2**32 - 1, 1000])
            k = rng.random()
            if k < 0.06: fpp, ntot = rng.choice([(0, 721), (1, 720), (2**32 - 1, 2), (700, 30), (2**32 - 100, 200)]); rl = min(rl, 2000, ntot)
            elif k < 0.10: rl = min(2000, ntot + rng.randrange(1, 5))
            need = (46 * ((rl + 39) // 40)) if fixed else rl + 6 * ((rl + 250) // 251)
            k = rng.random()
            if fixed and k < 0.8: left = 46 * rng.randrange(0, 25)
            elif k < 0.45: left = need + rng.choice([0, 1, 2, 3, 5, 6, 7, 8, 256, 257, 258, 259, 600])
            elif k < 0.65: left = max(0, need - rng.randrange(1, 300))
            elif k < 0.85: left = rng.choice([257, 258, 259, 263, 264, 265, 514, 515, 516, 517, 520, 521, 522])
            else: left = rng.choice([0, 1, 2, 6, 7, 8, 13, 45, 46, 47, rng.randrange(3000)])
            stf = rng.randrange(2)
            if rng.random() < 0.15:
                # exactly 2 + 4 + 251 + 1 bytes left when a full unit could follow: the unit must be one sample shorter
                did = rng.choice([0x99, 0x9B, 0x20]); ntot = rng.choice([251, 252, 300, 502, 503, 600, 720]); rl, fpp = ntot, 0
                left = 257 * rng.randrange(0, (rl - 251) // 251 + 1) + 258
                stf = 1 if rng.random() < 0.8 else 0
                if vs in (0, 3): vs = 1
                line = 7 + rng.randrange(17)
            c.append("mraw %d %d %d %d %d %d %d %d %d" % (left, did, vs, line, fpp, ntot, stf, rl, rng.randrange(256)))
        return c

    def new_line(self, rng):
        if rng.random() < 0.5: return "new pes"
        return "new ts %d" % rng.choice([0x10, 0x1FFE, 0x100, 0x1234, rng.randrange(0x10, 0x1FFF)])

    def cfg_lines(self, rng, small=True):
        c = []
        if rng.random() < 0.7:
            c.append("dataid %d" % rng.choice([0x10, 0x1F, 0x99, 0x9A, 0x9B, 0x15, 0x99, 0x99]))
            if rng.random() < 0.15:
                # round 6: the edges of the two admitted ranges (rejected, the data_identifier stays what it was)
                c.append("dataid %d" % rng.choice([0x0F, 0x20, 0x98, 0x9C, 0, 0xFF, 0x110]))
        if rng.random() < 0.7:
            mn = rng.choice([0, 184, 185, 368, 1000, 1472, 0, 0])
            mx = rng.choice([184, 368, 552, 1472, 1500, 1656, 2000]) if small or rng.random() < 0.9 else rng.choice([65504, 70000, 30000])
            c.append("size %d %d" % (mn, mx))
        return c

    def case_clean(self, rng):
        """frames with recognisable boundaries, callback or coroutine, nothing interrupted (round-trip judged)"""
        c = [self.new_line(rng)] + self.cfg_lines(rng)
        use_cor = rng.random() < 0.4
        prev_last = 400
        for _ in range(rng.randrange(2, 9)):
            regular = rng.random() < 0.8
            f = gen_frame(rng, first_max=prev_last if regular else None)
            if regular and not f: f = [(3, 7, payload(rng, 42))]
            if f: prev_last = max(l for _, l, _ in f)
            if not regular and rng.random() < 0.3:
                f = [(rng.choice(TTX_IDS), 0, payload(rng, 42)) for _ in range(rng.randrange(1, 4))] + f if rng.random() < 0.5 else f
            if f and rng.random() < 0.2:
                pos = rng.randrange(1 if regular else 0, len(f) + 1)
                f.insert(pos, (rng.choice(TTX_IDS), 0, payload(rng, 42)))
            if rng.random() < 0.1:
                f.insert(rng.randrange(len(f) + 1), (0, 0, []))
            pts = rng.choice(PTS_EDGE) if rng.random() < 0.4 else rng.randrange(2**33)
            mask = ALL if regular or rng.random() < 0.5 else rng.choice([3, 7, 0x41F, 0x400, ALL & ~VBI625, 4, 0x18])
            if use_cor and rng.random() < 0.7:
                sizes = ",".join(str(rng.choice(BUFS)) for _ in range(rng.randrange(1, 4)))
                c.append("corall %d 0x%x %s %s" % (pts, mask, sizes, fmt_lines(f)))
            else:
                c.append("feed %d 0x%x 0 %s" % (pts, mask, fmt_lines(f)))
        c.append("feed 0 0xffffffff 0 1 3 7 " + hx([0x55] * 42))     # flushes the demultiplexer's last frame
        c.append("state")
        return c

    def case_mixed(self, rng):
        """accepted and rejected frames, configuration changes, failing callback, partial coroutine use, reset"""
        c = [self.new_line(rng)] + self.cfg_lines(rng, small=rng.random() < 0.9)
        for _ in range(rng.randrange(3, 12)):
            k = rng.random()
            f = gen_frame(rng)
            if rng.random() < 0.3: f = spoil(rng, f)
            if rng.random() < 0.1: f.insert(rng.randrange(len(f) + 1), (VBI625, 0, []))
            pts = rng.choice(PTS_EDGE) if rng.random() < 0.5 else rng.randrange(-2**63 + 1, 2**63)
            mask = ALL if rng.random() < 0.6 else rng.choice([3, 7, 0x41F, 0x400, ALL & ~VBI625, 0, rng.randrange(2**32)])
            if k < 0.45:
                fail = 0 if rng.random() < 0.85 else rng.randrange(1, 6)
                c.append("feed %d 0x%x %d %s" % (pts, mask, fail, fmt_lines(f)))
            elif k < 0.6:
                sizes = ",".join(str(rng.choice(BUFS)) for _ in range(rng.randrange(1, 4)))
                c.append("corall %d 0x%x %s %s" % (pts, mask, sizes, fmt_lines(f)))
            elif k < 0.8:
                for _ in range(rng.randrange(1, 5)):
                    c.append("cor %d 0x%x %d %s" % (pts, mask, rng.choice(BUFS + (0,)), fmt_lines(f)))
            elif k < 0.86: c.append("reset")
            elif k < 0.93: c += self.cfg_lines(rng, small=rng.random() < 0.9) or ["state"]
            else: c.append("state")
        c.append("state")
        return c

    def case_msliced(self, rng):
        c = []
        for _ in range(rng.randrange(2, 8)):
            f = gen_frame(rng, dense=rng.choice([0.05, 0.1, 0.2, 0.5]))
            if rng.random() < 0.2: f = spoil(rng, f)
            did = rng.choice([0x10, 0x1F, 0x99, 0x9B, 0, 0x20, 0x110, rng.randrange(256)])
            fixed = (did >> 4) == 1
            need = sum(du_size(s, fixed) if s in (1, 2, 3, VPS, WSS, CC, CC1) else 0 for s, l, _ in f)
            k = rng.random()
            if k < 0.4: left = need + rng.choice([0, 1, 2, 3, 5, 46, 256, 257, 258, 259, 514, 515, 600])
            elif k < 0.6: left = max(0, need - rng.randrange(1, 50))
            elif k < 0.8: left = 46 * rng.randrange(0, 40)
            else: left = rng.choice([0, 1, 2, 3, 6, 17, 47, 92, rng.randrange(3000)])
            mask = ALL if rng.random() < 0.8 else rng.choice([3, 0x400, 0])
            c.append("msliced %d 0x%x %d %d %s" % (left, mask, did, rng.randrange(2), fmt_lines(f)))
        return c

    def case_stuff(self, rng):
        c = []
        for _ in range(rng.randrange(3, 10)):
            fixed = rng.random() < 0.3
            if fixed:
                a = 46 * rng.randrange(0, 30) if rng.random() < 0.85 else rng.randrange(200)
                c.append("stuff %d %d 1 %s" % (a, rng.choice([0, 46]), hx(payload(rng, rng.choice([0, 46])))))
            else:
                k = rng.random()
                if k < 0.3:
                    b = rng.choice([2, 3, 5, 16, 46, 255, 256, 257, 0, 1])
                    pre = [0xC4, max(0, b - 2)] + payload(rng, max(0, b - 2)) if rng.random() < 0.9 else payload(rng, rng.randrange(300))
                    c.append("stuff 1 %d 0 %s" % (b, hx(pre[:300])))
                else:
                    a = rng.choice([0, 2, 3, 100, 256, 257, 258, 259, 260, 513, 514, 515, 516, 771, 772, 1000, rng.randrange(3000)])
                    b = rng.choice([0, 5, 46])
                    c.append("stuff %d %d 0 %s" % (a, b, hx(([0xC4, b - 2] + payload(rng, b - 2)) if b else [])))
        return c

    def case_malformed(self, rng):
        """op lines both sides must refuse the same way, and ops before `new`"""
        pool = ["feed", "feed 1", "feed 1 2 3", "feed x 1 0 0", "feed 1 1 0 1 3 7", "feed 1 1 0 1 3 7 zz", "feed 1 1 0 2 3 7 00",
                "cor 1 1 0 0", "cor 1 1 1,2 0", "corall 1 1 , 0", "corall 1 1 1,x 0", "dataid", "dataid x", "size 1", "size a b",
                "new", "new ts", "new ts x", "new pes 1", "new foo", "stuff 1 2 3", "stuff 1 2 2 -", "msliced 1 2 3", "bogus 1 2",
                "reset 1", "state 1", "feed 1 1 0 1 3 7 " + "00" * 57, "feed 1 1 0 1001", "msliced 70001 1 16 1 0",
                "feedraw 1 2 3", "stuff 1 300 0 -", "enparse", "mraw 1 2 3", "mraw 100 153 1 7 0 720 1 720 x", "mraw 70001 153 1 7 0 720 1 720 0",
                "feedraw2 1 1 132 720 7 17 320 17 0 2 0 0", "feedraw 1 1 132 5000 7 17 320 17 0 0", "feedraw 1 1 132 720 7 65 320 17 0 0",
                "feedraw 1 0xffffffff 132 720 7 17 320 17 0 1 0x20000000 7", "enparser",
                "corraw 1 2 3", "corraw 1 0xffffffff 5,x 132 720 7 17 320 17 0 0 0 0", "corraw 1 0xffffffff 5 132 720 7 17 320 17 0 2 0 0",
                "corraw 1 0xffffffff 0 132 100 7 17 320 17 0 0 0 1 0x20000000 8 -", "corraw 1 0xffffffff 7,0 132 100 7 17 320 17 0 0 0 1 0x20000000 8 -"]
        c = []
        if rng.random() < 0.5: c.append(self.new_line(rng))
        if rng.random() < 0.3: c.append("new ts %d" % rng.choice([0, 15, 0x1FFF, 0x2000, 2**32 + 5]))
        for _ in range(rng.randrange(3, 12)):
            c.append(rng.choice(pool))
        return c

    def classify(self, case):
        ops = {l.split()[0] for l in case}
        if "feedraw" in ops or "feedraw2" in ops or "corraw" in ops: return "raw"
        if "mraw" in ops: return "mraw"
        if "msliced" in ops: return "msliced"
        if "stuff" in ops: return "stuff"
        if "consts" in ops: return "consts"
        if "cor" in ops or "reset" in ops: return "mixed"
        if "corall" in ops: return "frames+cor"
        if "feed" in ops: return "frames"
        return "malformed"

    # ------------------------------------------------------------------ oracle
    def oracle(self, case, out):
        if len(out) != len(case):
            return "output count %d != ops %d" % (len(out), len(case))
        w, plan = self.judge_case(case, out)
        self._plans = getattr(self, "_plans", [])
        self._plans.append((case, plan))
        return w

    def judge_case(self, case, out):
        """API-contract part of the property, plus the plan of what EnParse / the demultiplexer must see.
        plan = dict(mode, pid, packets=[(op#, cc_before, hexbytes, pts33, dataid, size, lines)], clean=bool)"""
        sim = None
        plan = {"packets": [], "clean": True, "pid": 0}
        for i, (op, o) in enumerate(zip(case, out)):
            t = op.split(); r = o.split()
            if t[0] == "new" and o == "ok":
                sim = MuxSim(0 if t[1] == "pes" else int(t[2]) & ALL)
                plan["pid"] = sim.pid
                if plan["packets"]: plan["clean"] = False
                continue
            if t[0] == "new" and o == "ok null":
                sim = None; continue
            if o.startswith("rej"):
                continue
            if t[0] == "msliced":
                w = self.judge_msliced(t, r)
                if w: return w, plan
                continue
            if t[0] == "stuff":
                w = self.judge_stuff(t, r)
                if w: return w, plan
                continue
            if t[0] == "mraw":
                w = self.judge_mraw(t, r)
                if w: return w, plan
                continue
            if sim is None:
                continue
            if t[0] == "dataid":
                d = int(t[1]) & ALL
                valid = 0x10 <= d <= 0x1F or 0x99 <= d <= 0x9B
                if (r[1] == "true") != valid: return "set_data_identifier(%#x) returned %s" % (d, r[1]), plan
                if valid: sim.dataid = d
            elif t[0] == "size":
                sim.set_size(int(t[1]), int(t[2]))
                if [int(r[1]), int(r[2])] != [sim.min, sim.max]: return "set_pes_packet_size result %s" % o, plan
            elif t[0] == "reset":
                sim.cc = (sim.cc - 1) & 15; sim.pending = None; plan["clean"] = False
            elif t[0] == "state":
                kv = dict(x.split("=") for x in r[1:])
                if int(kv["cc"]) != sim.cc & 15: return "continuity counter %s, expected %d" % (kv["cc"], sim.cc & 15), plan
                if int(kv["dataid"]) != sim.dataid: return "data_identifier changed", plan
            elif t[0] == "feed":
                pts, mask, fail = int(t[1]), int(t[2], 0) & ALL, int(t[3])
                lines = parse_lines_tokens(t[4:])
                ok, calls, sizes, hexb = r[1] == "true", int(r[2]), r[3], r[4]
                if sim.pending: plan["clean"] = False
                sim.pending = None
                acc = sim.acceptable(lines, mask)
                if not ok and calls == 0:
                    if hexb != "-": return "rejected frame produced output: feed", plan
                    if acc: return "permitted frame rejected: feed", plan
                    continue
                if not acc: return "frame outside the contract was accepted: feed", plan
                size = sim.expect_size(lines, mask)
                npk = 1 if sim.pid == 0 else size // 184
                if fail and fail <= npk:
                    if ok: return "feed returned TRUE although the callback failed", plan
                    if calls != fail: return "callback called %d times after failing at %d" % (calls, fail), plan
                    sim.cc += fail if sim.pid else 0
                    plan["clean"] = False
                    continue
                if not ok: return "permitted frame rejected: feed", plan
                szs = [int(x) for x in sizes.split(",")]
                want = [size] if sim.pid == 0 else [188] * npk
                if szs != want: return "packet sizes %s, expected %s: feed" % (szs[:4], want[:4]), plan
                if not (sim.min <= size <= sim.max and size % 184 == 0): return "size outside bounds", plan
                plan["packets"].append((i, sim.cc & 15, hexb, pts % 2**33, sim.dataid, size,
                                        [canon(s, l, d) for s, l, d in lines if s & mask]))
                sim.cc += npk if sim.pid else 0
            elif t[0] in ("feedraw", "feedraw2", "corraw"):
                plan["clean"] = False          # the demultiplexer round trip (frames of sliced lines) is judged on other cases
                cor = t[0] == "corraw"         # round 5: vbi_dvb_mux_cor with raw / sp, run until *sliced_left == 0 or failure
                if cor and "0" in t[3].split(","):
                    # a zero-size buffer ends the loop with FALSE, possibly with output still pending and the counter advanced:
                    # the rest of this case is left to the correspondence check
                    plan["clean"] = False
                    return None, plan
                if cor and sim.pending is not None:
                    continue                   # pending output of an earlier cor op is drained first: correspondence only
                sim.pending = None
                a = self.raw_args(t)
                if cor:
                    ok, sleft, sidx, hexb = r[1] == "true", int(r[3]), int(r[4]), r[5]
                    calls, sizes = (0 if hexb == "-" else 1), ""
                else:
                    ok, calls, sizes, hexb = r[1] == "true", int(r[2]), r[3], r[4]
                acc, size, items = self.raw_expect(sim, a)
                if cor and not a["lines"]: acc = False      # *sliced_left == 0: FALSE by contract (dvb_mux.c:1789)
                plan.setdefault("raw_seen", []).append(ok)
                if not ok:
                    if calls or hexb != "-": return "rejected frame produced output: %s" % t[0], plan
                    if acc: return "permitted frame rejected: %s" % t[0], plan
                    if cor and a["lines"] and sleft + sidx != len(a["lines"]): return "sliced pointer accounting: corraw", plan
                    continue
                if acc is False: return "frame outside the contract was accepted: %s" % t[0], plan
                if acc is None: continue
                npk = 1 if sim.pid == 0 else size // 184
                if cor:
                    total = size if sim.pid == 0 else npk * 188
                    if hexb == "-" or len(hexb) // 2 != total: return "coroutine stored %d bytes, expected %d: corraw" % (len(hexb) // 2, total), plan
                    if sleft != 0 or sidx != len(a["lines"]): return "sliced_left %d / advance %d after the last byte: corraw" % (sleft, sidx), plan
                else:
                    szs = [int(x) for x in sizes.split(",")]
                    want = [size] if sim.pid == 0 else [188] * npk
                    if szs != want:
                        # round 6: the independent reader still gets the bytes, so that an illegal data unit is named as such
                        b = bytes.fromhex(hexb) if hexb != "-" else b""
                        if sim.pid and len(b) % 188 == 0: b = b"".join(b[k + 4:k + 188] for k in range(0, len(b), 188))
                        plan.setdefault("rawpackets", []).append((i, hx(b), a["pts"] % 2**33, sim.dataid, size, items))
                        return "packet sizes %s, expected %s: feedraw" % (szs[:4], want[:4]), plan
                if not (sim.min <= size <= sim.max and size % 184 == 0): return "size outside bounds: feedraw", plan
                b = bytes.fromhex(hexb)
                if sim.pid:
                    for k in range(0, len(b), 188):
                        h = b[k:k + 4]
                        if h[0] != 0x47 or ((h[1] & 0x1F) << 8 | h[2]) != sim.pid or (h[1] >> 6 & 1) != (1 if k == 0 else 0) \
                           or h[3] != 0x10 + ((sim.cc + k // 188) & 15):
                            return "raw frame: TS packet header", plan
                    b = b"".join(b[k + 4:k + 188] for k in range(0, len(b), 188))
                    sim.cc += npk
                plan.setdefault("rawpackets", []).append((i, hx(b), a["pts"] % 2**33, sim.dataid, size, items))
            elif t[0] in ("cor", "corall"):
                pts, mask = int(t[1]), int(t[2], 0) & ALL
                lines = parse_lines_tokens(t[4:])
                ok, calls, sleft, sidx, hexb = r[1] == "true", int(r[2]), int(r[3]), int(r[4]), r[5]
                data = bytes.fromhex(hexb) if hexb != "-" else b""
                if sim.pending is None:
                    acc = sim.acceptable(lines, mask) and len(lines) > 0
                    zero = t[0] == "cor" and int(t[3]) == 0
                    if not ok:
                        if data: return "rejected frame produced output: cor", plan
                        if acc and not zero: return "permitted frame rejected: cor", plan
                        if not zero and lines and sleft + sidx != len(lines): return "sliced pointer accounting: cor", plan
                        continue
                    if not acc: return "frame outside the contract was accepted: cor", plan
                    sim.pending = {"bytes": b"", "pts": pts % 2**33, "lines": [canon(s, l, d) for s, l, d in lines if s & mask],
                                   "size": sim.expect_size(lines, mask), "cc": sim.cc & 15, "op": i, "dataid": sim.dataid}
                elif not ok:
                    if t[0] == "cor" and int(t[3]) == 0: continue
                    return "cor failed while output was pending", plan
                pd = sim.pending
                pd["bytes"] += data
                total = pd["size"] if sim.pid == 0 else pd["size"] // 184 * 188
                if len(pd["bytes"]) > total: return "coroutine produced more bytes than the packet holds", plan
                if lines and (len(pd["bytes"]) == total) != (sleft == 0): return "sliced_left %d with %d of %d bytes out: cor" % (sleft, len(pd["bytes"]), total), plan
                if sim.pid: sim.cc = pd["cc"] + (len(pd["bytes"]) + 187) // 188
                if len(pd["bytes"]) == total:
                    plan["packets"].append((pd["op"], pd["cc"], hx(pd["bytes"]), pd["pts"], pd["dataid"], pd["size"], pd["lines"]))
                    sim.pending = None
        if sim is not None and sim.pending: plan["clean"] = False
        return None, plan

    def raw_args(self, t):
        if t[0] == "corraw":
            return {"pts": int(t[1]), "mask": int(t[2], 0) & ALL, "off": int(t[4]), "spl": int(t[5]), "s0": int(t[6]), "c0": int(t[7]),
                    "s1": int(t[8]), "c1": int(t[9]), "seed": int(t[10]), "il": int(t[11]), "rnull": int(t[12]),
                    "lines": parse_lines_tokens(t[13:])}
        two = t[0] == "feedraw2"
        at = 12 if two else 10
        return {"pts": int(t[1]), "mask": int(t[2], 0) & ALL, "off": int(t[3]), "spl": int(t[4]), "s0": int(t[5]), "c0": int(t[6]),
                "s1": int(t[7]), "c1": int(t[8]), "seed": int(t[9]), "il": int(t[10]) if two else 0, "rnull": int(t[11]) if two else 0,
                "lines": parse_lines_tokens(t[at:])}

    def raw_expect(self, sim, a):
        """the API contract for a frame with raw line requests -> (accepted True / False / None = unspecified, size, items)"""
        lines, mask, off, spl, s0, c0, s1, c1 = a["lines"], a["mask"], a["off"], a["spl"], a["s0"], a["c0"], a["s1"], a["c1"]
        valid = (off >= 132 and off + spl <= 852 and spl > 0 and not (c0 == 0 and c1 == 0)
                 and (s0 == 0 or (s0 >= 1 and s0 + c0 <= 311)) and (s1 == 0 or (s1 >= 312 and s1 + c1 <= 625))
                 and not (a["il"] and (c0 != c1 or c0 == 0)))
        if not valid: return False, 0, None
        last = 0
        for sid, ln, _ in lines:
            if ln > 0:
                if ln <= last: return False, 0, None
                last = ln
        fixed = 0x10 <= sim.dataid <= 0x1F
        T, items, full_raw_last = 46, [], False
        for sid, ln, d in lines:
            if sid & mask == 0: continue
            if sid == VBI625:
                if a["rnull"] or ln == 0: return False, 0, None
                field = 1 if ln >= 313 else 0
                st, ct = (s1, c1) if field else (s0, c0)
                if ln < st or ln - st >= ct: return False, 0, None
                if not 7 <= (ln - 313 if field else ln) <= 23: return False, 0, None
                row = ln - st
                row = row * 2 + field if a["il"] else (row + c0 if field else row)
                items.append(("R", ln, off - 132, [(a["seed"] + 7 * (row * spl + k)) & 255 for k in range(spl)]))
                T += 46 * ((spl + 39) // 40) if fixed else spl + 6 * ((spl + 250) // 251)
                full_raw_last = (not fixed) and spl % 251 == 0
            else:
                if not permitted(sid, ln): return False, 0, None
                T += du_size(sid, fixed); items.append(("L",) + canon(sid, ln, d)); full_raw_last = False
        if T > sim.max: return False, 0, None
        # one byte left before max_packet_size after a raw data unit of maximum size cannot be filled: unspecified
        if T + 1 == sim.max and full_raw_last: return None, 0, None
        size = max(sim.min, (T + 183) // 184 * 184)
        if size - T == 1 and full_raw_last: size += 184
        return True, size, items

    def judge_mraw(self, t, r):
        left, did, vs, line, fpp, ntot, stf, rl, seed = [int(x) for x in t[1:10]]
        ok, pleft, rleft, adv, radv = r[1] == "true", int(r[2]), int(r[3]), int(r[4]), int(r[5])
        buf = bytes.fromhex(r[6]) if r[6] != "-" else b""
        fixed = (did >> 4) == 1
        if pleft + adv != left or rleft + radv != rl: return "accounting: multiplex_raw"
        if any(x != 0xAA for x in buf[adv:]): return "multiplex_raw wrote past the reported position"
        f2 = 263 if vs == 2 else 313
        l = line - f2 if line >= f2 else line
        bad = (left < 2 or (fixed and left % 46) or rl == 0 or vs in (0, 3) or rl > ntot or fpp + ntot > 720 or not 7 <= l <= 23)
        if bad:
            if ok or adv or radv: return "multiplex_raw accepted arguments outside the contract"
            return None
        if not ok: return "multiplex_raw failed on valid arguments"
        if stf and pleft != 0: return "stuffing requested but packet_left = %d: multiplex_raw" % pleft
        us = self.du_walk(buf[:adv])
        if us is None: return "multiplex_raw output does not parse as data units"
        done, pos = 0, fpp + ntot - rl
        for uid, p in us:
            if fixed and len(p) != 0x2C: return "data_unit_length %d in fixed-length format: multiplex_raw" % len(p)
            if uid == 0xFF:
                if any(x != 0xFF for x in p): return "stuffing unit is not all 0xFF: multiplex_raw"
                if done < radv: return "stuffing between raw data units"
                continue
            if uid != 0xC6 or len(p) < 4: return "unexpected data unit id=%#x: multiplex_raw" % uid
            n = p[3]
            if n == 0 or len(p) < 4 + n or any(x != 0xFF for x in p[4 + n:]): return "raw data unit: n_pixels / stuffing bytes"
            if (p[0] >> 7 & 1) != (1 if done == 0 and rl == ntot else 0): return "raw data unit: first_segment_flag"
            if (p[0] >> 6 & 1) != (1 if done + n == rl else 0): return "raw data unit: last_segment_flag"
            if (p[0] >> 5 & 1) != (0 if line >= f2 else 1) or (p[0] & 31) != l: return "raw data unit: field_parity / line_offset"
            if p[1] << 8 | p[2] != pos: return "raw data unit: first_pixel_position %d, expected %d" % (p[1] << 8 | p[2], pos)
            if list(p[4:4 + n]) != [(seed + 7 * (done + k)) & 255 for k in range(n)]: return "raw data unit: samples differ from the input"
            done += n; pos += n
        if done != radv: return "raw data units carry %d samples, %d reported converted" % (done, radv)
        if radv < rl and not stf and pleft >= (46 if fixed else 7): return "samples left although a data unit would fit: multiplex_raw"
        return None

    def du_walk(self, b):
        """data units of a region (must fill it exactly) -> list of (id, payload) or None"""
        out, i = [], 0
        while i < len(b):
            if i + 2 > len(b) or i + 2 + b[i + 1] > len(b): return None
            out.append((b[i], b[i + 2:i + 2 + b[i + 1]])); i += 2 + b[i + 1]
        return out

    def judge_stuff(self, t, r):
        a, b, fixed = int(t[1]), int(t[2]), t[3] == "1"
        pre = bytes.fromhex(t[4]) if t[4] != "-" else b""
        buf = bytes.fromhex(r[1]) if r[1] != "-" else b""
        if len(buf) != len(pre) + a: return "encode_stuffing wrote %d bytes for p_left %d" % (len(buf) - len(pre), a)
        one = (not fixed) and a % 257 == 1
        if one and a == 1 and (b >= 257 or len(pre) < b):
            return None     # outside the documented precondition (last_du_size < 257, that unit in the buffer): unspecified
        keep = len(pre) if not (one and a == 1) else len(pre) - b
        if buf[:keep] != pre[:keep]: return "encode_stuffing changed bytes before the last data unit"
        region = buf[keep:]
        us = self.du_walk(region)
        if us is None: return "stuffing does not parse as data units: p_left=%d last=%d fixed=%d" % (a, b, fixed)
        if one and a == 1:
            if not us or us[0][0] != pre[keep] or us[0][1] != pre[keep + 2:] + b"\xff" or len(us) != 1:
                return "1-byte case did not extend the previous data unit by one stuffing byte"
        else:
            for uid, p in us:
                if uid != 0xFF or any(x != 0xFF for x in p): return "stuffing unit is not all 0xFF"
                if fixed and len(p) != 0x2C: return "fixed-length stuffing unit has length %d" % len(p)
        return None

    def judge_msliced(self, t, r):
        left, mask, did, stf = int(t[1]), int(t[2], 0) & ALL, int(t[3]) & ALL, t[4] == "1"
        lines = parse_lines_tokens(t[5:])
        ok, pleft, sleft, adv = r[1] == "true", int(r[2]), int(r[3]), int(r[4])
        buf = bytes.fromhex(r[5]) if r[5] != "-" else b""
        fixed = (did >> 4) == 1
        if pleft + adv != left: return "packet_left accounting: multiplex_sliced"
        if any(x != 0xAA for x in buf[adv:]): return "multiplex_sliced wrote past the reported position"
        if left < 2 or (fixed and left % 46):
            if ok or adv: return "multiplex_sliced accepted an unusable buffer size"
            return None
        done = lines[:len(lines) - sleft]
        exp = [canon(s, l, d) for s, l, d in done if s & mask]
        if None in exp or not all(permitted(s, l) for s, l, d in done if s & mask):
            return "multiplex_sliced converted a line outside the contract"
        if ok and stf and pleft != 0: return "stuffing requested but packet_left = %d" % pleft
        us = self.du_walk(buf[:adv])
        if us is None: return "multiplex_sliced output does not parse as data units"
        got = []
        for uid, p in us:
            if fixed and len(p) != 0x2C: return "data_unit_length %d in fixed-length format" % len(p)
            l = self.unit_line(uid, p)
            if l is False: return "malformed data unit id=%#x" % uid
            if l is not None: got.append(l)
        if got != exp: return "multiplex_sliced: data units carry %s, input was %s" % (str(got)[:80], str(exp)[:80])
        if not ok and sleft == 0 : return "multiplex_sliced failed without an offending line"
        return None

    def unit_line(self, uid, p):
        """Python twin of EnParse.unitLine for the low-level ops: None = stuffing, False = malformed"""
        rev = lambda x: int("{:08b}".format(x)[::-1], 2)
        def line(lofp):
            if lofp >> 6 != 3: return None
            off = lofp & 31
            return 0 if off == 0 else off if lofp & 32 else 313 + off
        if uid == 0xFF: return None if all(x == 0xFF for x in p) else False
        need = {2: 44, 3: 44, 0xC3: 14, 0xC4: 3, 0xC5: 3}.get(uid)
        if need is None or len(p) < need or any(x != 0xFF for x in p[need:]): return False
        l = line(p[0])
        if l is None: return False
        if uid in (2, 3):
            if p[1] != 0xE4 or not (l == 0 or 7 <= p[0] & 31 <= 22): return False
            return (3, l, [rev(x) for x in p[2:44]])
        if uid == 0xC3: return (4, l, list(p[1:14])) if l == 16 else False
        if uid == 0xC4: return (0x400, l, [rev(p[1]), rev(p[2]) & 0x3F]) if l == 23 and p[2] & 3 == 3 else False
        return (8, l, [rev(p[1]), rev(p[2])]) if l == 21 else False

    def signature(self, case, what):
        """shape of the failing input, not its random bytes"""
        if "last_du_size >= 2" in what and what.startswith("crash"):
            # distinguishing shape: the aborting call is a feed with raw (VBI_625) lines in the frame
            raw = False
            for l in case:
                t = l.split()
                if t and t[0] in ("feedraw", "feedraw2", "corraw"):
                    try: raw = raw or any(sid == VBI625 for sid, _, _ in self.raw_args(t)["lines"])
                    except (ValueError, IndexError): pass
            return "feedraw:assert-last_du_size" if raw else "crash:assert-last_du_size"
        if (what.startswith("demux round trip") or what.startswith("joined round trip")) and self.undef_after_raw(case):
            return "undef-after-raw:field-parity"          # finding C06-D4 (round 5)
        if what.startswith("crash") or what.startswith("hang"):
            return what.split("(")[0].strip() + ":" + what.split("(", 1)[-1][:60]
        return re.sub(r"\d+", "N", what.split(":")[0])

    def undef_after_raw(self, case):
        """shape of finding C06-D4: a selected line with the undefined line number 0 behind a raw line request, the last
        defined selected line before the request lying on the second field"""
        for l in case:
            t = l.split()
            try:
                if not t: continue
                if t[0] == "feed": mask, lines = int(t[2], 0) & ALL, parse_lines_tokens(t[4:])
                elif t[0] in ("cor", "corall"): mask, lines = int(t[2], 0) & ALL, parse_lines_tokens(t[4:])
                elif t[0] in ("feedraw", "feedraw2", "corraw"):
                    a = self.raw_args(t); mask, lines = a["mask"], a["lines"]
                else: continue
            except (ValueError, IndexError):
                continue
            last, seen_raw = 0, False
            for sid, ln, _ in lines:
                if sid == VBI625:
                    seen_raw = seen_raw or last >= 313 or (sid & mask != 0 and ln >= 313)
                    continue
                if sid & mask == 0: continue
                if ln == 0:
                    if seen_raw: return True
                else:
                    last, seen_raw = ln, False
        return False

    # ------------------------------------------------------------------ batch parts of the oracle
    def extra_checks(self, ctx):
        res = []
        plans = getattr(self, "_plans", [])
        # (a) EnParse (Lean spec, run through the model driver) on every accepted frame's bytes
        ops, meta = [], []
        for case, plan in plans:
            for (i, cc, hexb, pts, did, size, lines) in plan["packets"]:
                if plan["pid"] == 0: ops.append("enparse pes " + hexb)
                else: ops.append("enparse ts %d %d %s" % (plan["pid"], cc, hexb))
                meta.append((case, plan, i, cc, pts, did, size, lines))
        self.extra_coverage = {"enparse_packets": len(ops), "minfill_shapes": dict(sorted(getattr(self, "_minfill", {}).items()))}
        if ops:
            p = subprocess.run(ctx["mcmd"], input=("\n".join(ops) + "\n").encode(), stdout=subprocess.PIPE, timeout=900)
            outs = p.stdout.decode().split("\n")
            seen = set()
            for (case, plan, i, cc, pts, did, size, lines), o in zip(meta, outs):
                w = self.judge_enparse(plan, cc, pts, did, size, lines, o)
                if w and w.split(":")[0] not in seen:
                    seen.add(w.split(":")[0])
                    res.append((w + " (op %d)" % i, case))
        # (b) the library's demultiplexer on the same bytes
        hexe = ctx["hcmd"][0]
        clean = [(case, plan) for case, plan in plans if plan["clean"] and plan["packets"]]
        if clean:
            outs, inc = verif.run_side([hexe, "--demux"], [c for c, _ in clean], self.timeout_per_case)
            for x in inc:
                res.append(("%s of the real code in mux -> demux (%s)" % (x["kind"], verif.summarize_san(x["detail"])), clean[x["case"]][0]))
            bad = {x["case"] for x in inc}
            n_frames, seen = 0, set()
            for k, (case, plan) in enumerate(clean):
                if k in bad: continue
                w, nf = self.judge_demux(plan, outs.get(k, []))
                n_frames += nf
                if w and w.split(":")[0] not in seen:
                    seen.add(w.split(":")[0]); res.append((w, case))
            self.extra_coverage["demux_roundtrip_cases"] = len(clean)
            self.extra_coverage["demux_frames_compared"] = n_frames
        # (b2) the joined round trip through C07's harness: the bytes the real multiplexer emitted (callback or
        #      coroutine, PES mode) through the real demultiplexer whole / in random cuts / byte-wise / via
        #      vbi_dvb_demux_cor (whole, small pieces, random cuts); every variant must deliver the sent frames
        pes_clean = [(case, plan) for case, plan in clean if plan["pid"] == 0]
        if pes_clean:
            rng = ctx["rng"]
            lim = 300 if ctx["tier"] == "quick" else 3000
            if len(pes_clean) > lim: pes_clean = rng.sample(pes_clean, lim)
            dexe, derr = verif.build_harness("demux_harness", link_lib=True)
            if dexe is None:
                res.append(("harness build demux_harness for the joined round trip: " + str(derr)[-300:], pes_clean[0][0]))
            else:
                def cut(b):
                    pts = sorted(set(rng.randrange(1, len(b)) for _ in range(rng.randrange(1, 30)))) if len(b) > 1 else []
                    return [b[i:j] for i, j in zip([0] + pts, pts + [len(b)])]
                dcases = []
                for case, plan in pes_clean:
                    b = "".join(x[2] for x in sorted(plan["packets"], key=lambda x: x[0]))
                    bb = [b[i:i + 2] for i in range(0, len(b), 2)]
                    c = ["new pes", "feed " + b, "new pes"] + ["feed " + "".join(x) for x in cut(bb)]
                    c += ["new pes", "feedn 1 " + b, "new pes", "feedn %d %s" % (rng.choice([2, 7, 47, 183, 188, rng.randrange(2, 400)]), b)]
                    c += ["newcor pes", "cor " + b, "newcor pes", "corn %d %s" % (rng.choice([1, 7, 46, 188, rng.randrange(2, 300)]), b)]
                    c += ["newcor pes"] + ["cor " + "".join(x) for x in cut(bb)]
                    dcases.append(c)
                outs, inc = verif.run_side([dexe], dcases, self.timeout_per_case)
                for x in inc:
                    res.append(("%s of the real code in mux -> demux partitions/coroutine (%s)" % (x["kind"], verif.summarize_san(x["detail"])), pes_clean[x["case"]][0]))
                bad = {x["case"] for x in inc}
                n_var, seen = 0, set()
                for k, (case, plan) in enumerate(pes_clean):
                    if k in bad: continue
                    w, nv = self.judge_demux_variants(plan, dcases[k], outs.get(k, []))
                    n_var += nv
                    if w and w.split(":")[0] not in seen:
                        seen.add(w.split(":")[0]); res.append((w, case))
                self.extra_coverage["demux_partition_cor_cases"] = len(pes_clean)
                self.extra_coverage["demux_partition_cor_variants"] = n_var
        # (c) raw lines: RawSpec.parsePesR (Lean, independent reader of EN 301 775 4.9) on every accepted frame with raw ops
        ops, meta = [], []
        for case, plan in plans:
            for (i, hexb, pts, did, size, items) in plan.get("rawpackets", []):
                ops.append("enparser " + hexb); meta.append((case, i, pts, did, size, items))
        self.extra_coverage["rawspec_packets"] = len(ops)
        self.extra_coverage["raw_frames_accepted"] = sum(sum(1 for x in plan.get("raw_seen", []) if x) for _, plan in plans)
        self.extra_coverage["raw_frames_rejected"] = sum(sum(1 for x in plan.get("raw_seen", []) if not x) for _, plan in plans)
        if ops:
            p = subprocess.run(ctx["mcmd"], input=("\n".join(ops) + "\n").encode(), stdout=subprocess.PIPE, timeout=900)
            outs = p.stdout.decode().split("\n")
            seen = set()
            for (case, i, pts, did, size, items), o in zip(meta, outs):
                w = self.judge_enparser(pts, did, size, items, o)
                if w and w.split(":")[0] not in seen:
                    seen.add(w.split(":")[0]); res.append((w + " (op %d)" % i, case))
        # (d) a crash of the real code must be predicted by the model at the same op (ties Generated/MuxFlags.lean,
        #     i.e. the source shape the translator read, to the tree under test), and the outputs before it must agree
        n_pred = 0
        for i, case in enumerate(ctx["cases"]):
            io, mo = ctx["impl_out"].get(i, []), ctx["model_out"].get(i, [])
            if len(io) >= len(case) or not mo: continue
            # (stdout of the aborted process is lost from the last flush on, so `io` may stop before the crashing op)
            k = len(io)
            # the last line may be cut where the stdio buffer was flushed last
            if io[:-1] != mo[:max(0, k - 1)] or (io and not (k <= len(mo) and mo[k - 1].startswith(io[-1]))):
                res.append(("model and code disagree before a crash of the real code (op %d)" % k, case)); continue
            if io and io[-1] != mo[k - 1]: k -= 1
            if not any(x.startswith("rej model:assert") for x in mo[k:]):
                res.append(("crash of the real code is not predicted by the model: source shape flag stale?", case))
            else: n_pred += 1
        self.extra_coverage["crashes_predicted_by_model"] = n_pred
        # (e) the library's demultiplexer must survive packets with raw data units (it does not decode them)
        rawc = [case for i, case in enumerate(ctx["cases"]) if any(l.startswith("feedraw") or l.startswith("corraw") for l in case)
                and len(ctx["impl_out"].get(i, [])) >= len(case)]
        if ctx["tier"] == "quick" and len(rawc) > 80: rawc = ctx["rng"].sample(rawc, 80)
        if rawc:
            outs, inc = verif.run_side([hexe, "--demux"], rawc, self.timeout_per_case)
            for x in inc:
                res.append(("%s of the real code with raw lines in mux -> demux (%s)" % (x["kind"], verif.summarize_san(x["detail"])), rawc[x["case"]]))
        self.extra_coverage["raw_demux_cases"] = len(rawc)
        return res

    def judge_enparser(self, pts, did, size, items, o):
        if not o.startswith("ok pkt"):
            return "RawSpec: emitted bytes are not a well-formed PES packet with raw data units"
        t = o.split()
        if int(t[2]) != pts: return "RawSpec: PTS %s, sent %d" % (t[2], pts)
        if int(t[3]) != did: return "RawSpec: data_identifier %s, configured %d" % (t[3], did)
        if int(t[4]) != size: return "RawSpec: packet size %s, expected %d" % (t[4], size)
        n, got, k = int(t[5]), [], 6
        for _ in range(n):
            if t[k] == "L":
                got.append(("L", int(t[k + 1]), int(t[k + 2]), list(bytes.fromhex(t[k + 3])))); k += 4
            else:
                got.append(("R", int(t[k + 1]), int(t[k + 2]), list(bytes.fromhex(t[k + 3])) if t[k + 3] != "-" else [])); k += 4
        if got != items:
            d = next((j for j, (x, y) in enumerate(zip(got, items)) if x != y), min(len(got), len(items)))
            return "RawSpec: packet carries other lines / samples than the input: %d vs %d items, first difference at %d: got %s want %s" % (
                len(got), len(items), d, str(got[d] if d < len(got) else None)[:70], str(items[d] if d < len(items) else None)[:70])
        return None

    def judge_enparse(self, plan, cc, pts, did, size, lines, o):
        if not o.startswith("ok") or "malformed" in o:
            return "EnParse: emitted bytes are not a well-formed %s stream" % ("PES" if plan["pid"] == 0 else "TS")
        parts = o.split(" | ")
        if plan["pid"]:
            want_cc = (cc + size // 184) & 15
            if parts[0] != "ok cc=%d" % want_cc: return "EnParse: continuity counter after the frame: %s, expected %d" % (parts[0], want_cc)
        if len(parts) != 2: return "EnParse: %d PES packets for one frame" % (len(parts) - 1)
        t = parts[1].split()
        if int(t[1]) != pts: return "EnParse: PTS %s, sent %d" % (t[1], pts)
        if int(t[2]) != did: return "EnParse: data_identifier %s, configured %d" % (t[2], did)
        if int(t[3]) != size: return "EnParse: packet size %s, expected %d" % (t[3], size)
        n = int(t[4])
        got = [(int(t[5 + 3 * k]), int(t[6 + 3 * k]), list(bytes.fromhex(t[7 + 3 * k]))) for k in range(n)]
        if got != lines:
            return "EnParse: packet carries other lines than the input: got %s want %s" % (str(got)[:100], str(lines)[:100])
        return None

    def expected_groups(self, pk):
        # expected groups: a new frame is recognised at the first data unit of a packet when its line
        # number does not increase (line 0: when the field goes back to the first)
        groups, cur, last_line, last_field, any_unit = [], None, 0, 0, False
        for (i, cc, hexb, pts, did, size, lines) in pk:
            if cur is None: cur = [pts, []]
            mux_last = 0
            for idx, (sid, ln, d) in enumerate(lines):
                field = (1 if ln >= 313 else 0) if ln else (1 if mux_last >= 313 else 0)
                if ln: mux_last = ln
                if idx == 0:
                    new = (ln != 0 and ln <= last_line) or (ln == 0 and any_unit and field != last_field)
                    if new:
                        groups.append(cur); cur = [pts, []]; last_line, last_field = 0, 0
                elif ln and ln <= last_line:
                    return None     # frame boundary not recognisable (frame began with an undefined line): unspecified
                if ln: last_line = ln
                last_field = field
                cur[1].append((sid, ln, d))
            any_unit = True
        return groups

    def judge_demux_variants(self, plan, dcase, out):
        """C07 harness output for one stream pushed through several partitions and the coroutine: every variant
        must deliver the sent frames (frames without lines do not count)"""
        pk = sorted(plan["packets"], key=lambda x: x[0])
        groups = self.expected_groups(pk)
        if groups is None or any(len(g[1]) > 63 for g in groups): return None, 0
        want = [(g[0], g[1]) for g in groups if g[1]]      # the group still open at the end is not in `groups`
        variants, cur = [], None
        for op, o in zip(dcase, out):
            w = op.split()[0]
            if w in ("new", "newcor"):
                cur = []; variants.append((w, cur)); continue
            if not o.startswith("ok 1 "):
                return "joined round trip: demux harness answered '%s' to %s" % (o[:60], w), len(variants)
            body = o[5:]
            for f in ([] if body == "-" else body.split(" | ")):
                t = f.split()
                ls = []
                for x in t[2:]:
                    sid, ln, hexd = x.split(":")
                    d = list(bytes.fromhex(hexd))
                    if int(sid) == 0x400: d[1] &= 0x3F
                    ls.append((int(sid), int(ln), d))
                if ls: cur.append((int(t[0][4:]), ls))
        for i, (w, got) in enumerate(variants):
            if got != want:
                k = next((j for j, (a, b) in enumerate(zip(got, want)) if a != b), min(len(got), len(want)))
                return ("joined round trip: %s variant %d delivers other frames than sent (%d vs %d, first difference at frame %d)"
                        % ("coroutine" if w == "newcor" else "feed partition", i, len(got), len(want), k)), len(variants)
        return None, len(variants)

    def judge_demux(self, plan, out):
        """frames delivered by vbi_dvb_demux_feed must be the sent frames (grouped where a boundary is not recognisable)"""
        got = []
        for o in out:
            for part in o.split(" | ")[1:]:
                t = part.split()
                if t[0] != "frame": continue
                n = int(t[2])
                ls = []
                for k in range(n):
                    sid, ln, d = int(t[3 + 3 * k]), int(t[4 + 3 * k]), list(bytes.fromhex(t[5 + 3 * k]))
                    if sid == 0x400: d[1] &= 0x3F
                    ls.append((sid, ln, d))
                got.append((int(t[1]), ls))
        pk = sorted(plan["packets"], key=lambda x: x[0])
        groups = self.expected_groups(pk)
        if groups is None or any(len(g[1]) > 64 for g in groups): return None, 0
        want = [(g[0], g[1]) for g in groups]
        if got == want: return None, len(want)
        if plan["pid"] and pk and pk[0][5] == 184:
            alt = self.expected_groups(pk[1:])
            if alt is not None and got == [(g[0], g[1]) for g in alt]:
                return "demux round trip TS first single-packet PES lost: the TS demultiplexer never delivers the first frame", len(want)
        for k in range(max(len(got), len(want))):
            a = got[k] if k < len(got) else None
            b = want[k] if k < len(want) else None
            if a != b:
                return "demux round trip: frame %d differs: got %s want %s" % (k, str(a)[:120], str(b)[:120]), len(want)
        return None, len(want)


_orig_load_known = verif.load_known


def _load_known():
    """known_findings.json plus this component's own known_findings.C06.json (until it is merged)"""
    k = _orig_load_known()
    p = os.path.join(verif.VERIF, "known_findings.C06.json")
    if os.path.exists(p):
        import json
        have = {f.get("id") for f in k.get("findings", [])} | {f for f in k.get("fixed", []) if isinstance(f, str)}
        for f in json.load(open(p)).get("findings", []):
            if f.get("id") not in have:
                k.setdefault("findings", []).append(f)
    return k


verif.load_known = _load_known


if __name__ == "__main__":
    verif.run_check(C06())
