#!/usr/bin/env python3
"""C13 - station, programme, time and aspect announcements are faithful and debounced.

Correspondence: reception histories over VPS / 8/30-1 / 8/30-2 / WSS / XDS lines through vbi_decode of a real
decoder (event-logging handler, vbi_is_cached probes, internal state dumps) against `zvbi_model net`.
Oracle: the property itself, judged on the real code's event log from the op lines alone (the lines are
decoded here by small spec decoders, never by the model):
  O1 faithful      every NETWORK_ID/NETWORK/PROG_ID/LOCAL_TIME/ASPECT event carries what the triggering line transmitted
  O2 needs-repeat  a NETWORK_ID needs the previous reception of that carrier to be equal; ASPECT needs 4 equal valid words
  O3 stable        no NETWORK_ID while no reception deviated since the last one; no second ASPECT for the same aspect
  O4 quiet windows (`note quiet-begin kind=glitch|stable ...`): no NETWORK event, cached pages stay cached
  O5 change windows (`note change-begin to=<nuid>`): exactly one NETWORK event, carrying <nuid>; pages gone afterwards
  O6 liveness      `note established`: the station was announced at all
  O7 complete value  XDS network name / call letters: NETWORK_ID only when the previous name packet carried the same complete
                   filtered string (a prefix is a different name), carrying that name, the call letters received last and
                   the documented check-sum id; the same non-empty name twice in a row after a change IS announced.
                   VPS PROG_ID: exactly the label of the triggering line, and the previous VPS line carried the same label
                   in every field (CNI, PIL, PCS, PTY); 8/30 format 2 PROG_ID: exactly the label of the packet (LCI, LUF,
                   PRF, PCS, MI, CNI, PIL, PTY), one event per valid packet.
  O8 strfu / layout  `strfu <array> <text>` (xds_strfu on an exact-size heap array): result = comparison of the complete
                   strings, array = text + terminator + untouched rest, `rej oob` exactly when it does not fit; `layout`:
                   a 32-byte text fits name[] and call[], vbi_program_id has no padding.
  O9 sender side   `note tx` (emitted for every packet built by the C12 sender specification): PROG_ID / LOCAL_TIME carry exactly the
                   field values the station put in (format 2 also with one bit error per packet); NETWORK_ID carries the table's
                   name and the call letters received last; NETWORK is followed by NETWORK_ID with the same record; PROG_INFO
                   follows ASPECT with the same record; the ASPECT event of a reset is the full-format record of the system
                   (625 / 525 lines) of the line kind (WSS-625 / CPR-1204 word) that stored the aspect ratio being forgotten.
"""
import importlib.util, os, subprocess, sys
sys.path.insert(0, os.path.join(os.path.dirname(os.path.abspath(__file__)), "..", "lib"))
import verif
import net_util as nu

_spec = importlib.util.spec_from_file_location("gen_net", os.path.join(verif.VERIF, "translate", "gen_net.py"))
gen_net = importlib.util.module_from_spec(_spec)
_spec.loader.exec_module(gen_net)

hx = nu.hx
REV8 = [int("{:08b}".format(i)[::-1], 2) for i in range(256)]


def unham8(b):
    """EN 300 706 8.2: nibble, single errors corrected, None on double error"""
    best = None
    for n, c in enumerate(nu.HAM8):
        d = bin(c ^ b).count("1")
        if d <= 1:
            best = n
    return best


def unham16(b0, b1):
    a, b = unham8(b0), unham8(b1)
    return None if a is None or b is None else a | (b << 4)


WSS_FMT = {0: (23, 310, 1), 6: (23, 310, 1), 1: (41, 292, 1), 2: (23, 274, 1), 3: (59, 273, 1), 5: (59, 273, 1),
           4: (23, 237, 1), 7: (23, 310, 2)}   # EN 300 294 table 1 as libzvbi documents the active lines


def wss_spec(b0, b1):
    f = WSS_FMT[b0 & 7]
    return [f[0], f[1], f[2], 1 if b0 & 0x10 else 0, (b1 >> 1) & 3]


def wss_parity_ok(b0):
    return bin(b0 & 15).count("1") % 2 == 1


class Table:
    def __init__(self):
        self.rows = gen_net.parse_table()

    def lookup(self, carrier, cni):
        """(id, defined?)  - `defined` False where the documented behaviour says nothing (8/30-2 fallback on a masked zero)"""
        if cni == 0:
            return 0, True
        col = {"8301": 3, "8302": 4, "vps": 6}[carrier]
        for r in self.rows:
            if r[col] == cni:
                return r[0], True
        if carrier == "8302":
            m = cni & 0xFFF
            if m == 0:
                return None, False
            for r in self.rows:
                if r[6] == m:
                    return r[0], True
        return 0, True


def table_name(tbl, carrier, cni):
    """name of the first row that answers the look-up (None where the documented behaviour says nothing)"""
    if cni == 0:
        return b""
    col = {"8301": 3, "8302": 4, "vps": 6}[carrier]
    for r in tbl.rows:
        if r[col] == cni:
            return r[2]
    if carrier == "8302":
        m = cni & 0xFFF
        if m == 0:
            return None
        for r in tbl.rows:
            if r[6] == m:
                return r[2]
    return b""


xds_norm = nu.xds_filter


class Rx:
    """what one sliced line transmits, decoded from the op token by spec decoders"""
    def __init__(self, tok, mask):
        self.kind = None      # vps | 8301 | 8302 | wss | xdsname | xdscall | page | other
        self.value = None
        self.extra = {}
        k, arg = tok.split(":", 1)
        try:
            b = list(bytes.fromhex(arg)) if k in "vtwncj" and arg != "-" else []
        except ValueError:
            b = []
        if k == "v" and len(b) == 13:
            self.kind, self.value = "vps", nu.vps_cni_of(b)
            d = nu.vps_pid_spec(b)      # channel VPS (4), CNI type VPS (1); LUF/PRF do not exist in VPS, MI is implied
            self.extra["pid"] = [4, 1, d["cni"], d["pil"], 0, 1, 0, d["pcs"], d["pty"]]
        elif k == "w" and len(b) == 2:
            self.kind, self.value = "wss", (b[0], b[1])
        elif k == "j" and len(b) == 3:
            self.kind, self.value = "cpr", b[0]
        elif k == "n":
            self.kind, self.value = "xdsname", xds_norm(b)
        elif k == "c":
            self.kind, self.value = "xdscall", xds_norm(b)
        elif k == "p":
            self.kind, self.value = "page", int(arg, 0)
        elif k == "t" and len(b) == 42:
            self.kind = "other"
            pm = unham16(b[0], b[1])
            if pm is None or (pm >> 3) != 30 or (pm & 15) != 0:
                return
            des = unham8(b[2])
            if des is None or des > 4:
                return
            if mask & nu.EV["TTX_PAGE"] and None in (unham16(b[3], b[4]), unham16(b[5], b[6]), unham16(b[7], b[8])):
                return
            bsd = bool(mask & (nu.EV["NETWORK"] | nu.EV["NETWORK_ID"]))
            if des >= 2:
                t = [unham16(b[8 + 2 * i], b[9 + 2 * i]) for i in range(7)]
                if (not bsd or des == 4 or None not in t) and mask & nu.EV["PROG_ID"]:
                    # the label of a format 2 packet (EN 300 231); designation 4 is reserved in EN 300 706 but
                    # libzvbi treats everything from 2 up as format 2 (observation, see NOTES)
                    d = nu.p8302_pid_spec(b)
                    if d is not None:
                        self.extra["pid"] = [d["lci"], 3, d["cni"], d["pil"], d["luf"], d["mi"], d["prf"], d["pcs"], d["pty"]]
                        self.extra["pid_reserved"] = des == 4
            if not bsd or des == 4:
                return
            if des <= 1:
                self.kind, self.value = "8301", REV8[b[9]] * 256 + REV8[b[10]]
            else:
                if None in t:
                    return
                bb = [REV8[x] for x in t]
                cni = ((bb[4] & 3) << 10) + ((bb[5] & 0xC0) << 2) + (bb[2] & 0xC0) + (bb[5] & 0x3F) + ((bb[1] & 15) << 12)
                if cni == 0x0DC3:   # ARD/ZDF shared code, EN 300 231 annex
                    cni = 0x0DC2 if bb[2] & 0x10 else 0x0DC1
                self.kind, self.value = "8302", cni


def frame_tokens(op):
    """op line -> (t, [tokens]) or None"""
    w = op.split()
    sugar = {"vps": "v:", "p830": "t:", "wss": "w:", "cpr": "j:", "xdsname": "n:", "xdscall": "c:", "page": "p:"}
    try:
        if w[0] == "frame":
            return int(w[1], 0), w[2:]
        if w[0] in sugar and len(w) == 3:
            return int(w[2], 0), [sugar[w[0]] + w[1]]
    except (ValueError, IndexError):
        return None
    return None


CARRIER_FIELD = {"vps": 3, "8301": 4, "8302": 5}   # index into net/nid event fields


class C13(verif.Spec):
    prop = "C13"
    comp = "net"
    lean_modules = ["ZvbiModel.Props.C13", "ZvbiModel.Props.C13Str", "ZvbiModel.Props.C13Ev"]
    harness = "net_harness"
    harness_link_lib = True
    # the private arrays vbi->cni_cycle[] / cni_announced[] exist only with fixes/C13-cni-cycle-per-carrier.diff applied;
    # the harness prints them in its state dump when they do (the model does the same from the generated flag)
    try:
        harness_extra = (["-DNET_PER_CARRIER"] if "cni_cycle" in open(os.path.join(verif.REPO, "src", "vbi.h"),
                                                                       encoding="latin-1").read() else [])
    except OSError:
        harness_extra = []
    partial_note = ("full for the debounce state machines of all carriers and for any station table; the XDS packet "
                    "assembly (C09), Teletext page assembly (C02) and the cache (C10) are abstracted: an XDS line is a "
                    "complete valid packet, `cached` is the set of pages stored since the last vbi_chsw_reset; "
                    "station_lookup is tied by exhaustive differential test, not proved against a table spec")
    assumptions = ["one event handler; frame times are integers of microseconds below 2^40 and never exactly 25000/50000 us apart "
                   "(the C code compares doubles)",
                   "wss_rep_ct does not overflow (2^31 identical WSS words, F13)",
                   "XDS class 0/1 (programme aspect) packets are not fed, so prog_info[0].aspect changes only through WSS-625 / CPR-1204 words and resets (aspect_source is 0, 1 or 2)"]
    trusted_base = ["Net/XdsStr.lean extents nameSize / callSize / xdsMaxLen and the field list of vbi_program_id: compared with the compiled structs by the `layout` op on every run",
                    "translate/gen_net.py (CNI table rows, event bits, XDS guard shape; rows and look-ups cross-checked against the compiled code)",
                    "translate/gen_netflags.py (shape of the CNI debounce: shared / per-carrier cycle, vbi_chsw_reset call, vbi_event_enable inner test; "
                    "a mixed shape is a translator error, a wrong flag breaks the correspondence on the corpus replays)",
                    "harness/net_harness.c + lean/Driver/Net.lean (correspondence over vbi_decode incl. internal state dumps)",
                    "Codec model of C12 for the VPS / 8/30 field decoders (decodeVpsCni, decodeVpsPdc, decode8301LocalTime, decode8302Pdc) "
                    "and its sender specification enc8301 / enc8302 with the proved round trips (Props/C12.lean), imported by Props/C13Ev.lean"]
    open_statements = []

    def __init__(self):
        self.tbl = Table()

    # ------------------------------------------------------------------ generator
    def gen_cases(self, rng, tier):
        self.enc = nu.Encoder(verif.model_exe())
        quick = tier == "quick"
        plans = []
        n_struct = 1500 if quick else 20000
        for i in range(n_struct):
            k = rng.random()
            if k < 0.30: plans.append(self.plan_single(rng))
            elif k < 0.65: plans.append(self.plan_multi(rng))
            elif k < 0.80: plans.append(self.plan_wss(rng))
            elif k < 0.86: plans.append(self.plan_timeout(rng))
            elif k < 0.94: plans.append(self.plan_gap(rng))
            else: plans.append(self.plan_random_history(rng))
        # complete-value debounce: XDS names / call letters related by prefix, extension, one character; programme ids
        # of VPS and 8/30 format 2 varying one field at a time; every carrier with pairs that differ in exactly one field
        for i in range(260 if quick else 4000):
            plans.append(self.plan_xds_names(rng))
        for i in range(260 if quick else 4000):
            plans.append(self.plan_pid(rng))
        for i in range(240 if quick else 3000):
            plans.append(self.plan_onefield(rng))
        # handler registrations / mask changes / removals in the middle of reception histories, values stable
        for i in range(300 if quick else 4000):
            plans.append(self.plan_handlers(rng))
        # every field from the sender's side: packets 8/30 built from random field values (format 2 with single bit errors),
        # and the aspect source: WSS-625 / CPR-1204 words followed by resets
        for i in range(200 if quick else 3000):
            plans.append(self.plan_sender(rng))
        for i in range(300 if quick else 4000):
            plans.append(self.plan_aspsrc(rng))
        for i in range(80 if quick else 1000):
            plans.append(self.plan_callkept(rng))
        for i in range(500 if quick else 6000):
            plans.append(self.plan_malformed(rng))
        pk = self.enc.run()
        cases = []
        for plan in plans:
            c = []
            for item in plan:
                if isinstance(item, str):
                    c.append(item)
                else:           # ("frame", t, [tokens or ("pk", idx, mutate)])
                    _, t, toks = item
                    out = []
                    sent = []
                    for pos_, tk in enumerate(toks):
                        if isinstance(tk, tuple):
                            b = list(pk[tk[1]])
                            for pos, x in tk[2]:
                                b[pos] ^= x
                            out.append("t:" + hx(b))
                            m = self.enc.meta[tk[1]]
                            # clean = as sent, or (format 2) one flipped bit in a Hamming 8/4 protected byte
                            if all(x == 0 or (m[0] == "8302" and 9 <= pos <= 21 and bin(x).count("1") == 1) for pos, x in tk[2]) \
                                    and sum(1 for pos, x in tk[2] if x) <= 1:
                                sent.append("%d:%s" % (pos_, ":".join(str(int(v)) if not isinstance(v, str) else v for v in m)))
                        else:
                            out.append(tk)
                    if sent:
                        c.append("note tx %d %s" % (t, " ".join(sent)))
                    c.append("frame %d %s" % (t, " ".join(out)) if out else "frame %d" % t)
            cases.append(c)
        # xds_strfu on raw destination arrays (stale bytes behind the terminator, all length relations) and the struct layout
        for i in range(6 if quick else 60):
            cases.append(["layout"] + [self.strfu_op(rng) for _ in range(250)])
        # table and look-up tie
        c = ["tbl %d" % i for i in range(len(self.tbl.rows) + 2)]
        cases.append(c)
        codes = set()
        for r in self.tbl.rows:
            for v in r[3:7]:
                for d in (0, 1, 0x1000, 0xF000):
                    codes.add((v + d) & 0xFFFF); codes.add((v ^ d) & 0xFFFF)
        codes = sorted(codes)
        if quick:
            codes = rng.sample(codes, min(len(codes), 1500)) + [rng.randrange(65536) for _ in range(300)] + [0, 0x1000, 0xDC1, 0xDC2, 0xDC3]
        else:
            codes = list(range(65536))
        c = []
        for v in codes:
            for ty in (1, 2, 3):
                c.append("lookup %d %d" % (ty, v))
        for i in range(0, len(c), 3000):
            cases.append(c[i:i + 3000])
        return cases

    # --- sender side -------------------------------------------------------
    def pick_station(self, rng, carriers, agree=True):
        """never the shared ARD/ZDF code 0x0DC3 on VPS / 8/30-2 (the decoders replace it by 0x0DC1/0x0DC2)"""
        while True:
            st = self.pick_station0(rng, carriers, agree)
            if not any(c in ("vps", "8302") and v == 0x0DC3 for c, v in st.items()):
                return st

    def pick_station0(self, rng, carriers, agree=True):
        """-> dict carrier -> cni ; ids agree (one table row with all codes) or not"""
        col = {"8301": 3, "8302": 4, "vps": 6}
        if agree:
            rows = [r for r in self.tbl.rows if all(r[col[c]] for c in carriers)]
            # the row's code must resolve to the row's id on every carrier (first match wins in the table)
            rows = [r for r in rows if all(self.tbl.lookup(c, r[col[c]])[0] == r[0] for c in carriers)]
            if rows:
                r = rng.choice(rows)
                return {c: r[col[c]] for c in carriers}
        st = {}
        for c in carriers:
            k = rng.random()
            if k < 0.3: st[c] = 0
            elif k < 0.5: st[c] = rng.randrange(1, 0x1000 if c == "vps" else 0x10000)
            else:
                rows = [r for r in self.tbl.rows if r[col[c]]]
                st[c] = rng.choice(rows)[col[c]]
        return st

    def line_for(self, rng, carrier, cni, pil=None, corrupt=False):
        if carrier == "vps":
            fill = [0] * 13
            if cni == 0x0DC3 and rng.random() < 0.5: fill[2] = 0x10
            return "v:" + hx(nu.vps_word(cni & 0xFFF, pil=pil if pil is not None else 0x2B0C0, pcs=1, pty=5, fill=fill))
        if carrier == "8301":
            idx = self.enc.p8301(cni, hh=rng.randrange(24), mm=rng.randrange(60), ss=rng.randrange(60),
                                 lto=rng.randrange(8), neg=rng.randrange(2), designation=rng.randrange(2))
            return ("pk", idx, [(9, 0)] if not corrupt else [(2, 0x03)])     # corrupt: double error in the designation byte
        if carrier == "8302":
            idx = self.enc.p8302(cni, pil=pil if pil is not None else 0x2B0C0, pty=rng.randrange(256), lci=rng.randrange(4),
                                 designation=2 + rng.randrange(2))
            return ("pk", idx, [(9, 0)] if not corrupt else [(12, 0x81)])    # corrupt: uncorrectable double error in a CNI byte
        raise ValueError(carrier)

    def ids(self, st):
        return {c: self.tbl.lookup(c, v) for c, v in st.items()}

    def plan_single(self, rng):
        t = [rng.randrange(1, 10 ** 6)]
        def T():
            t[0] += rng.choice([40000, 33367, 40000, 26000, 49999]); return t[0]
        c = rng.choice(["vps", "8301", "8302", "xds", "xds"])
        mask = nu.MASK_ALL if rng.random() < 0.7 else (nu.EV["TTX_PAGE"] | rng.choice([nu.EV["NETWORK"], nu.EV["NETWORK_ID"], nu.EV["NETWORK"] | nu.EV["NETWORK_ID"]]) | rng.choice([0, nu.EV["PROG_ID"], nu.EV["LOCAL_TIME"]]))
        plan = ["mask %d" % mask]
        pg = [0x100 + rng.randrange(8) * 0x100 + rng.randrange(10) * 16 + rng.randrange(10)]
        if c == "xds":
            names = [bytes(rng.randrange(0x21, 0x7F) for _ in range(rng.randrange(1, 33))) for _ in range(3)]
            A, G, B = names
            has_call = rng.random() < 0.3
            if has_call:
                plan.append(("frame", T(), ["c:" + hx(bytes(rng.randrange(0x41, 0x5B) for _ in range(4)))]))
            def rx(v): return ("frame", T(), ["n:" + hx(v)])
            to_id = None
        else:
            A = self.pick_station(rng, [c], agree=rng.random() < 0.7)[c]
            while True:
                B = self.pick_station(rng, [c], agree=rng.random() < 0.75)[c]
                if B != A and self.tbl.lookup(c, B)[0] != self.tbl.lookup(c, A)[0]: break
            while True:
                G = rng.randrange(0x1000 if c == "vps" else 0x10000) if rng.random() < 0.5 else self.pick_station(rng, [c])[c]
                if G != A and G != 0x0DC3: break
            def rx(v, corrupt=False): return ("frame", T(), [self.line_for(rng, c, v, corrupt=corrupt)])
            to_id = self.tbl.lookup(c, B)[0]
        plan.append("note station A carrier=%s" % c)
        for _ in range(rng.randrange(2, 6)): plan.append(rx(A))
        if c == "xds" or self.tbl.lookup(c, A)[0] != 0:
            plan.append("note established")
        plan.append(("frame", T(), ["p:%d" % pg[0]]))
        plan += ["cached %d" % pg[0], "note quiet-begin kind=stable carrier=%s" % c]
        for _ in range(rng.randrange(1, 6)): plan.append(rx(A))
        plan += ["cached %d" % pg[0], "note quiet-end", "state", "note quiet-begin kind=glitch carrier=%s ids=agree" % c]
        if c != "xds" and c != "vps" and rng.random() < 0.4:
            plan.append(rx(A, corrupt=True))
        else:
            plan.append(rx(G))
        for _ in range(rng.randrange(2, 6)): plan.append(rx(A))
        plan += ["cached %d" % pg[0], "note quiet-end"]
        if c == "xds":
            plan.append("note change-begin to=any")
            if has_call:    # the id is the check sum of the call letters when there are any: a new station has new ones
                plan.append(("frame", T(), ["c:" + hx(bytes(rng.randrange(0x61, 0x7B) for _ in range(4)))]))
        else:
            plan.append("note change-begin to=%d tag=%s" % (to_id, "known" if to_id else "unknown"))
        for _ in range(rng.randrange(2, 6)): plan.append(rx(B))
        plan.append("note change-end")
        if c == "xds" or self.tbl.lookup(c, A)[0] != 0:
            plan.append("note expect-uncached")      # pages stored before any identification stay (start-up behaviour)
        plan += ["cached %d" % pg[0], "state"]
        return plan

    def plan_multi(self, rng):
        t = [rng.randrange(1, 10 ** 6)]
        def T():
            t[0] += rng.choice([40000, 33367, 40000]); return t[0]
        carriers = rng.sample(["vps", "8301", "8302"], rng.choice([2, 2, 3]))
        agree = rng.random() < 0.6
        st = self.pick_station(rng, carriers, agree=agree)
        ids = {c: self.tbl.lookup(c, st[c])[0] for c in carriers}
        agree = len(set(ids.values())) == 1 and None not in ids.values()
        wss = nu.wss_word(rng.randrange(8), rng.randrange(2), rng.randrange(4)) if rng.random() < 0.4 else None
        plan = ["mask %d" % nu.MASK_ALL, "note station A multi carriers=%s ids=%s" % (",".join(carriers), "agree" if agree else "disagree")]
        pg = 0x100 + rng.randrange(8) * 0x100 + rng.randrange(10) * 16 + rng.randrange(10)
        same_frame = rng.random() < 0.5
        def rounds(n, glitch=None, skip=0.15):
            for i in range(n):
                order = list(carriers); rng.shuffle(order)
                toks = []
                for c in order:
                    if rng.random() < skip: continue
                    v = st[c]
                    if glitch and glitch[0] == i and glitch[1] == c: v = glitch[2]
                    toks.append(self.line_for(rng, c, v))
                if wss and rng.random() < 0.8: toks.append("w:" + hx(wss))
                if same_frame:
                    plan.append(("frame", T(), toks))
                else:
                    for tk in toks: plan.append(("frame", T(), [tk]))
        rounds(rng.randrange(3, 6), skip=0.0)
        if agree and ids[carriers[0]] != 0:
            plan.append("note established")
        plan.append(("frame", T(), ["p:%d" % pg]))
        plan += ["cached %d" % pg, "state", "note quiet-begin kind=glitch carriers=%s ids=%s" % (",".join(carriers), "agree" if agree else "disagree")]
        gc = rng.choice(carriers)
        while True:
            gv = rng.randrange(0x1000 if gc == "vps" else 0x10000)
            if gv != st[gc] and gv != 0x0DC3: break
        rounds(rng.randrange(3, 7), glitch=(0, gc, gv))
        plan += ["cached %d" % pg, "note quiet-end", "state"]
        return plan

    def plan_wss(self, rng):
        t = [rng.randrange(1, 10 ** 6)]
        def T():
            t[0] += 40000; return t[0]
        plan = ["mask %d" % rng.choice([nu.MASK_ALL, nu.EV["ASPECT"], nu.EV["ASPECT"] | nu.EV["PROG_INFO"], nu.EV["PROG_INFO"] | nu.EV["NETWORK"]])]
        cur = None
        for _ in range(rng.randrange(2, 6)):
            w = nu.wss_word(rng.randrange(8), rng.randrange(2), rng.randrange(4), rest=rng.randrange(1 << 14))
            if rng.random() < 0.15: w[0] ^= 8           # wrong parity
            for i in range(rng.randrange(1, 8)):
                plan.append(("frame", T(), ["w:" + hx(w)]))
                if rng.random() < 0.15:
                    g = list(w); g[rng.randrange(2)] ^= 1 << rng.randrange(8)
                    plan.append(("frame", T(), ["w:" + hx(g)]))
            if rng.random() < 0.3: plan.append("state")
        return plan

    def plan_sender(self, rng):
        """packets 8/30 format 1 / 2 built by the sender specification from random field values; the `note tx` op that
        precedes each frame tells the oracle what was sent"""
        t = [rng.randrange(1, 10 ** 6)]
        def T():
            t[0] += rng.choice([40000, 33367]); return t[0]
        E = nu.EV
        mask = rng.choice([nu.MASK_ALL, E["PROG_ID"] | E["LOCAL_TIME"], E["PROG_ID"] | E["LOCAL_TIME"] | E["TTX_PAGE"],
                           nu.MASK_ALL & ~E["NETWORK"], E["PROG_ID"] | E["LOCAL_TIME"] | E["NETWORK_ID"], E["LOCAL_TIME"], E["PROG_ID"]])
        plan = ["mask %d" % mask, "note sender"]
        for i in range(rng.randrange(6, 20)):
            if rng.random() < 0.5:
                idx = self.enc.p8302(rng.choice([0, 0xFFFF, 0x0DC3, rng.randrange(65536)]), pil=rng.choice([0, 0xFFFFF, 0x2B0C0, rng.randrange(1 << 20)]),
                                     pty=rng.choice([0, 0xFF, rng.randrange(256)]), lci=rng.randrange(4), luf=rng.randrange(2),
                                     prf=rng.randrange(2), pcs=rng.randrange(4), mi=rng.randrange(2), designation=2 + rng.randrange(2), rng=rng)
                mut = [(9, 0)] if rng.random() < 0.6 else [(rng.randrange(9, 22), 1 << rng.randrange(8))]
            else:
                idx = self.enc.p8301(rng.randrange(65536), mjd=rng.choice([40587, 58754, 99999, 0, rng.randrange(100000)]), hh=rng.randrange(24),
                                     mm=rng.randrange(60), ss=rng.choice([0, 59, 60, rng.randrange(60)]), lto=rng.randrange(32),
                                     neg=rng.randrange(2), designation=rng.randrange(2), rng=rng)
                mut = [(9, 0)]
            plan.append(("frame", T(), [("pk", idx, mut)]))
        return plan

    def plan_callkept(self, rng):
        """XDS call letters next to CNI carriers: the record announced for a station identified by VPS / 8/30 carries the
        call letters received last (the CNI paths write n->name only)"""
        t = [rng.randrange(1, 10 ** 6)]
        def T():
            t[0] += rng.choice([40000, 33367]); return t[0]
        plan = ["mask %d" % nu.MASK_ALL, "note callkept"]
        for _ in range(rng.randrange(2, 5)):
            call = bytes(rng.choice(b"ABCDKQWZ") for _ in range(rng.choice([2, 4, 4])))
            for i in range(rng.randrange(1, 3)):
                plan.append(("frame", T(), ["c:" + hx(call)]))
            c = rng.choice(["vps", "8301", "8302"])
            st = self.pick_station(rng, [c], agree=True)
            for i in range(rng.randrange(2, 4)):
                plan.append(("frame", T(), [self.line_for(rng, c, st[c])]))
            if rng.random() < 0.5: plan.append("state")
        plan.append("state")
        return plan

    def plan_aspsrc(self, rng):
        """which line kind stored the aspect ratio a reset forgets: WSS-625 words (four identical) or CPR-1204 words
        (525-line systems, no debounce), then vbi_channel_switched + one frame"""
        t = [rng.randrange(1, 10 ** 6)]
        def T():
            t[0] += rng.choice([40000, 33367]); return t[0]
        E = nu.EV
        mask = rng.choice([nu.MASK_ALL, E["ASPECT"], E["ASPECT"] | E["PROG_INFO"], E["ASPECT"] | E["NETWORK"] | E["NETWORK_ID"], E["PROG_INFO"]])
        plan = ["mask %d" % mask, "note aspsrc"]
        def wss():
            return "w:" + hx(nu.wss_word(rng.randrange(8), rng.randrange(2), rng.randrange(4)))
        def cpr():
            return "j:" + hx([rng.choice([0, 0x40, 0x80, 0xC0]) | rng.randrange(64), rng.randrange(256), rng.randrange(256)])
        for _ in range(rng.randrange(2, 7)):
            k = rng.random()
            if k < 0.45:
                w = wss()
                for i in range(rng.choice([2, 4, 4, 5])):
                    plan.append(("frame", T(), [w]))
            elif k < 0.9:
                j = cpr()
                for i in range(rng.choice([1, 1, 2])):
                    plan.append(("frame", T(), [j]))
            else:
                plan.append(("frame", T(), []))
            if rng.random() < 0.6:
                plan.append("chsw")
                k = rng.random()
                plan.append(("frame", T(), [] if k < 0.6 else [wss()] if k < 0.8 else [cpr()]))
            if rng.random() < 0.2:
                plan.append("state")
        plan.append("state")
        return plan

    def plan_handlers(self, rng):
        """One station (one carrier, known to the table) and one valid WSS word keep arriving unchanged while the
        handler is registered again with other masks: bits of OTHER event classes added / removed, the second bit of
        a class added while the first is enabled (ASPECT <-> PROG_INFO, NETWORK <-> NETWORK_ID), everything removed
        and registered again.  Oracle: what a handler has been told is not told again while the value keeps arriving,
        unless its own class was enabled from scratch (both bits of the class off before) or the decoder was reset."""
        t = [rng.randrange(1, 10 ** 6)]
        def T():
            t[0] += 40000; return t[0]
        E = nu.EV
        allbits = [E["TTX_PAGE"], E["CAPTION"], E["NETWORK"], E["ASPECT"], E["PROG_INFO"], E["NETWORK_ID"], E["LOCAL_TIME"], E["PROG_ID"]]
        subj = rng.choice(["aspect", "aspect", "network", "both"])
        def subset(p):
            m = 0
            for b in allbits:
                if rng.random() < p: m |= b
            return m
        m = subset(0.3)
        if subj in ("aspect", "both"):
            m &= ~(E["ASPECT"] | E["PROG_INFO"])
            m |= rng.choice([E["ASPECT"], E["ASPECT"], E["PROG_INFO"], E["ASPECT"] | E["PROG_INFO"]])
        if subj in ("network", "both"):
            m &= ~(E["NETWORK"] | E["NETWORK_ID"])
            m |= rng.choice([E["NETWORK"], E["NETWORK_ID"], E["NETWORK"] | E["NETWORK_ID"]])
        c = rng.choice(["vps", "8301", "8302"])
        while True:
            A = self.pick_station(rng, [c], agree=True)[c]
            if self.tbl.lookup(c, A)[0] != 0: break
        w = nu.wss_word(rng.randrange(8), rng.randrange(2), rng.randrange(4))
        plan = ["mask %d" % m, "note handlers subject=%s carrier=%s" % (subj, c)]
        def frames(n):
            for _ in range(n):
                toks = []
                if subj != "aspect" or rng.random() < 0.5: toks.append(self.line_for(rng, c, A))
                if subj != "network" or rng.random() < 0.5: toks.append("w:" + hx(w))
                if len(toks) == 2 and rng.random() < 0.5:
                    for tk in toks: plan.append(("frame", T(), [tk]))
                else:
                    plan.append(("frame", T(), toks))
        frames(rng.randrange(5, 9))
        for _ in range(rng.randrange(1, 5)):
            k = rng.random()
            if k < 0.30:      # the other bit of a class whose first bit is enabled
                cand = []
                for a, b in ((E["ASPECT"], E["PROG_INFO"]), (E["NETWORK"], E["NETWORK_ID"])):
                    if m & a and not m & b: cand.append(b)
                    if m & b and not m & a: cand.append(a)
                m2 = m | rng.choice(cand) if cand else m | rng.choice(allbits)
            elif k < 0.55:    # bits of other classes
                m2 = m | rng.choice(allbits) | (rng.choice(allbits) if rng.random() < 0.5 else 0)
            elif k < 0.75:    # remove something
                on = [b for b in allbits if m & b]
                m2 = m & ~rng.choice(on) if on else m
            elif k < 0.85:    # all at once
                m2 = nu.MASK_ALL
            elif k < 0.93:    # remove the handler, a few frames later register it again
                plan.append("mask 0")
                frames(rng.randrange(1, 4))
                m2 = m if rng.random() < 0.5 else subset(0.5)
            else:
                m2 = subset(0.5)
            m = m2
            plan.append("mask %d" % m)
            if rng.random() < 0.3: plan.append("state")
            frames(rng.randrange(2, 7))
        plan.append("state")
        return plan

    def plan_timeout(self, rng):
        t = [rng.randrange(1, 10 ** 6)]
        def T():
            t[0] += 40000; return t[0]
        c = rng.choice(["vps", "8301", "8302"])
        while True:
            A = self.pick_station(rng, [c])[c]
            if self.tbl.lookup(c, A)[0]: break
        pg = 0x100 + rng.randrange(8) * 0x100 + rng.randrange(10) * 16 + rng.randrange(10)
        plan = ["mask %d" % nu.MASK_ALL, "note station A carrier=%s" % c]
        for _ in range(3): plan.append(("frame", T(), [self.line_for(rng, c, A)]))
        if rng.random() < 0.5:
            w = nu.wss_word(rng.randrange(8))
            for _ in range(4): plan.append(("frame", T(), ["w:" + hx(w)]))
        plan += ["note established", ("frame", T(), ["p:%d" % pg]), "cached %d" % pg]
        if rng.random() < 0.5:
            plan.append("chsw"); n = 1
        else:
            t[0] += rng.choice([200000, 1000000, 60000]); plan.append(("frame", t[0], [])); n = 40
        plan.append("note change-begin to=0 tag=reset")
        for _ in range(n): plan.append(("frame", T(), []))
        plan += ["note change-end", "note expect-uncached", "cached %d" % pg, "state"]
        for _ in range(3): plan.append(("frame", T(), [self.line_for(rng, c, A)]))
        plan.append("state")
        return plan

    def plan_gap(self, rng):
        """time-stamp gap (arms the 40-frame countdown), then another station identified within the 40 frames,
        a page cached for it, then 45..70 quiet regular frames: one NETWORK event, no second reset, page kept.
        Variant without an identified old station: the countdown is expected to fire (design), no window."""
        t = [rng.randrange(1, 10 ** 6)]
        def T():
            t[0] += rng.choice([40000, 33367, 40000]); return t[0]
        def page():
            return 0x100 + rng.randrange(8) * 0x100 + rng.randrange(10) * 16 + rng.randrange(10)
        c = rng.choice(["vps", "8301", "8302"])
        identified = rng.random() < 0.75
        while True:
            A = self.pick_station(rng, [c])[c]
            B = self.pick_station(rng, [c])[c]
            ia, ib = self.tbl.lookup(c, A)[0], self.tbl.lookup(c, B)[0]
            if ia and ib and ia != ib and A != B: break
        pa, pb = page(), 0
        while True:
            pb = page()
            if pb != pa: break
        plan = ["mask %d" % nu.MASK_ALL]
        if identified:
            plan.append("note station A carrier=%s" % c)
            for _ in range(rng.randrange(2, 5)): plan.append(("frame", T(), [self.line_for(rng, c, A)]))
            plan += ["note established", ("frame", T(), ["p:%d" % pa]), "cached %d" % pa]
        else:
            for _ in range(rng.randrange(1, 4)): plan.append(("frame", T(), []))
        if identified:
            plan.append("note change-begin to=%d tag=gap" % ib)
        else:
            plan.append("note gap-unidentified")
        t[0] += rng.choice([60000, 100000, 200000, 1000000, 5000000, 51000])
        plan.append(("frame", t[0], rng.choice([[], [self.line_for(rng, c, B)]])))
        for _ in range(rng.randrange(0, 8)): plan.append(("frame", T(), []))
        for _ in range(rng.randrange(2, 4)): plan.append(("frame", T(), [self.line_for(rng, c, B)]))
        plan += [("frame", T(), ["p:%d" % pb]), "cached %d" % pb, "state"]
        w = nu.wss_word(rng.randrange(8)) if rng.random() < 0.3 else None
        for _ in range(rng.randrange(45, 70)):
            k = rng.random()
            toks = [self.line_for(rng, c, B)] if k < 0.5 else []
            if w and rng.random() < 0.5: toks.append("w:" + hx(w))
            plan.append(("frame", T(), toks))
        if identified:
            plan += ["note change-end", "note expect-cached", "cached %d" % pb, "note expect-uncached", "cached %d" % pa]
        else:
            plan += ["cached %d" % pb]
        plan.append("state")
        return plan

    def plan_random_history(self, rng):
        """valid lines of a few stations in random order with regular timing: O1-O3 apply, no windows"""
        t = [rng.randrange(1, 10 ** 6)]
        def T():
            t[0] += rng.choice([40000, 33367]); return t[0]
        plan = ["mask %d" % nu.MASK_ALL]
        vals = {c: [self.pick_station(rng, [c], agree=rng.random() < 0.6)[c] for _ in range(2)] + [0] for c in ("vps", "8301", "8302")}
        if rng.random() < 0.3:      # the shared ARD/ZDF code: the decoders must split it by the PIL bit
            vals["vps"][0] = 0x0DC3; vals["8302"][0] = 0x0DC3
        names = [bytes(rng.randrange(0x20, 0x7F) for _ in range(rng.randrange(1, 9))) for _ in range(2)]
        words = [nu.wss_word(rng.randrange(8), rng.randrange(2), rng.randrange(4)) for _ in range(2)]
        fam = rng.choice(["ebu", "ebu", "xds"])
        for _ in range(rng.randrange(10, 60)):
            k = rng.random()
            if fam == "xds": k = max(k, 0.55)
            elif 0.55 <= k < 0.75: k = 0.8
            if k < 0.55:
                c = rng.choice(["vps", "8301", "8302"])
                tk = self.line_for(rng, c, rng.choice(vals[c]), pil=rng.choice([1, 2, 0x40001, 0x40002]))
            elif k < 0.7: tk = "n:" + hx(rng.choice(names))
            elif k < 0.75: tk = "c:" + hx(rng.choice(names)[:4])
            elif k < 0.93: tk = "w:" + hx(rng.choice(words))
            elif k < 0.96: tk = "j:" + hx([rng.choice([0, 0x40, 0x80, 0xC0, rng.randrange(256)]), rng.randrange(256), 0])
            else: tk = "p:%d" % (0x100 + rng.randrange(10))
            plan.append(("frame", T(), [tk]))
            if rng.random() < 0.1: plan.append("cached %d" % (0x100 + rng.randrange(10)))
            if rng.random() < 0.05: plan.append("state")
        return plan

    # --- complete-value debounce -------------------------------------------------------------------
    XDS_ALPHABET = [0x41, 0x41, 0x42, 0x42, 0x43, 0x20]

    def xds_text(self, rng, n):
        """n bytes the harness can put into an XDS packet (even offsets 0x20..0x7F, odd offsets 0x01..0x7F)"""
        b = [rng.choice(self.XDS_ALPHABET) for _ in range(n)]
        if n and rng.random() < 0.1:
            i = rng.randrange(n)
            b[i] = rng.randrange(0x01, 0x20) if i & 1 else 0x20        # a control code inside reads as a blank
        return b

    def xds_relative(self, rng, cur, maxlen=32):
        """a text related to `cur`: the same, a proper prefix, an extension, one character changed, blanks in front,
        a different text of the same length, or unrelated"""
        k = rng.random()
        n = len(cur)
        if k < 0.30: new = list(cur)
        elif k < 0.45 and n > 1: new = list(cur[:rng.randrange(1, n)])
        elif k < 0.60 and n < maxlen: new = list(cur) + self.xds_text(rng, rng.randrange(1, min(4, maxlen - n) + 1))
        elif k < 0.72 and n:
            new = list(cur); i = rng.randrange(n); new[i] = new[i] ^ rng.choice([1, 2, 3]) if new[i] > 0x40 else 0x41
        elif k < 0.78 and n < maxlen:
            new = [0x20] * rng.randrange(1, min(3, maxlen - n) + 1) + list(cur)   # same text after the leading blanks are dropped
        elif k < 0.84 and n: new = self.xds_text(rng, n)
        elif k < 0.88: new = [0x20] * rng.randrange(1, 5)                       # blank: an empty name
        else: new = self.xds_text(rng, rng.choice([1, 2, 3, 4, 5, 8, 15, 16, 31, 32, rng.randrange(1, maxlen + 1)]))
        if not new: new = [0x41]
        new = new[:maxlen]
        for i in range(len(new)):          # keep it transmittable
            lo = 0x01 if i & 1 else 0x20
            if new[i] < lo: new[i] = 0x20
        return new

    def plan_xds_names(self, rng):
        """XDS-only history: network names (and call letters) each related to its predecessor"""
        t = [rng.randrange(1, 10 ** 6)]
        def T():
            t[0] += rng.choice([40000, 33367, 40000]); return t[0]
        mask = rng.choice([nu.MASK_ALL, nu.MASK_ALL, nu.EV["NETWORK_ID"], nu.EV["NETWORK"] | nu.EV["NETWORK_ID"] | nu.EV["TTX_PAGE"],
                           nu.EV["NETWORK"] | nu.EV["TTX_PAGE"]])
        plan = ["mask %d" % mask, "note xds-names"]
        name = self.xds_text(rng, rng.choice([1, 2, 3, 4, 4, 5, 8, 16, 31, 32, rng.randrange(1, 33)]))
        call = self.xds_text(rng, rng.choice([3, 4, 4, 5]))
        with_call = rng.random() < 0.4
        pg = 0x100 + rng.randrange(8) * 0x100 + rng.randrange(10) * 16 + rng.randrange(10)
        for i in range(rng.randrange(6, 30)):
            k = rng.random()
            if with_call and k < 0.2:
                call = self.xds_relative(rng, call, 32)
                plan.append(("frame", T(), ["c:" + hx(call)]))
            elif k < 0.25:
                plan.append(("frame", T(), rng.choice([[], ["p:%d" % pg], ["w:" + hx(nu.wss_word(rng.randrange(8)))]])))
            else:
                name = self.xds_relative(rng, name)
                plan.append(("frame", T(), ["n:" + hx(name)]))
            if rng.random() < 0.08: plan.append("state")
            if rng.random() < 0.05: plan.append("cached %d" % pg)
        plan.append("state")
        return plan

    def pid_step(self, rng, cur, stations, carrier):
        """-> label derived from `cur` by changing exactly one transmitted field (or none)"""
        new = dict(cur)
        k = rng.random()
        if k < 0.33:
            new["cni"] = rng.choice([c for c in stations if c != cur["cni"]] or stations)
        elif k < 0.60:
            pass
        else:
            fields = ["pil", "pcs", "pty", "pty"] if carrier == "vps" else ["pil", "pcs", "pty", "luf", "prf", "mi", "lci"]
            f = rng.choice(fields)
            if f == "pil": new["pil"] ^= 1 << rng.randrange(20)
            elif f == "pcs": new["pcs"] = (cur["pcs"] + rng.randrange(1, 4)) & 3
            elif f == "pty": new["pty"] ^= 1 << rng.randrange(8)
            elif f == "lci": new["lci"] = (cur["lci"] + rng.randrange(1, 4)) & 3
            else: new[f] ^= 1
        return new

    def pid_line(self, rng, carrier, lab, fill):
        if carrier == "vps":
            return "v:" + hx(nu.vps_word(lab["cni"] & 0xFFF, pil=lab["pil"], pcs=lab["pcs"], pty=lab["pty"], fill=fill))
        idx = self.enc.p8302(lab["cni"], pil=lab["pil"], pty=lab["pty"], lci=lab["lci"], luf=lab["luf"], prf=lab["prf"],
                             pcs=lab["pcs"], mi=lab["mi"], designation=lab["des"])
        return ("pk", idx, [(9, 0)])

    def plan_pid(self, rng):
        """programme ids: successive VPS lines / 8/30 format 2 packets that differ in exactly one field (or none),
        PROG_ID handler registered; the CNI changes often because libzvbi looks at the VPS label when it
        announces the station"""
        t = [rng.randrange(1, 10 ** 6)]
        def T():
            t[0] += rng.choice([40000, 33367, 40000]); return t[0]
        fam = rng.choice(["vps", "vps", "vps", "8302", "mixed"])
        mask = rng.choice([nu.MASK_ALL, nu.MASK_ALL, nu.EV["PROG_ID"] | nu.EV["NETWORK_ID"], nu.EV["PROG_ID"] | nu.EV["NETWORK"] | nu.EV["NETWORK_ID"],
                           nu.EV["PROG_ID"], nu.EV["PROG_ID"] | nu.EV["TTX_PAGE"]])
        plan = ["mask %d" % mask, "note pid family=%s" % fam]
        st, cur = {}, {}
        for c in ("vps", "8302"):
            st[c] = []
            while len(st[c]) < 3:
                v = self.pick_station(rng, [c], agree=rng.random() < 0.8)[c]
                if v and v != 0x0DC3 and v not in st[c]: st[c].append(v)
            cur[c] = {"cni": st[c][0], "pil": rng.choice([0x2B0C0, rng.randrange(1 << 20), 0xFFFFF, 0x07FFF]), "pcs": rng.randrange(4),
                      "pty": rng.choice([0, 0xFF, rng.randrange(256)]), "luf": rng.randrange(2), "prf": rng.randrange(2),
                      "mi": rng.randrange(2), "lci": rng.randrange(4), "des": 2 + rng.randrange(2)}
        fill = [rng.randrange(256) for _ in range(13)] if rng.random() < 0.5 else [0] * 13
        fill[2] &= 0x2F          # bit 0x10 of byte 2 only matters for the shared ARD/ZDF code
        for i in range(rng.randrange(8, 32)):
            c = fam if fam != "mixed" else rng.choice(["vps", "8302"])
            if i: cur[c] = self.pid_step(rng, cur[c], st[c], c)
            plan.append(("frame", T(), [self.pid_line(rng, c, cur[c], fill)]))
            if rng.random() < 0.06: plan.append("state")
        plan.append("state")
        return plan

    def plan_onefield(self, rng):
        """one carrier; every reception repeats its predecessor, differs from it in exactly one bit / character of the
        debounced value (everything else in the line constant), or goes back to the station's value"""
        t = [rng.randrange(1, 10 ** 6)]
        def T():
            t[0] += rng.choice([40000, 33367, 40000]); return t[0]
        c = rng.choice(["vps", "8301", "8302", "wss", "xdsname", "xdscall"])
        plan = ["mask %d" % nu.MASK_ALL, "note onefield carrier=%s" % c]
        if c in ("vps", "8301", "8302"):
            bits = 12 if c == "vps" else 16
            while True:
                A = self.pick_station(rng, [c], agree=rng.random() < 0.8)[c]
                if A != 0x0DC3: break
            lab = {"pil": rng.randrange(1 << 20), "pcs": rng.randrange(4), "pty": rng.randrange(256), "luf": 0, "prf": 0, "mi": 1,
                   "lci": rng.randrange(4), "des": 2 + rng.randrange(2)}
            tm = dict(hh=rng.randrange(24), mm=rng.randrange(60), ss=rng.randrange(60), lto=rng.randrange(8), neg=rng.randrange(2),
                      designation=rng.randrange(2))
            def line(v):
                if c == "vps": return self.pid_line(rng, "vps", dict(lab, cni=v), [0] * 13)
                if c == "8302": return self.pid_line(rng, "8302", dict(lab, cni=v), None)
                return ("pk", self.enc.p8301(v, **tm), [(9, 0)])
            v = A
            for i in range(rng.randrange(8, 30)):
                k = rng.random()
                if k < 0.5: pass
                elif k < 0.8:
                    w = v ^ (1 << rng.randrange(bits))
                    if w != 0x0DC3: v = w
                else: v = A
                plan.append(("frame", T(), [line(v)]))
        elif c == "wss":
            w = nu.wss_word(rng.randrange(8), rng.randrange(2), rng.randrange(4), rest=rng.randrange(1 << 14))
            A = list(w)
            for i in range(rng.randrange(10, 40)):
                k = rng.random()
                if k < 0.7: pass
                elif k < 0.9: w = list(w); w[rng.randrange(2)] ^= 1 << rng.randrange(8)
                else: w = list(A)
                plan.append(("frame", T(), ["w:" + hx(w)]))
        else:
            name = self.xds_text(rng, rng.choice([1, 2, 4, 5, 8, 31, 32]))
            other = self.xds_text(rng, 4)
            if c == "xdscall":       # call letters have no debounce of their own: they take part through the name's
                plan.append(("frame", T(), ["n:" + hx(other)]))
            for i in range(rng.randrange(8, 30)):
                k = rng.random()
                if k < 0.5: pass
                else:
                    j = rng.random()
                    if j < 0.4 and name:
                        name = list(name); i2 = rng.randrange(len(name)); name[i2] = 0x41 + ((name[i2] + 1) % 3)
                    elif j < 0.7 and len(name) > 1: name = name[:-1]
                    elif len(name) < 32: name = name + [rng.choice([0x41, 0x42, 0x43])]
                plan.append(("frame", T(), [("n:" if c == "xdsname" else "c:") + hx(name)]))
                if c == "xdscall" and rng.random() < 0.5:
                    plan.append(("frame", T(), ["n:" + hx(other)]))
        plan.append("state")
        return plan

    def strfu_op(self, rng):
        """`strfu <array> <received bytes>`: array = stored text, NUL, stale bytes; received text related to the stored one"""
        size = rng.choice([64, 64, 40, 40, 33, rng.randrange(1, 12)])
        stored = self.xds_text(rng, rng.randrange(0, min(size, 33)))
        stored = [max(0x20, x) for x in stored]
        if rng.random() < 0.05 and stored: stored[rng.randrange(len(stored))] = rng.choice([0x80, 0xC9, 0xFF])   # a Latin-1 station name from the CNI table
        arr = stored + [0]
        while len(arr) < size:
            arr.append(rng.choice([0, 0, 0x41, 0x42, 0x43, 0x20, rng.randrange(256)]))
        arr = arr[:size]
        if rng.random() < 0.03: arr = [rng.choice([0x41, 0x42]) for _ in range(size)]     # no terminator at all
        src = self.xds_relative(rng, stored or [0x41]) if rng.random() < 0.9 else []
        k = rng.random()
        if k < 0.08: src = [rng.choice([0x00, 0x01, 0x1F, 0x20])] * rng.randrange(0, 4) + src
        elif k < 0.12: src = [rng.randrange(256) for _ in range(rng.randrange(0, 33))]          # 8-bit bytes: correspondence only
        src = src[:32]
        return "strfu %s %s" % (hx(arr), hx(src))

    def plan_malformed(self, rng):
        t = [rng.randrange(0, 10 ** 6)]
        plan = []
        for _ in range(rng.randrange(5, 60)):
            k = rng.random()
            dt = rng.choice([40000, 40000, 33367, 25000, 25001, 24999, 50000, 50001, 49999, 0, 1, 10 ** 6, -40000, rng.randrange(100000)])
            t[0] = max(0, t[0] + dt)
            if k < 0.08: plan.append("mask %d" % rng.choice([0, nu.MASK_ALL, rng.randrange(0x1000), rng.choice(list(nu.EV.values())), 0x10, 0x08 | 0x02]))
            elif k < 0.12: plan.append(rng.choice(["chsw", "state", "cached %d" % rng.randrange(0x900), "bogus", "cached", "frame", "frame x", "vps 00 1",
                                                   "mask", "mask -1", "wss 0001", "frame %d q:00" % t[0], "frame %d v:" % t[0], "page 0x1AB %d" % t[0],
                                                   "xdsname - %d" % t[0], "xdsname 1f41 %d" % t[0], "xdsname 4180 %d" % t[0], "frame %d" % (1 << 40)]))
            else:
                toks = []
                for _ in range(rng.choice([1, 1, 1, 2, 3])):
                    j = rng.random()
                    if j < 0.3:
                        toks.append("v:" + hx([rng.choice([0, 0xFF, rng.randrange(256)]) for _ in range(13)]))
                    elif j < 0.6:
                        b = [rng.randrange(256) for _ in range(42)]
                        if rng.random() < 0.9:
                            b[0] = nu.HAM8[rng.choice([0, 0, 0, 8, rng.randrange(16)])]; b[1] = nu.HAM8[15]
                            b[2] = nu.HAM8[rng.randrange(16)]
                        if rng.random() < 0.7:
                            for i in range(3, 22): b[i] = nu.HAM8[rng.randrange(16)]
                        if rng.random() < 0.3:
                            b[rng.randrange(22)] ^= 1 << rng.randrange(8)
                        toks.append("t:" + hx(b))
                    elif j < 0.75:
                        toks.append("w:" + hx([rng.choice([0, 0x08, 0x0B, rng.randrange(256)]), rng.choice([0, rng.randrange(256)])]))
                    elif j < 0.9:
                        n = rng.randrange(1, 34)
                        bs = [rng.randrange(0x20, 0x80) if i % 2 == 0 else rng.randrange(1, 0x80) for i in range(n)]
                        if rng.random() < 0.3: bs = bs[:3]
                        toks.append(rng.choice("nc") + ":" + hx(bs))
                    else:
                        toks.append("p:%d" % rng.choice([0x100, 0x199, 0x899, 0x8FF, 0x1A0, rng.randrange(0x100, 0x900)]))
                plan.append(("frame", t[0], toks))
            if rng.random() < 0.1: plan.append("state")
        return plan

    # ------------------------------------------------------------------ classification
    def classify(self, case):
        for l in case[:3]:
            if l.startswith("note station"):
                return "station:" + (l.split()[3] if len(l.split()) > 3 else "?").split("=")[0] + ("-multi" if "multi" in l else "")
        if case and case[0].startswith(("tbl", "lookup", "layout", "strfu")):
            return case[0].split()[0]
        if len(case) > 1 and case[1].startswith("note ") and case[1].split()[1] in ("xds-names", "pid", "onefield", "handlers", "sender", "aspsrc", "callkept"):
            return case[1].split()[1]
        if not self.regular(case):
            return "malformed"
        return "history"

    def regular(self, case):
        """mask set once at the start, frames 25001..49999 us apart, nothing refused"""
        if not case or not case[0].startswith("mask "):
            return False
        last = None
        for i, l in enumerate(case):
            w = l.split()
            if w[0] == "mask" and i > 0 and not (len(case) > 1 and case[1].startswith("note handlers")):
                return False
            ft = frame_tokens(l)
            if ft is not None:
                t = ft[0]
                if last is not None and not (25000 < t - last < 50000) and not any(("tag=reset" in x or "tag=gap" in x or "gap-unidentified" in x) for x in case):
                    return False
                last = t
            elif w[0] not in ("mask", "note", "cached", "state", "chsw"):
                return False
        return True

    # ------------------------------------------------------------------ oracle
    def oracle(self, case, out):
        if len(out) != len(case):
            return "output count %d != ops %d" % (len(out), len(case))
        if case and case[0].split()[0] in ("tbl", "lookup"):
            return self.oracle_table(case, out)
        if case and case[0].split()[0] in ("layout", "strfu"):
            return self.oracle_strfu(case, out)
        if not self.regular(case):
            return None
        if any(o.startswith("rej") for o in out):
            return None
        try:
            mask = int(case[0].split()[1], 0)
        except (ValueError, IndexError):
            return None
        has_net, has_nid = bool(mask & nu.EV["NETWORK"]), bool(mask & nu.EV["NETWORK_ID"])
        prev = {}              # carrier -> last received value (since the decoder last forgot everything)
        hist_wss = []          # WSS words since the last reset
        dirty = False          # some reception deviated from its predecessor since the last NETWORK_ID
        dirty_c = {}           # carrier -> its own value deviated since that carrier's value was last announced
        last_aspect = None     # aspect last announced (delivered as ASPECT) since the last reset
        known_aspect = None    # aspect the decoder must know by now (four identical valid words), delivered or not
        nuid = 0               # station currently identified, as announced
        win = None             # open quiet / change window
        established = False
        expect_uncached = False
        pending_reset = False  # vbi_channel_switched called: the next frame resets
        seen_vps_pid = set()   # programme ids VPS lines carried so far
        prev_vps_pid = None    # complete programme id of the previous VPS reception
        other_cycle = False    # a carrier other than VPS took part in the shared debounce (8/30 CNI, XDS): VPS PROG_ID judged by "seen before" only
        ebu_seen = False       # some VPS / 8/30 CNI reception so far (XDS liveness is judged on XDS-only histories)
        xcall = b""            # call letters as last received since the decoder forgot everything
        xrun = 0               # equal XDS names received in a row (since the last call-letter change / reset)
        xpending = False       # an XDS name or the call letters changed since the last NETWORK_ID
        expect_cached = False
        gap_seen = False       # a time-stamp gap armed the countdown: a time-out reset may follow
        last_t = None
        nops = 0
        src_poss = set()       # line kinds (1 = WSS-625, 2 = CPR-1204) that may have stored the aspect ratio since the last reset
        src_sure = None        # ... the one that certainly did
        pending_tx = None      # (t, [(line position, what the sender put into the packet)]) for the next frame
        aspsrc_case = len(case) > 1 and case[1].startswith("note aspsrc")
        callkept_case = len(case) > 1 and case[1].startswith("note callkept")
        for op, o in zip(case, out):
            w = op.split()
            nops += 1
            if w[0] == "note":
                if w[1] == "station":
                    established = False
                elif w[1] == "established":
                    if not established:
                        return "liveness: station received repeatedly but never announced"
                elif w[1] in ("quiet-begin", "change-begin"):
                    win = {"kind": w[1], "args": dict(a.split("=") for a in w[2:] if "=" in a), "nets": []}
                elif w[1] in ("quiet-end", "change-end"):
                    if win and win["kind"] == "change-begin":
                        to = win["args"].get("to")
                        tag = win["args"].get("tag", "known")
                        nets = win["nets"]
                        if has_net and len(nets) != 1:
                            return "change-%s-%s: %d NETWORK events for one station change" % (tag, "none" if not nets else "many", len(nets))
                        if has_net and to != "any" and nets[0][0] != to:
                            return "change-nuid: NETWORK event carries nuid %s, station is %s" % (nets[0][0], to)
                    win = None
                elif w[1] == "expect-uncached":
                    expect_uncached = True
                elif w[1] == "expect-cached":
                    expect_cached = True
                elif w[1] == "tx":
                    try:
                        pending_tx = (int(w[2]), [(int(x.split(":")[0]), tuple([x.split(":")[1]] + [int(y) for y in x.split(":")[2:]]))
                                                  for x in w[3:]])
                    except (ValueError, IndexError):
                        pending_tx = None
                continue
            if w[0] == "cached":
                if win and win["kind"] == "quiet-begin" and o != "ok 1":
                    return self.quiet_what(win, "cached page lost")
                if expect_uncached and o != "ok 0":
                    return "change-flush: page of the old station still cached after the station change"
                if expect_cached and o != "ok 1":
                    return "change-newcache: page cached for the new station was dropped although the station did not change again"
                expect_uncached = expect_cached = False
                continue
            if w[0] == "chsw":
                pending_reset = True
                continue
            if w[0] == "mask" and nops > 1:
                # the handler is registered again with another mask (vbi_event_handler_register -> vbi_event_enable).
                # Documented in the source ("newly enabled, start from defaults"): a class that was completely off
                # starts from scratch; enabling a bit of ANOTHER class, or the second bit next to an enabled ASPECT /
                # PROG_INFO, must not make the decoder tell what it has told already.  NETWORK and NETWORK_ID are
                # coupled (every NETWORK event is accompanied by NETWORK_ID): enabling either restarts identification.
                try:
                    new = int(w[1], 0)
                except (ValueError, IndexError):
                    return None
                act = new & ~mask
                if act & (nu.EV["NETWORK"] | nu.EV["NETWORK_ID"]):
                    prev, dirty, nuid, dirty_c, established = {}, False, 0, {}, False
                    xcall, xrun, xpending = b"", 0, False
                if act & (nu.EV["ASPECT"] | nu.EV["PROG_INFO"]) and not mask & (nu.EV["ASPECT"] | nu.EV["PROG_INFO"]):
                    last_aspect = known_aspect = None
                    src_poss, src_sure = set(), None
                if act & nu.EV["PROG_ID"]:
                    other_cycle, prev_vps_pid = True, None
                mask = new
                has_net, has_nid = bool(mask & nu.EV["NETWORK"]), bool(mask & nu.EV["NETWORK_ID"])
                continue
            ft = frame_tokens(op)
            if ft is None:
                continue
            evs = nu.parse_events(o)
            if evs is None:
                continue
            t, toks = ft
            if last_t is not None and not (25000 < t - last_t < 50000):
                gap_seen = True
            last_t = t
            rxs = [Rx(tk, mask) for tk in toks]
            # --- sender side: a clean packet 8/30 makes the decoder report exactly the values the station put in ---------
            tx, pending_tx = (pending_tx if pending_tx and pending_tx[0] == t else None), None
            if tx and all(pos < len(toks) and toks[pos].startswith("t:") for pos, _ in tx[1]):
                want = {"pid": [], "lt": []}
                for pos, m in tx[1]:
                    tg, f = nu.sent_events(m)
                    want[tg].append(f)
                got = {"pid": [[int(x) for x in f if x != "dirty"] for tg, f in evs if tg == "pid" and len(f) > 1 and f[1] == "3"],
                       "lt": [[int(x) for x in f] for tg, f in evs if tg == "lt"]}
                complete = len(tx[1]) == len([1 for tk in toks if tk.startswith("t:")])
                for tg, bit, name in (("pid", nu.EV["PROG_ID"], "sender-pid: PROG_ID"), ("lt", nu.EV["LOCAL_TIME"], "sender-time: LOCAL_TIME")):
                    if not mask & bit:
                        continue
                    rest = list(got[tg])
                    for f in want[tg]:
                        if f not in rest:
                            return "%s %s expected for the packet sent, events are %s" % (name, f, got[tg])
                        rest.remove(f)
                    if complete and rest:
                        return "%s %s reported, the packets of the frame carry %s" % (name, rest[0], want[tg])
            # a time-out reset at the head of the frame: NETWORK with an empty record as the very first event
            head_nets = []
            if evs and evs[0][0] == "net" and all(x in ("0", "-") for x in evs[0][1]) and (gap_seen or pending_reset or not toks) \
                    and len([1 for (tg, f) in evs if tg == "net" and all(x in ("0", "-") for x in f[:6])]) < 2:
                head_nets = [evs[0][1]]
                evs = evs[1:]
            nets = [f for (tg, f) in evs if tg == "net"]
            nids = [f for (tg, f) in evs if tg == "nid"]
            if callkept_case:
                for r in rxs:
                    if r.kind == "xdscall": xcall = r.value
                for f in nets + nids:
                    if f[2] != hx(xcall):
                        return "faithful-call: announced record carries call letters %s, received last were %s" % (f[2], hx(xcall))
            asps = [f for (tg, f) in evs if tg == "asp"]
            # --- resets at the head of the frame (countdown / vbi_channel_switched) ----------------
            head_reset = False
            if pending_reset or head_nets:
                head_reset = True
            if not toks and nets:
                return "faithful: NETWORK event %s from a frame without lines" % ":".join(nets[0])
            if head_nets and nuid == 0 and has_net:
                return "stable: NETWORK event from a reset although no station was identified"
            if head_nets and win is not None:
                win["nets"] += head_nets
                if win["kind"] == "quiet-begin":
                    return self.quiet_what(win, "NETWORK event (time-out reset)")
            src_before, sure_before = set(src_poss), src_sure
            if head_reset:
                src_poss, src_sure = set(), None
                prev, hist_wss, dirty, last_aspect, nuid, pending_reset = {}, [], False, None, 0, False
                dirty_c, known_aspect = {}, None
                gap_seen = False
                xcall, xrun, xpending = b"", 0, False
            # --- receptions of this frame ------------------------------------------------------------
            cands = []         # (rx, repeated?)
            frame_dirty = dirty
            first_rep, dev_after = None, False   # position of the first line that may announce; deviation after it
            wss_rx, wss_pos, last_id_pos = None, None, None
            xname_rx = None
            cpr_rx = None
            for pos, r in enumerate(rxs):
                if r.kind == "vps":
                    r.extra["prev_pid"] = prev_vps_pid
                    prev_vps_pid = r.extra["pid"]
                if r.kind in ("8301", "8302", "xdsname", "xdscall"):
                    other_cycle = True
                if r.kind in ("vps", "8301", "8302"):
                    ebu_seen = True
                    p = prev.get(r.kind)
                    rep = (p == r.value) or (p is None and r.value == 0)
                    if not rep:
                        frame_dirty = True
                        dirty_c[r.kind] = True
                        if first_rep is not None: dev_after = True
                    elif first_rep is None: first_rep = pos
                    cands.append((r, rep)); prev[r.kind] = r.value; last_id_pos = pos
                elif r.kind == "xdsname":
                    rep = prev.get("xdsname", b"") == r.value
                    if not rep:
                        frame_dirty = True
                        xrun, xpending = 1, True
                        if first_rep is not None: dev_after = True
                    else:
                        xrun += 1
                        if first_rep is None: first_rep = pos
                    r.extra["call"] = xcall
                    cands.append((r, rep)); prev["xdsname"] = r.value; last_id_pos = pos
                    xname_rx = r
                elif r.kind == "xdscall":
                    if prev.get("xdscall", b"") != r.value:
                        frame_dirty = True
                        xrun, xpending = 0, True
                        if first_rep is not None: dev_after = True
                    prev["xdscall"] = r.value
                    xcall = r.value
                elif r.kind == "wss":
                    wss_rx, wss_pos = r, pos
                elif r.kind == "cpr":
                    cpr_rx = r
            # --- F17 shape: identified station replaced by an unknown CNI -> state wiped, NETWORK twice, zeros announced
            f17 = "change-unknown-many: NETWORK raised twice and NETWORK_ID carries zeros when an identified station is replaced by an unknown CNI"
            if toks and len([n for n in nets if all(x in ("0", "-") for x in n[:6])]) >= 2:
                return f17
            if toks and not has_net and nuid != 0 and any(all(x in ("0", "-") for x in f[:6]) for f in nids) \
                    and not any(rep and r.kind in CARRIER_FIELD and r.value == 0 for r, rep in cands):
                return f17      # (a CNI of 0 received twice is announced as what it is: zeros)
            # --- NETWORK_ID: O1, O2, O3 ------------------------------------------------------------------
            for f in nids:
                ok, why = False, None
                matched = []
                for r, rep in cands:
                    if not rep:
                        continue
                    if r.kind == "xdsname":
                        if bytes.fromhex(f[1] if f[1] != "-" else "") == r.value:
                            call = bytes.fromhex(f[2] if f[2] != "-" else "")
                            if not ebu_seen and call != r.extra["call"]:
                                why = "faithful-xds: NETWORK_ID carries call letters %r, last received were %r" % (call, r.extra["call"])
                            elif not ebu_seen and int(f[0]) != nu.xds_nuid(r.extra["call"] or r.value):
                                why = "faithful-xds: NETWORK_ID nuid %s is not the check sum of the call letters / name received" % f[0]
                            else:
                                ok = True
                    elif int(f[CARRIER_FIELD[r.kind]]) == r.value:
                        want, defined = self.tbl.lookup(r.kind, r.value)
                        tname = table_name(self.tbl, r.kind, r.value)
                        if defined and int(f[0]) != want:
                            why = "faithful: NETWORK_ID nuid %s, table says %d for %s %04x" % (f[0], want, r.kind, r.value)
                        elif defined and tname is not None and f[1] != hx(tname if want else b""):
                            why = "faithful-name: NETWORK_ID name %s, table says %s for %s %04x" % (f[1], hx(tname if want else b""), r.kind, r.value)
                        else:
                            ok = True
                            matched.append(r.kind)
                if not ok:
                    if why:
                        return why
                    if not any(rep for _, rep in cands):
                        return "needs-repeat: NETWORK_ID without an equal previous reception on any carrier of the frame"
                    return "faithful: NETWORK_ID fields %s match no repeated line of the frame" % ":".join(f)
                # O3: announced again only after a deviation - on any carrier since the last announcement (what the
                # shared debounce cycle does) or on the announcing carrier since IT was announced last (one cycle per carrier)
                if not frame_dirty and has_nid and not any(dirty_c.get(k) for k in matched):
                    return "stable: NETWORK_ID although no reception deviated since the last announcement"
                for k in matched:
                    dirty_c[k] = False
            dirty = (dev_after if nids else frame_dirty) if has_nid else False
            if nids or (toks and nets):
                established = True
            # --- XDS liveness: the same non-empty name twice in a row after a change must be announced --------
            if xname_rx is not None and len(toks) == 1 and has_nid and not ebu_seen:
                if nids:
                    xpending = False
                elif xrun >= 2 and xpending and xname_rx.value != b"":
                    return "liveness-xds: network name %r received twice in a row after a change, not announced" % xname_rx.value
            elif nids:
                xpending = False
            # --- NETWORK: windows, reset bookkeeping -----------------------------------------------------
            line_reset = False
            if toks and nets and has_nid and not nids:
                return "faithful: NETWORK event from a line without NETWORK_ID"
            if toks and has_net and has_nid:
                for i, (tg, f) in enumerate(evs):
                    if tg == "net" and not all(x in ("0", "-") for x in f[:6]) and not (i + 1 < len(evs) and evs[i + 1] == ("nid", f)):
                        return "faithful: NETWORK event %s is not followed by a NETWORK_ID event with the same record" % ":".join(f)
            if toks and nets:
                if win is not None:
                    win["nets"] += nets
                if win and win["kind"] == "quiet-begin":
                    return self.quiet_what(win, "NETWORK event")
                if int(nets[-1][0]) == nuid and nuid != 0:
                    return "stable-net-same-station%s: NETWORK event although the identified station (%d) did not change" % (
                        "-xds" if any(r.kind == "xdsname" for r in rxs) else "", nuid)
            announced = [f for f in (nets if has_net else nids) if toks]
            if announced:
                # several carriers of one frame can announce one after the other (VPS, then packet 8/30 with another
                # id): every change away from an identified station is a vbi_chsw_reset
                for ann in announced:
                    new = int(ann[0])
                    if new != nuid or (has_net and nets):
                        if nuid != 0:
                            line_reset = True      # vbi_chsw_reset: the decoder dropped cache and WSS state
                        nuid = new
                if all(x in ("0", "-") for x in announced[-1][:6]) and line_reset:
                    prev = {}                  # everything forgotten (reset with id 0)
            if line_reset:
                last_aspect = known_aspect = None
                hist_wss = []
            if wss_rx is not None:
                if not line_reset or (last_id_pos is not None and wss_pos > 0):
                    hist_wss.append(wss_rx.value)
            # --- PROG_ID: exactly the label of the triggering line; from VPS only when the previous VPS line carried
            #     the same complete label (VPS has no error protection); 8/30 format 2 is Hamming protected, every
            #     valid packet is announced -----------------------------------------------------------------------
            npid = {"vps": 0, "830": 0}
            for tg, f in evs:
                if tg == "pid":
                    if f and f[-1] == "dirty":
                        return "faithful-pid: PROG_ID record has non-zero reserved members"
                    vals = [int(x) for x in f]
                    src = [r for r in rxs if r.extra.get("pid") == vals]
                    if not src:
                        return "faithful-pid: PROG_ID %s is the label of no line of the frame" % ":".join(f)
                    if vals[1] == 1:
                        npid["vps"] += 1
                        if not other_cycle:
                            if not any(r.extra.get("prev_pid") == vals for r in src):
                                return "needs-repeat-pid: VPS PROG_ID %s, the previous VPS line carried %s" % (
                                    ":".join(f), ":".join(str(x) for x in (src[0].extra.get("prev_pid") or [])) or "nothing")
                        elif tuple(vals) not in seen_vps_pid and len(toks) == 1:
                            return "needs-repeat-pid: VPS PROG_ID for a programme id no earlier VPS line carried"
                    else:
                        npid["830"] += 1
            if len(toks) == 1 and mask & nu.EV["PROG_ID"]:
                r = rxs[0]
                if r.kind != "vps" and "pid" in r.extra and not r.extra.get("pid_reserved") and npid["830"] != 1:
                    return "liveness-pid: valid packet 8/30 format 2, %d PROG_ID events" % npid["830"]
                if r.kind == "vps" and not other_cycle and not head_reset and has_nid and nids and npid["vps"] == 0 \
                        and r.extra.get("prev_pid") == r.extra["pid"]:
                    return "liveness-pid: station announced by a VPS line whose label equals the previous line's, no PROG_ID"
            for r in rxs:
                if r.kind == "vps": seen_vps_pid.add(tuple(r.extra["pid"]))
            # --- ASPECT: O1, O2, O3 ------------------------------------------------------------------------
            # PROG_INFO: never alone, never another record than the ASPECT event before it (the reset's ASPECT has none)
            reset_shapes = {1: [23, 310, 1, 0, 3], 2: [22, 262, 1, 0, 3]}
            lenient = set(src_before) | ({1} if wss_rx is not None and line_reset else set()) | ({2} if cpr_rx is not None and line_reset else set())
            reset_open = (head_reset and bool(src_before)) or line_reset
            reset_idx = None
            cand = [i for i, (tg, f) in enumerate(evs) if tg == "asp" and [int(x) for x in f][2:] == [1, 0, 3] and
                    abs(int(f[0]) - 22) <= 1 and int(f[1]) in (261, 262, 263, 309, 310, 311)]
            if reset_open and cand:
                # a CPR-1204 word for "4:3 full format" announces the same record as the reset of a 525-line source: a single
                # such event in a frame that also resets is the reset's only when the decoder certainly had a source
                own = cpr_rx is not None and nu.cpr_spec(cpr_rx.value) == reset_shapes[2]
                if not (own and len(cand) == 1 and sure_before is None):
                    reset_idx = cand[0]
            if mask & nu.EV["ASPECT"] and mask & nu.EV["PROG_INFO"]:
                for i, (tg, f) in enumerate(evs):
                    if tg == "pi" and not (i > 0 and evs[i - 1] == ("asp", f) and i - 1 != reset_idx):
                        return "faithful-prog-info: PROG_INFO %s does not follow an ASPECT event with the same record" % ":".join(f)
                    if tg == "asp" and i != reset_idx and not (i + 1 < len(evs) and evs[i + 1] == ("pi", f)):
                        return "faithful-prog-info: ASPECT %s of a line is not followed by PROG_INFO with the same record" % ":".join(f)
            elif mask & nu.EV["PROG_INFO"]:
                for tg, f in evs:
                    if tg == "pi":
                        vals = [int(x) for x in f]
                        if not ((wss_rx is not None and vals == wss_spec(*wss_rx.value)) or (cpr_rx is not None and vals == nu.cpr_spec(cpr_rx.value))):
                            return "faithful-prog-info: PROG_INFO %s is the aspect of no WSS / CPR line of the frame" % ":".join(f)
            if reset_idx is not None:
                vals = [int(x) for x in evs[reset_idx][1]]
                if vals not in [reset_shapes[k] for k in lenient]:
                    return "faithful-reset-aspect: reset announces %s, the aspect ratio it forgets was stored by %s" % (
                        vals, " or ".join({1: "a WSS-625 word (23..310)", 2: "a CPR-1204 word (22..262)"}[k] for k in sorted(lenient)) or "nothing")
            elif aspsrc_case and head_reset and sure_before is not None and mask & nu.EV["ASPECT"]:
                return "liveness-reset-aspect: the reset forgot an aspect ratio (source %d) without an ASPECT event" % sure_before
            for i, (tg, f) in enumerate(evs):
                if tg != "asp":
                    continue
                vals = [int(x) for x in f]
                if i == reset_idx:
                    continue
                if cpr_rx is not None and vals == nu.cpr_spec(cpr_rx.value):
                    if last_aspect == vals:
                        return "stable: ASPECT announced again for an unchanged aspect (CPR-1204)"
                    last_aspect = vals
                    continue
                if wss_rx is None:
                    return "faithful: ASPECT event without a WSS line"
                b0, b1 = wss_rx.value
                if vals != wss_spec(b0, b1):
                    return "faithful: ASPECT %s but the word says %s" % (vals, wss_spec(b0, b1))
                if not wss_parity_ok(b0):
                    return "needs-repeat: ASPECT from a word with wrong parity"
                if len(hist_wss) < 4 or any(x != (b0, b1) for x in hist_wss[-4:]):
                    return "needs-repeat: ASPECT without four identical words"
                if last_aspect == vals:
                    return "stable: ASPECT announced again for an unchanged aspect"
                last_aspect = vals
            if wss_rx is not None and not asps and mask & nu.EV["ASPECT"] and len(toks) == 1:
                b0, b1 = wss_rx.value
                if len(hist_wss) >= 4 and all(x == (b0, b1) for x in hist_wss[-4:]) and wss_parity_ok(b0) \
                        and last_aspect != wss_spec(b0, b1) and known_aspect != wss_spec(b0, b1):
                    return "liveness: four identical valid WSS words, new aspect, no ASPECT event"
            if line_reset:
                src_poss, src_sure = set(), None
            if wss_rx is not None:
                b0, b1 = wss_rx.value
                src_poss.add(1)
                if len(hist_wss) >= 4 and all(x == (b0, b1) for x in hist_wss[-4:]) and wss_parity_ok(b0):
                    if known_aspect != wss_spec(b0, b1):
                        src_poss, src_sure = {1}, 1
                    known_aspect = wss_spec(b0, b1)
            if cpr_rx is not None:
                # no debounce: every word whose aspect differs from the stored one is announced at once
                if aspsrc_case and mask & nu.EV["ASPECT"] and known_aspect != nu.cpr_spec(cpr_rx.value) \
                        and not any(tg == "asp" and i != reset_idx and [int(x) for x in f] == nu.cpr_spec(cpr_rx.value) for i, (tg, f) in enumerate(evs)):
                    return "liveness-cpr: CPR-1204 word with a new aspect %s, no ASPECT event" % nu.cpr_spec(cpr_rx.value)
                src_poss, src_sure = {2}, 2
                known_aspect = nu.cpr_spec(cpr_rx.value)
        return None

    def quiet_what(self, win, what):
        a = win["args"]
        kind = a.get("kind", "?")
        if kind == "glitch":
            if "carriers" in a:
                return "glitch-multi-ids-%s: %s after a single deviating word between identical ones (interleaved carriers)" % (a.get("ids"), what)
            return "glitch-%s: %s after a single deviating word between identical ones" % (a.get("carrier"), what)
        return "stable-window: %s while the same values keep arriving" % what

    def oracle_strfu(self, case, out):
        """storing a received text: the array holds the filtered text, `changed` is the comparison of the complete
        strings, nothing outside the text and its terminator is written, and a text of up to 32 bytes fits both arrays"""
        for op, o in zip(case, out):
            w = op.split()
            if w[0] == "layout" and len(w) == 1:
                try:
                    v = dict(x.split("=") for x in o.split()[1:])
                    if int(v["xdsbuf"]) + 1 > min(int(v["name"]), int(v["call"])):
                        return "extent: an XDS text of %s bytes and its terminator do not fit name[%s] / call[%s]" % (v["xdsbuf"], v["name"], v["call"])
                    if int(v["pidpad"]) != 0 or int(v["pidfields"]) != 9:
                        return "extent: vbi_program_id has padding or other members than the nine transmitted fields before tape_delayed"
                except (ValueError, KeyError, IndexError):
                    return "extent: layout line unreadable: %s" % o
            elif w[0] == "strfu" and len(w) == 3:
                try:
                    d = list(bytes.fromhex(w[1])) if w[1] != "-" else []
                    src = list(bytes.fromhex(w[2])) if w[2] != "-" else []
                except ValueError:
                    continue
                if any(c > 0x7F for c in src):
                    continue                    # not transmittable (7-bit characters); the correspondence covers it
                want = nu.strfu_spec(d, src)
                exp = "rej oob" if want is None else "ok %d %s" % (1 if want[0] else 0, hx(want[1]))
                if o != exp:
                    return "strfu: stored %s, received %s: code says '%s', string semantics say '%s'" % (w[1], w[2], o, exp)
        return None

    def oracle_table(self, case, out):
        for op, o in zip(case, out):
            w = op.split()
            if w[0] == "tbl":
                i = int(w[1])
                if i < len(self.tbl.rows):
                    r = self.tbl.rows[i]
                    exp = "ok %d %s %d %d %d %d" % (r[0], hx(r[2]), r[3], r[4], r[5], r[6])
                else:
                    exp = "ok end"
                if o != exp:
                    return "table: compiled row %d is '%s', translator parsed '%s'" % (i, o, exp)
            elif w[0] == "lookup":
                ty, cni = int(w[1]), int(w[2])
                want, defined = self.tbl.lookup({1: "vps", 2: "8301", 3: "8302"}[ty], cni)
                if defined and o.split()[1] != str(want):
                    return "lookup: station_lookup(%d, %04x) = %s, table says %d" % (ty, cni, o.split()[1], want)
        return None

    def signature(self, case, what):
        return what.split(":")[0]


if __name__ == "__main__":
    verif.run_check(C13())
