#!/usr/bin/env python3
"""C18 - each proxy client gets every captured frame, filtered to its services, in order."""
import json, os, re, sys
sys.path.insert(0, os.path.join(os.path.dirname(os.path.abspath(__file__)), "..", "lib"))
import verif
import proxyq_util as pq

BITS = [0x1, 0x2, 0x4, 0x8, 0x10, 0x400, 0x1000, 0x80000000]
BIG = 100000000


def gen_layout():
    """constants of Generated/ProxyQLayout.lean"""
    txt = open(os.path.join(verif.LEAN, "ZvbiModel", "Generated", "ProxyQLayout.lean")).read()
    out = {}
    for m in re.finditer(r"def (\w+) : (Nat|Bool) := (\w+)", txt):
        out[m.group(1)] = int(m.group(3)) if m.group(2) == "Nat" else (m.group(3) == "true")
    return out


class Sched:
    """builds one structured case: keeps just enough of a sender-side view (which clients exist, which services
    are certainly active) to produce frames the device contract allows"""

    def __init__(self, rng, L=2, supp=None):
        self.rng, self.ops = rng, []
        self.L = L
        self.supp = supp or [0xFFFFFFFF & ~0x60000000] * 4
        self.n = 0
        self.iters = 0
        self.ts = 1000
        self.cl = {}           # id -> dict(levels, stable_at, closed)
        self.accept_queue = []
        if L != 2 or supp:
            self.ops.append("dev 625 %d %s" % (L, " ".join("0x%x" % m for m in self.supp)))

    def grant(self, c):
        g = 0
        for l in range(4):
            g |= c["levels"][l] & self.supp[l]
        return g

    def conn(self, sv, strict, bc=0, credit=BIG):
        while len(self.accept_queue) >= 4:      # the harness keeps at most 4 connections unaccepted
            self.iter()
        k = self.n
        self.n += 1
        self.ops.append("conn 0x%x %d %d" % (sv, strict, bc))
        lv = [0, 0, 0, 0]
        lv[strict + 1] = sv
        self.cl[k] = dict(levels=lv, stable_at=None, closed=False)
        self.accept_queue.append(k)
        if credit:
            self.ops.append("credit %d %d" % (k, credit))
        return k

    def svc(self, k, sv, strict, reset):
        c = self.cl[k]
        self.ops.append("svc %d 0x%x %d %d" % (k, sv, strict, reset))
        c["stable_at"] = None
        c["unstable"] = True

    def close(self, k, bye=False):
        self.ops.append(("bye %d" if bye else "close %d") % k)
        self.cl[k]["closed"] = True

    def iter(self, n=1):
        for _ in range(n):
            self.ops.append("iter")
            self.iters += 1
            if self.accept_queue:
                k = self.accept_queue.pop(0)
                if not self.cl[k].get("unstable"):
                    self.cl[k]["stable_at"] = self.iters + 1

    def active_min(self):
        """services certainly decoded by the device now (clients whose last request is surely processed)"""
        a = 0
        for c in self.cl.values():
            if not c["closed"] and c["stable_at"] is not None and self.iters >= c["stable_at"]:
                a |= self.grant(c)
        return a

    def cap(self, ids=None, nmax=None):
        n = self.rng.choice([0, 1, 1, 2, 2, 3, 4, 6, 9, 14]) if nmax is None else self.rng.randint(0, nmax)
        pool = ids or BITS
        lines = []
        for i in range(n):
            b = self.rng.choice(pool)
            if self.rng.random() < 0.1:
                b |= self.rng.choice(pool)
            lines.append("0x%x:%d:%d" % (b, 6 + i, self.rng.randrange(256)))
        self.ts += self.rng.randint(1, 40000)
        self.ops.append("cap %d %s" % (self.ts, " ".join(lines)))


class C18(verif.Spec):
    prop = "C18"
    comp = "proxyq"
    lean_modules = ["ZvbiModel.Props.C18", "ZvbiModel.Props.C18Full"]
    harness = "proxyq_harness"
    harness_link_lib = True
    timeout_per_case = 0.5
    partial_note = ("Proved (Props/C18Full.lean) about the FULL single-threaded daemon model, for every capture device whose answers "
                    "do not change during a history and every history of connect / service request / close / socket credit / capture "
                    "/ flush / main-loop iteration: reference counts exact, no assertion / dangling / NULL cursor, every frame "
                    "captured for a client is queued or was taken exactly once in order (sent, or dropped by the client's own "
                    "service change / disconnect, a flush, or an overflow that finds that client >= 8 frames behind), device open "
                    "iff somebody is subscribed with all_services = union of the grants. The model is tied to the real daemon by the "
                    "correspondence check of every audit line (select-capable fake device, virtual socket flow control). NOT covered "
                    "by any theorem: the acquisition thread (devices without select) with its mutex order and lost wake-ups - two "
                    "genuine races were found there by the runtime stage (D5, D6) -, the scheduling of real client processes, kernel "
                    "socket behaviour (delivery order of a stream socket is assumed), a device whose grants change under connected "
                    "clients (defect D7 lives exactly there), raw VBI services, channel tokens (C19), malloc failure, more than one "
                    "device. The link from a `sent` fate to the bytes the client reads is function-level (sent_message_exact + "
                    "filter_exact_repaired) plus the oracle. The literal two-run form of stalled_client_isolated is refuted as a "
                    "modelling artefact (stalled_client_isolated_naive_false); the one-run form and a two-run corollary are proved. "
                    "The runtime stage (real daemon process, acquisition thread variant, real proxy-client processes) samples a few "
                    "dozen schedules per run and proves nothing.")
    assumptions = ["the capture device grants `services & supported(strict)`, the same function throughout a history (theorems); the "
                   "harness can re-program it (`dev` op): there the oracle only checks structure, order, exactly-once",
                   "the device returns at most count[0]+count[1] lines per frame",
                   "a stream socket delivers the bytes of send() in order",
                   "clients send well-formed CONNECT_REQ / SERVICE_REQ / CLOSE_REQ with strict in -1..2 (malformed messages are C19)"]
    trusted_base = ["translate/gen_proxyq.py (probe compiled against /repo + five source-shape facts; cross-checked by the `consts` op)",
                    "harness/proxyq_harness.c (fake capture device, virtual socket flow control via send()/accept()/select()) "
                    "+ lean/Driver/ProxyQ.lean: correspondence of every audit line",
                    "the pointer abstraction of the model: a cursor is its distance from the queue tail"]
    open_statements = []
    stats = {}
    extra_coverage = {"behaviour_stats": stats}

    def bump(self, k, n=1):
        self.stats[k] = self.stats.get(k, 0) + n

    # ------------------------------------------------------------------------------- generator
    def rand_services(self, rng):
        sv = 0
        for _ in range(rng.choice([1, 1, 2, 3])):
            sv |= rng.choice(BITS)
        return sv

    def gen_case(self, rng, quick, maxc):
        L = rng.choice([2, 2, 2, 1, 3, 8])
        supp = None
        if rng.random() < 0.5:
            allb = 0
            for b in BITS: allb |= b
            supp = [allb, allb & ~rng.choice(BITS), allb & ~rng.choice(BITS) & ~rng.choice(BITS), rng.choice(BITS) | rng.choice(BITS)]
        s = Sched(rng, L, supp)
        nops = rng.choice([15, 30, 60]) if quick else rng.choice([20, 60, 150, 300])
        kinds = {}          # id -> 'fast' | 'slow' | 'stall'
        def live():
            return [k for k, c in s.cl.items() if not c["closed"]]
        nconn = rng.randint(1, maxc)
        for _ in range(nops):
            r = rng.random()
            lv = live()
            if (r < 0.12 and s.n < nconn) or not s.cl:
                kind = rng.choice(["fast", "fast", "slow", "stall"])
                credit = BIG if kind == "fast" else (1040 + rng.choice([0, 0, 88, 200, 5000]))
                k = s.conn(self.rand_services(rng) if rng.random() < 0.92 else 0, rng.choice([-1, 0, 0, 1, 2]),
                           rng.choice([0, 0, 0, 3, 9, 12, 40]), credit)
                kinds[k] = kind
            elif r < 0.20 and lv:
                k = rng.choice(lv)
                s.svc(k, self.rand_services(rng) if rng.random() < 0.9 else 0, rng.choice([-1, 0, 1, 2]), rng.choice([0, 0, 1]))
            elif r < 0.27 and lv:
                s.close(rng.choice(lv), bye=rng.random() < 0.3)
            elif r < 0.55:
                for _ in range(rng.choice([1, 1, 1, 2, 4, 12])):
                    s.cap()
            elif r < 0.65 and lv:
                k = rng.choice(lv)
                if kinds.get(k) == "slow":
                    self_credit = rng.choice([1, 24, 88, 100, 152, 500, 3000])
                    s.ops.append("credit %d %d" % (k, self_credit))
                elif kinds.get(k) == "stall" and rng.random() < 0.1:
                    s.ops.append("credit %d %d" % (k, BIG)); kinds[k] = "fast"
            elif r < 0.66:
                s.ops.append("relall")
            else:
                s.iter(rng.choice([1, 1, 2, 3]))
        s.iter(rng.choice([1, 3, 6]))
        return s.ops

    def gen_cases(self, rng, tier):
        quick = tier == "quick"
        cases = [["consts"]]
        # 1. small exhaustive-ish schedules: two clients, every relative order of the second client's connect,
        #    service change and disconnect against three captures
        base_ops = ["conn 0x3 0 0", "credit 0 %d" % BIG]
        tails = [["conn 0x5 1 0", "credit 1 %d" % BIG], ["svc 0 0x4 0 0"], ["svc 0 0x1 2 1"], ["close 0"], ["bye 0"], ["svc 1 0x2 0 1"],
                 ["close 1"], ["relall"], ["conn 0x0 0 0", "credit 2 %d" % BIG]]
        for t1 in tails:
            for t2 in tails:
                for pos in range(4):
                    c = list(base_ops) + ["iter"] * 4
                    ts = 100
                    for i in range(4):
                        if i == pos: c += t1
                        if i == (pos + 1) % 4: c += t2
                        ts += 100
                        c += ["cap %d 0x1:7:%d 0x4:8:%d" % (ts, i, i + 1), "iter"]
                    c += ["iter"] * 4
                    cases.append([l for l in c if not (l.split()[0] in ("svc", "close", "bye", "credit") and int(l.split()[1]) >= 2 and "conn 0x0" not in " ".join(c))])
        # 2. stalled clients and overflow: one stalled, others keeping up; the queue wraps several times
        for nfast in (1, 2, 3):
            for bc in (0, 12):
                s = Sched(rng)
                st = s.conn(0x3, 0, bc, credit=1040)
                fast = [s.conn(rng.choice([0x1, 0x2, 0x3, 0x7]), 0, 0) for _ in range(nfast)]
                s.iter(nfast + 5)
                for i in range(40 if quick else 120):
                    s.cap(ids=[1, 2, 4], nmax=2)
                    s.iter()
                    if i == 25:
                        s.ops.append("credit %d %d" % (st, BIG))
                s.iter(3)
                cases.append(s.ops)
        # 3. last client leaves, a new one arrives (device reopen)
        for _ in range(6 if quick else 40):
            s = Sched(rng)
            a = s.conn(self.rand_services(rng), 0)
            s.iter(4); s.cap(); s.iter(); s.cap(); s.iter()
            s.close(a, bye=rng.random() < 0.5)
            s.iter(rng.choice([0, 1, 3]))
            s.cap()
            b = s.conn(self.rand_services(rng), rng.choice([0, 1]))
            s.iter(5); s.cap(); s.cap(); s.iter(4)
            cases.append(s.ops)
        # 4. random schedules
        maxc = 4 if quick else 12
        for _ in range(2500 if quick else 25000):
            cases.append(self.gen_case(rng, quick, rng.choice([1, 2, 3, maxc])))
        # 5. many clients (more than -maxclients, which only limits TCP connections)
        for _ in range(2 if quick else 10):
            s = Sched(rng)
            ks = [s.conn(self.rand_services(rng), rng.choice([0, 1, 2]), 0) for _ in range(12 if quick else 30)]
            s.iter(len(ks) + 3)
            for i in range(12):
                s.cap(); s.iter()
                if i % 3 == 0 and ks:
                    s.close(ks.pop(rng.randrange(len(ks))))
            s.iter(3)
            cases.append(s.ops)
        # 5b. the device is re-programmed under connected clients (norm change): grants of unchanged requests change
        for _ in range(12 if quick else 150):
            s = Sched(rng)
            n = rng.choice([1, 2, 3])
            ks = []
            for j in range(n):
                stalled = rng.random() < 0.5
                ks.append(s.conn(rng.choice([0x1, 0x2, 0x3, 0x5, 0x6]), rng.choice([0, 1]), 0, credit=(1040 if stalled else BIG)))
            s.iter(n + 3)
            for _ in range(rng.randint(0, 4)):
                s.cap(ids=[1, 2, 4], nmax=2); s.iter()
            m = rng.choice([0x1, 0x2, 0x4, 0x3, 0x6, 0x5, 0x7, 0])
            s.supp = [m] * 4
            s.ops.append("dev 625 %d %s" % (s.L, " ".join("0x%x" % x for x in s.supp)))
            r = rng.random()
            if r < 0.5:
                ks.append(s.conn(rng.choice([0x1, 0x2, 0x4, 0x7]), 0, 0))
            elif r < 0.8:
                s.svc(rng.choice(ks), rng.choice([0x1, 0x2, 0x4]), 0, rng.choice([0, 1]))
            else:
                s.close(rng.choice(ks))
            s.iter(3)
            for _ in range(rng.randint(1, 5)):
                s.cap(ids=[1, 2, 4], nmax=2); s.iter()
            for k in ks:
                if not s.cl[k]["closed"] and rng.random() < 0.7:
                    s.ops.append("credit %d %d" % (k, BIG))
            s.iter(3)
            s.cap(ids=[1, 2, 4], nmax=2); s.iter(3)
            # every client leaves inside the case: a crash of the end-of-case cleanup would be attributed to the next case
            for k in ks:
                if not s.cl[k]["closed"]:
                    s.close(k)
            s.iter(4)
            cases.append(s.ops)
        # 6. malformed op lines (both sides must reject them the same way)
        bad = ["conn", "conn 1", "conn 1 0", "conn 1 3 0", "conn 1 -2 0", "conn 0x20000000 0 0", "conn 1 0 256", "conn -1 0 0",
               "svc 0 1 0", "svc 9 1 0 0", "svc 0 1 0 2", "svc 0 0x40000000 0 0", "svc x 1 0 0", "bye", "bye 7", "close", "close 0 0",
               "credit 0", "credit 0 100000001", "credit 5 1", "cap", "cap x", "cap 5 1:2", "cap 5 1:2:256", "cap 5 1:1001:2",
               "cap 5 1:2:3:4", "cap -1", "cap 5 0x20000000:1:1", "relall 1", "iter 1", "term 1", "frob", "dev 625 2 1 1 1",
               "dev 625 0 1 1 1 1", "dev 625 9 1 1 1 1", "dev 1001 2 1 1 1 1", "dev 625 2 0x20000000 1 1 1", "consts 1", "ITER"]
        for _ in range(10 if quick else 100):
            c = ["conn 0x3 0 0", "credit 0 %d" % BIG, "iter", "iter"]
            for j in range(14):
                c.append(rng.choice(bad) if rng.random() < 0.6 else rng.choice(["iter", "cap %d 0x1:7:1" % (1000 * j + rng.randrange(1000))]))
            cases.append(c)
        cases.append(["conn 0x1 0 0", "iter", "iter", "term", "iter", "conn 1 0 0", "frob"])
        return cases

    def extra_checks(self, ctx):
        """1. a harness process that dies (the known crashes of the corpus) cannot remove its socket directory.
        2. RUNTIME STAGE (support, not proof): the real daemon as its own process (harness/proxyq_mp.c: real select; in the
        `thread` variant the daemon's acquisition thread) and real client processes (harness/proxyq_mpclient.c with
        src/proxy-client.c), driven through scripted schedules by lib/proxyq_mp.py; every client's received frames are judged
        against the scripted source (in order, exactly once, capture timestamp, exactly the lines of its granted services,
        nothing lost by a client that keeps up, device open/close/union)."""
        import glob, shutil, time
        for d in glob.glob("/tmp/proxyq.??????"):
            try:
                if time.time() - os.path.getmtime(d) > 600:
                    shutil.rmtree(d, ignore_errors=True)
            except OSError:
                pass
        if ctx.get("replay") or os.environ.get("VERIF_C18_RUNTIME", "1") == "0":
            self.extra_coverage["runtime_stage"] = "not run (replay, or VERIF_C18_RUNTIME=0)"
            return []
        out = []
        try:
            import proxyq_mp
            seed = ctx["rng"].randrange(1, 1 << 16)
            viol, cov = proxyq_mp.run_runtime_stage(ctx["tier"], seed, log=lambda *a: None)
            cov["schedule_seed_base"] = seed
            cov["hangs_not_reproduced"] = 0
            for what, lines in viol:
                m = re.match(r"runtime: (\w+)/(\w+) seed=(\d+): hang", what)
                if m:
                    # a missed deadline on a loaded machine: the schedule is run once more alone; a real hang comes back
                    v2, _ = proxyq_mp.run_runtime_stage(ctx["tier"], seed, log=lambda *a: None,
                                                        schedule=(m.group(1), m.group(2), int(m.group(3))), jobs=1)
                    if not v2:
                        cov["hangs_not_reproduced"] += 1
                        continue
                hdr = ["# runtime stage (real daemon process + real proxy-client processes), not an op script:"]
                m2 = re.match(r"runtime[^:]*: (\w+)/(\w+) seed=(\d+)", what)
                if m2:
                    hdr.append("# replay: python3 lib/proxyq_mp.py --variant %s --kind %s --schedule-seed %s -v" % m2.groups())
                out.append((what, hdr + ["# " + l for l in lines[:400]]))
            self.extra_coverage["runtime_stage"] = cov
        except Exception as ex:      # the stage is support: if it cannot run at all, say so loudly but do not invent a violation
            self.extra_coverage["runtime_stage"] = {"error": repr(ex)}
            out.append(("runtime: the runtime stage could not run: %r" % (ex,), ["# " + repr(ex)]))
        return out

    def classify(self, case):
        kinds = [l.split()[0] for l in case]
        n = kinds.count("conn")
        tag = "%dclients" % min(n, 5) if n < 5 else "5+clients"
        if "svc" in kinds: tag += "+svc"
        if "close" in kinds or "bye" in kinds: tag += "+leave"
        if "dev" in kinds and kinds.index("dev") > 0 and "conn" in kinds[:kinds.index("dev")]: tag += "+reconfig"
        if "term" in kinds: tag += "+term"
        return tag

    def nontrivial(self, case, impl_out):
        return any(" read:" in l for l in impl_out)

    # ------------------------------------------------------------------------------- oracle
    def oracle(self, case, out):
        if len(out) != len(case):
            return "output count %d != ops %d" % (len(out), len(case))
        o = pq.Oracle()
        dead = False
        for opi, (op, line) in enumerate(zip(case, out)):
            ws = op.split()
            if line.startswith("rej"):
                continue
            if ws[0] == "consts":
                lay = gen_layout()
                for kv in line.split()[1:]:
                    k, v = kv.split("=")
                    if k == "st":
                        if [int(x) for x in v.split(",")] != [lay["stWaitConReq"], lay["stWaitClose"], lay["stForward"], lay["stClosed"]]:
                            return "consts: connection state enum differs from the generated layout"
                    elif lay.get(k) != int(v):
                        return "consts: %s = %s in the compiled daemon, %s in the generated layout" % (k, v, lay.get(k))
                continue
            if ws[0] == "term":
                dead = True
                continue
            if ws[0] == "iter":
                a = pq.parse_audit(line)
                if a is None:
                    return "op %d: unparsable audit line %r" % (opi, line[:80])
                self.bump("iterations")
                self.bump("frames_read", sum(1 for e in a["dev"] if e.startswith("read:")))
                self.bump("frames_delivered", sum(1 for m in a["msgs"] if m[1] == "sl"))
                if a["free"] == 0 and a["q"]:
                    self.bump("iterations_with_full_queue")
                w = o.audit(a)
                if w:
                    return w
            else:
                o.op(ws)
        w = o.finish()
        if w:
            return w
        if o.known:
            self.bump("known:" + o.known.split(":")[0])
        return o.known

    def signature(self, case, what):
        if what.startswith(("filter-truncation:", "force-free-second:", "grant-lost:")):
            return "proxyq:" + what.split(":")[0]
        if what.startswith("runtime acq-thread-link:"):
            return "proxyq:mp:acq-thread-link"
        if what.startswith("runtime acq-thread-forcefree:"):
            return "proxyq:mp:acq-thread-forcefree"
        if what.startswith("runtime"):
            return "proxyq:mp:" + re.sub(r"\s+", " ", re.sub(r"0x[0-9a-f]+|\d+", "N", what[8:]))[:80]
        if what.startswith("crash of the real code"):
            kinds = [l.split()[0] for l in case]
            reconf = "dev" in kinds and "conn" in kinds[:kinds.index("dev")]
            if reconf and ("p_proxy_dev->p_sliced == p_buf" in what or "heap-use-after-free" in what):
                # D7: the device was re-programmed under connected clients; a client whose grant became empty kept
                # its cursor: the next release trips the assertion (or reads a buffer freed by stop_acquisition)
                return "proxyq:grant-lost"
            if "line_count < p_buf->max_lines" in what:
                return "proxyq:crash:assert-line-count"
            if "heap-use-after-free" in what and "vbi_proxy_queue_release_sliced" in what and any(l.split()[0] == "term" for l in case):
                return "proxyq:crash:destroy-use-after-free"
            m = re.search(r"AddressSanitizer: ([\w-]+)|runtime error|Assertion `[^']*'|LeakSanitizer", what)
            return "proxyq:crash:" + (m.group(0) if m else "?")
        if what.startswith("hang"):
            return "proxyq:hang"
        body = re.sub(r"^(iter|op) \d+: ", "", what)
        return "proxyq:" + re.sub(r"\s+", " ", re.sub(r"0x[0-9a-f]+|\d+", "N", body))[:80]


if __name__ == "__main__":
    verif.run_check(C18())
