#!/usr/bin/env python3
"""C05 - raw decoding never touches memory outside the raw image or the output array.

Model: lean/ZvbiModel/Slicer/Model.lean (index sets of the three bit slicers as a function of the
configured state and of the outcome of the CRI/FRC search; decode loop pointers and output slots).
Theorems: lean/ZvbiModel/Props/C05.lean.  Harness: harness/slicer_harness.c (measures, with a guard
mapping, the exact number of bytes the real code needs, then repeats the call on exact-size heap
buffers under ASan).  The generator runs the harness itself once (`?` claims) to learn the search
outcome of every synthesised line; the final op lines carry that outcome, the model predicts the
bytes needed / written from it, the harness measures them again.

Second part (lean/ZvbiModel/Slicer/Buf*.lean, Props/C05Buf.lean): the public entry points
vbi3_bit_slicer_slice / vbi3_bit_slicer_slice_with_points with caller-sized arrays (op `bslice`): every pixel
format x both functions x buffer sizes 0..payload+1, exact-size heap output buffer and points array.  Which
`buffer_size` test and which points limit /repo has is measured by translate/gen_slicerguard.py
(Generated/SlicerGuard.lean); the model follows it, so the check passes before and after
fixes/C05-slice-buffer-size.diff and fixes/C05-points-bound.diff.
"""
import json, os, subprocess, sys
sys.path.insert(0, os.path.join(os.path.dirname(os.path.abspath(__file__)), "..", "lib"))
import verif

U32 = 1 << 32
# enum values are cross-checked by the `layout` op against the compiled headers and the generated Lean file
FMT = {"YUV420": 1, "YUYV": 2, "YVYU": 3, "UYVY": 4, "VYUY": 5, "PAL8": 6, "RGBA32_LE": 32, "RGBA32_BE": 33,
       "BGRA32_LE": 34, "BGRA32_BE": 35, "RGB24": 36, "BGR24": 37, "RGB16_LE": 38, "RGB16_BE": 39, "BGR16_LE": 40,
       "BGR16_BE": 41, "RGBA15_LE": 42, "RGBA15_BE": 43, "BGRA15_LE": 44, "BGRA15_BE": 45, "ARGB15_LE": 46,
       "ARGB15_BE": 47, "ABGR15_LE": 48, "ABGR15_BE": 49}
BPP = {1: 1, 2: 2, 3: 2, 4: 2, 5: 2, 32: 4, 33: 4, 34: 4, 35: 4, 36: 3, 37: 3}
LP_CAPABLE = {1, 2, 3, 4, 5, 32, 33, 34, 35, 36, 37}
GOOD_FMTS = [v for k, v in FMT.items() if k != "PAL8"]


def bpp_of(f):
    return BPP.get(f, 2)


def guard_facts():
    """Generated/SlicerGuard.lean (written by translate/gen_slicerguard.py in this run) -> {name: bool}"""
    import re
    try:
        t = open(os.path.join(verif.LEAN, "ZvbiModel", "Generated", "SlicerGuard.lean")).read()
    except OSError:
        return {}
    return {m.group(1): m.group(2) == "true" for m in re.finditer(r"def (\w+) : Bool := (true|false)", t)}


def load_known_merged():
    """known_findings.json is a shared file; this component's entries live in known_findings.C05.json"""
    base = {"findings": [], "fixed": []}
    p = os.path.join(verif.VERIF, "known_findings.json")
    if os.path.exists(p):
        base = json.load(open(p))
    q = os.path.join(verif.VERIF, "known_findings.C05.json")
    if os.path.exists(q):
        base.setdefault("findings", [])
        have = {(k.get("property"), k.get("id")) for k in base["findings"]}
        # the F7 entries describe the released search limit; once the repaired arithmetic is in the tree
        # (recognised like translate/gen_slicer.py does) an over-read is a new violation, not a known finding
        def has_fix(f):
            try:
                return "look_ahead" in open(os.path.join(verif.REPO, "src", f)).read()
            except OSError:
                return False
        fixed3, fixedL = has_fix("bit_slicer.c"), has_fix("decoder.c")
        for k in json.load(open(q)).get("findings", []):
            # (the entries for the buffer_size test and the points limit are retired in `signature`: the facts about the
            # tree are only regenerated after the known findings are loaded)
            if k.get("id") == "F7-legacy":
                if fixedL:
                    continue
            elif str(k.get("id", "")).startswith("F7") and fixed3:
                continue
            if (k.get("property"), k.get("id")) not in have:
                base["findings"].append(k)
    return base


verif.load_known = load_known_merged

# The model is not given pixel values: it is told the outcome of the CRI/FRC search the harness observed
# (claim fields of slice / lslice / decode ops) and predicts bytes needed / written / records from it.
# Claims in stored files (corpus, replays) may stem from another version of the tree, so the op lines the
# model sees are re-claimed from the implementation's output of this very run.
_orig_run_side = verif.run_side
_last = {"cases": None, "out": None}


def _run_side(cmd, cases, *a, **k):
    if cmd and os.path.basename(cmd[0]) == "zvbi_model":
        if _last["cases"] is cases and _last["out"] is not None:
            fixed = []
            for i, c in enumerate(cases):
                o = _last["out"].get(i, [])
                if len(o) == len(c):
                    c = [C05.with_claim(l, x) or l for l, x in zip(c, o)]
                fixed.append(c)
            return _orig_run_side(cmd, fixed, *a, **k)
        return _orig_run_side(cmd, cases, *a, **k)
    out, inc = _orig_run_side(cmd, cases, *a, **k)
    if len(cases) > 1 or _last["cases"] is None:
        _last["cases"], _last["out"] = cases, out
    return out, inc


verif.run_side = _run_side


def table_rows():
    """service table through the harness-independent translator output (Lean text) is not parsed here;
    the rows are read from the C source by the same probe the translator uses -> ask the harness."""
    return None


class C05(verif.Spec):
    prop = "C05"
    comp = "slicer"
    lean_modules = ["ZvbiModel.Props.C05", "ZvbiModel.Props.C05Buf"]
    harness = "slicer_harness"
    harness_link_lib = True
    timeout_per_case = 10.0
    partial_note = ("index arithmetic only: pixel values are not modelled, the image enters through the outcome of the "
                    "CRI/FRC search (never found / found in iteration k and FRC mismatch / found in iteration k); "
                    "phase_shift is the floor of the exact rational value, its equality with the C double computation is "
                    "validated by the params ops, not proved; the pattern/job bookkeeping of the raw decoder "
                    "(which services are tried on which row) is abstracted to `hit : row -> Bool`; for the points array the clock "
                    "recovery of the CRI search is abstracted to the list of tick events of the CRI() invocations executed "
                    "(the driver is told how many points the real code stored and checks it against the invocation count)")
    assumptions = ["callers of vbi3_bit_slicer_set_params pass cri_end >= sample_offset, cri_bits >= 1, payload_bits >= 1 and rates "
                   "for which rate*bits/bit_rate fits 32 bits (true for every service table row at any 32 bit sampling rate: theorem rows_noWrap)",
                   "callers of the legacy vbi_bit_slicer_init pass raw_samples >= rate*(payload+frc_bits)/bit_rate (it has no failure path)",
                   "IEEE double phase_shift = floor of the exact rational value (validated on every params/lparams op)",
                   "direct users of vbi3_bit_slicer_set_params with the low-pass slicer pass payload_bits >= 1 and cri_end != sample_offset "
                   "(set_params accepts both - acceptance_does_not_imply_sane - and the do..while / 0 == --i loops then run 2^32 times: "
                   "lowpass_zero_payload_counterexample); the raw decoder never does (rows_sane_params)"]
    open_statements = ["payload_reads_in_line_released_full (the full-strength read bound for the search limit of zvbi 0.2.x as released): "
                       "not open but REFUTED - payload_reads_in_line_counterexample / lowpass_reads_in_line_counterexample / "
                       "legacy_reads_in_line_counterexample (F7); proved at full strength for the repaired limit "
                       "(payload_reads_in_line, legacy_reads_in_line), and for the released limit only as *_partial with the slack hypothesis",
                       "slice_writes_within_buffer_released_full (released buffer_size test): REFUTED - slice_buffer_guard_counterexample; proved for the "
                       "repaired test (slice_writes_within_buffer), released test only *_partial (bit modes)",
                       "points_within_max_released_full (released points storage, F17): REFUTED - points_within_max_counterexample; proved for the "
                       "repaired storage (points_within_max); for the released code the bound points_bound_released holds"]
    trusted_base = ["translate/gen_slicer.py (service table, pixel format enum, sizeof vbi_sliced.data; cross-checked by ops layout/table against the compiled code)",
                    "harness/slicer_harness.c guard-mapping measurement of the bytes needed + exact-size heap runs under ASan",
                    "lean/Driver/Slicer.lean (prints the model's prediction for the same op lines)",
                    "translate/gen_slicerguard.py (which buffer_size test / points limit /repo has: evaluated on the compiled bit_slicer.c, "
                    "validated by every bslice op)"]

    def variant(self):
        try:
            t = open(os.path.join(verif.LEAN, "ZvbiModel", "Generated", "ServiceTable.lean")).read()
            g = guard_facts()
            return {"bit_slicer.c": "tight (fix applied)" if "def slicerTight : Bool := true" in t else "released (F7 present)",
                    "decoder.c": "tight (fix applied)" if "def legacyTight : Bool := true" in t else "released (F7 present)",
                    "buffer_size test": "bytes (fix applied)" if g.get("sliceGuardInBytes") and g.get("withPointsGuardInBytes")
                                        else "bits as released (payload bytes compared with buffer_size * 8)",
                    "cri points": "bounded (fix applied)" if g.get("criPointsBoundedCore") and g.get("criPointsBoundedLowpass")
                                  else "unbounded as released (F17)"}
        except OSError:
            return {}

    # ------------------------------------------------------------------ helpers
    def harness_exe(self):
        exe, err = verif.build_harness(self.harness, link_lib=True)
        if exe is None:
            raise SystemExit("harness build failed: " + err)
        return exe

    def run_harness(self, lines):
        e = dict(os.environ)
        e.update(verif.SAN_ENV)
        p = subprocess.run([self.harness_exe()], input=("case 0\n" + "\n".join(lines) + "\n").encode(),
                           stdout=subprocess.PIPE, stderr=subprocess.PIPE, timeout=600, env=e)
        out = p.stdout.decode().split("\n")
        return [l for l in out[1:] if l != ""], p.returncode, p.stderr.decode()[-2000:]

    def run_harness_robust(self, lines):
        """one op per case through verif's crash-resuming runner: a crashing op yields no output (None)"""
        e = dict(verif.SAN_ENV)
        outs, inc = _orig_run_side([self.harness_exe()], [[l] for l in lines], 2.0, None, 60.0)
        res = []
        for i in range(len(lines)):
            o = outs.get(i, [])
            res.append(o[0] if len(o) == 1 else None)
        return res

    def rows(self):
        if getattr(self, "_rows", None) is None:
            out, rc, err = self.run_harness(["table %d" % i for i in range(40)])
            rows = []
            for l in out:
                f = l.split()
                if f[:2] == ["ok", "end"] or f[0] != "ok":
                    break
                v = [int(x) for x in f[1:]]
                rows.append(dict(id=v[0], videostd=v[1], first0=v[2], first1=v[3], last0=v[4], last1=v[5], offset=v[6],
                                 cri_rate=v[7], bit_rate=v[8], cri_frc=v[9], cri_frc_mask=v[10], cri_bits=v[11],
                                 frc_bits=v[12], payload=v[13], modulation=v[14], flags=v[15]))
            self._rows = rows
        return self._rows

    @staticmethod
    def row_args(r):
        """(cri, mask, cri_bits, cri_rate, frc, frc_bits, payload, bit_rate, modulation) as add_services passes them"""
        return (r["cri_frc"] >> r["frc_bits"], r["cri_frc_mask"] >> r["frc_bits"], r["cri_bits"], r["cri_rate"],
                r["cri_frc"] & ((1 << r["frc_bits"]) - 1), r["frc_bits"], r["payload"], r["bit_rate"], r["modulation"])

    @staticmethod
    def slice_line(fmt, rate, offset, spl, cri, mask, cri_bits, cri_rate, cri_end, frc, frc_bits, payload, bit_rate, mod,
                   sig, shift, trunc, seed, claim="?", asan=False):
        return "slice %d %d %d %d 0x%x 0x%x %d %d %d 0x%x %d %d %d %d %s %d %d %d %s%s" % (
            fmt, rate, offset, spl, cri, mask, cri_bits, cri_rate, cri_end, frc, frc_bits, payload, bit_rate, mod,
            sig, shift, trunc, seed, claim, " asan" if asan else "")

    @staticmethod
    def with_claim(line, out):
        """replace the `?` claim of a slice/lslice/decode op by what the harness observed"""
        f = line.split()
        o = out.split()
        if f[0] == "bslice":
            if len(f) <= 23:
                return line
            kv = dict(t.split("=", 1) for t in o[2:] if "=" in t)
            if o[0] == "ok" and len(o) > 2 and "ticks" in kv:
                f[22], f[23] = o[1], kv["ticks"]
            else:
                f[22], f[23] = "n", "0"
        elif f[0] in ("slice", "lslice"):
            idx = 19 if f[0] == "slice" else 16
            if len(f) <= idx:
                return line
            if o[0] == "ok" and len(o) > 1 and o[1] not in ("wrapped", "bad-claim"):
                f[idx] = o[1]
            else:
                f[idx] = "n"
        elif f[0] == "decode" and len(f) > 18:
            kv = dict(t.split("=", 1) for t in o[1:] if "=" in t)
            f[18] = kv.get("over", "0")
            if "n" in kv:
                try:
                    rows = int(f[6]) + int(f[8])
                    want = min(int(f[12]), bin(int(f[13], 0) & ((1 << rows) - 1)).count("1"))
                except ValueError:
                    return " ".join(f)
                if int(kv["n"]) == want:
                    f[17] = "1"
                elif int(kv["n"]) == 0:
                    f[17] = "0"
                else:
                    return None      # only some of the signal rows decode: not a case the model is given a claim for
            else:
                f[17] = "1"
        return " ".join(f)

    def sim_rows(self):
        """rows add_services can instantiate; io-sim.c synthesises Teletext B, VPS, WSS 625 and Caption, the others give a blank line"""
        good = [i for i, r in enumerate(self.rows()) if r["cri_bits"] > 0]
        sup = [i for i in good if self.rows()[i]["id"] in (0x1, 0x3, 0x4, 0x1000, 0x400, 0x8, 0x10, 0x20, 0x40)]
        return sup * 3 + good

    # ------------------------------------------------------------------ generators
    def gen_params(self, rng, n_struct, n_mal):
        rows = [r for r in self.rows()]
        ops = []
        for _ in range(n_struct):
            r = rng.choice(rows)
            fmt = rng.choice(GOOD_FMTS)
            mx = max(r["cri_rate"], r["bit_rate"], 1)
            k = rng.random()
            if k < 0.15:
                rate = rng.choice([13500000, 14750000, 27000000, 35468950, 28636363, 17734475, 29500000])
            elif k < 0.3:
                rate = mx * 25 + rng.randrange(-3, 4)          # low-pass switch
            elif k < 0.4:
                rate = (mx * 3) // 2 + rng.randrange(-2, 3)    # lowest admitted rate
            else:
                rate = int(mx * (1.0 + rng.random() ** 2 * 40))
            rate = max(1, min(rate, U32 - 1))
            cb, fb, pl = r["cri_bits"], r["frc_bits"], r["payload"]
            cs = rate * cb // max(r["cri_rate"], 1)
            ds = rate * (pl + fb) // max(r["bit_rate"], 1)
            offset = rng.choice([0, 0, 0, 1, 2, rng.randrange(0, 50)])
            k = rng.random()
            if k < 0.5:
                spl = offset + cs + ds + rng.choice([-1, 0, 0, 1, 2, 3, rng.randrange(0, 40)])
            elif k < 0.8:
                spl = offset + cs + ds + rng.randrange(0, 2000)
            else:
                spl = rng.choice([720, 1440, 2048, 1888, 768, rng.randrange(1, 32768)])
            spl = max(0, min(spl, 40000))
            cri_end = rng.choice([U32 - 1] * 6 + [offset + cs, offset + cs + rng.randrange(0, 30), rng.randrange(0, max(1, spl))])
            ops.append("params %d %d %d %d %d %d %d %d %d %d %d" % (fmt, rate, offset, spl, cb, r["cri_rate"], cri_end, fb, pl, r["bit_rate"], r["modulation"]))
        for _ in range(n_mal):
            def rv(hi):
                k = rng.random()
                if k < 0.1: return 0
                if k < 0.2: return hi
                if k < 0.25: return hi + 1
                if k < 0.3: return U32 - 1
                if k < 0.32: return U32
                return rng.randrange(0, hi + 1)
            fmt = rng.choice(list(FMT.values()) + [0, 7, 31, 50, 999, 1001])
            rate = rng.choice([0, 1, 1000, rng.randrange(1, 50000000), rng.randrange(1, U32), U32 - 1])
            cr = rng.choice([0, 1, rate, rate + 1, rng.randrange(1, max(2, rate + 1)), rng.randrange(1, 8000000)])
            br = rng.choice([0, 1, rate, rate + 1, rng.randrange(1, max(2, rate + 1)), rng.randrange(1, 8000000)])
            cb, fb, pl = rv(32), rv(32), rng.choice([0, 1, 7, 8, 16, 336, 337, 32767, 32768, rng.randrange(0, 2000)])
            spl = rng.choice([0, 1, 100, 720, 2048, 32767, 32768, rng.randrange(0, 5000)])
            offset = rng.choice([0, 0, 1, spl, spl + 1, rng.randrange(0, max(1, spl + 1))])
            cri_end = rng.choice([U32 - 1, 0, offset, max(0, offset - 1), rng.randrange(0, max(1, spl + 1))])
            mod = rng.choice([0, 1, 2, 3, 3, 4])
            line = "params %d %d %d %d %d %d %d %d %d %d %d" % (fmt, rate, offset, spl, cb, cr, cri_end, fb, pl, br, mod)
            k = rng.random()
            if k < 0.03: line += " 5"
            elif k < 0.06: line = line.rsplit(" ", 1)[0]
            elif k < 0.09: line = line.replace(" ", " -", 1)
            elif k < 0.11: line = line.replace("params", "parms")
            ops.append(line)
        return ops

    def gen_lparams(self, rng, n):
        rows = [r for r in self.rows() if r["cri_bits"]]
        ops = []
        for _ in range(n):
            r = rng.choice(rows)
            fmt = rng.choice(GOOD_FMTS + [6, 0])
            mx = max(r["cri_rate"], r["bit_rate"])
            rate = rng.choice([13500000, 27000000, 35468950, int(mx * (1.0 + rng.random() * 30)), mx, mx + 1])
            ds = rate * (r["payload"] + r["frc_bits"]) // r["bit_rate"]
            raw = max(0, ds + rng.choice([-1, 0, 1, 2, 55, rng.randrange(0, 1500)]))
            cb, fb, pl = r["cri_bits"], r["frc_bits"], r["payload"]
            k = rng.random()
            if k < 0.1: cb = rng.choice([0, 33, 32, 1])
            elif k < 0.2: fb = rng.choice([0, 33, 32, 1])
            elif k < 0.3: pl = rng.choice([0, 1, 7, 9, 32767, 32768, rng.randrange(0, 600)])
            cr = r["cri_rate"] if rng.random() < 0.9 else rng.choice([0, 1, rng.randrange(1, 8000000)])
            br = r["bit_rate"] if rng.random() < 0.9 else rng.choice([0, 1, rng.randrange(1, 8000000)])
            ops.append("lparams %d %d %d %d %d 0x%x 0x%x %d %d %d %d" % (fmt, raw, rate, cr, br, r["cri_frc"], r["cri_frc_mask"], cb, fb, pl, rng.choice([r["modulation"], rng.randrange(0, 5)])))
        return ops

    def nominal_rate_spl(self, rng, r, want_lp):
        mx = max(r["cri_rate"], r["bit_rate"])
        sig_us = r["cri_bits"] / r["cri_rate"] + (r["frc_bits"] + r["payload"]) / r["bit_rate"]
        if want_lp:
            rate = mx * 25 + rng.randrange(0, mx * 8)
        else:
            rate = rng.choice([13500000, 14750000, 27000000, 35468950, 17734475, int(mx * (1.5 + rng.random() * 4))])
            if rate < (mx * 3) // 2:
                rate = (mx * 3) // 2 + rng.randrange(0, 1000000)
            if rate // mx > 24:
                rate = mx * 20
        need = int(sig_us * rate) + 1
        spl = need + rng.choice([0, 1, 2, 5, 20, rng.randrange(0, 200), rng.randrange(0, 1200)])
        return rate, min(spl, 32767)

    def gen_slice_struct(self, rng, n_cfg, per_cfg, legacy=False):
        """nominal table-row signals swept over the horizontal position, biased to the last admitted CRI positions"""
        rows = self.rows()
        sim = self.sim_rows()
        cfgs = []
        for _ in range(n_cfg):
            ri = rng.choice(sim)
            r = rows[ri]
            fmt = rng.choice([1, 1, 1] + GOOD_FMTS)
            want_lp = (not legacy) and rng.random() < 0.35 and fmt in LP_CAPABLE
            rate, spl = self.nominal_rate_spl(rng, r, want_lp)
            if spl >= 16000 or spl < 8:
                continue
            offset = 0 if (legacy or rng.random() < 0.7) else rng.randrange(0, 20)
            spl += offset
            sigstart = 0   # sample 0 of the synthesised signal is its nominal start
            seed = rng.randrange(1, 1 << 30)
            cfgs.append((ri, fmt, rate, spl, offset, sigstart, seed))
        # pass A: calibrate the position the CRI is found at for shift = sigstart
        def mk(c, shift, trunc=0, claim="?", sig=None, asan=False):
            ri, fmt, rate, spl, offset, sigstart, seed = c
            r = rows[ri]
            a = self.row_args(r)
            sig = sig or ("r%d" % ri)
            if legacy:
                return "lslice %d %d %d %d %d 0x%x 0x%x %d %d %d %d %s %d %d %d %s%s" % (
                    fmt, spl, rate, r["cri_rate"], r["bit_rate"], r["cri_frc"], r["cri_frc_mask"], r["cri_bits"], r["frc_bits"],
                    r["payload"], r["modulation"], sig, shift, trunc, seed, claim, " asan" if asan else "")
            return self.slice_line(fmt, rate, offset, spl, a[0], a[1], a[2], a[3], U32 - 1, a[4], a[5], a[6], a[7], a[8],
                                   sig, shift, trunc, seed, claim, asan)
        probe = [mk(c, c[5] - c[4]) for c in cfgs]
        out, rc, err = self.run_harness(probe)
        if rc != 0 or len(out) != len(probe):
            out = self.run_harness_robust(probe)
        plan = []
        for c, o in zip(cfgs, out):
            f = (o or "crashed").split()
            base = c[5] - c[4]
            ds = c[2] * (rows[c[0]]["payload"] + rows[c[0]]["frc_bits"]) // rows[c[0]]["bit_rate"]
            cs_lim = c[3] - ds - c[4]
            shifts = set()
            if f[0] == "ok" and len(f) > 1 and f[1][0] in "of" and f[1][1:].isdigit():
                k0 = int(f[1][1:])
                last = base - (cs_lim - 1 - k0)          # shift for which the CRI is found in the last admitted iteration
                for d in (-3, -2, -1, 0, 1, 2):
                    shifts.add(last + d)
                for _ in range(max(0, per_cfg - 6)):
                    shifts.add(rng.randrange(min(last - 3, base - 40), base + 40))
            else:
                for _ in range(per_cfg):
                    shifts.add(base + rng.randrange(-cs_lim - 40, 60) if cs_lim > 0 else base)
            for s in sorted(shifts):
                trunc = 0 if rng.random() < 0.85 else rng.randrange(1, c[3] + 1)
                plan.append(mk(c, s, trunc))
            # the same configuration on unstructured lines
            for sig in rng.sample(["noise", "sat0", "sat255", "sat%d" % rng.randrange(256), "sq%d" % rng.randrange(1, 40), "blank"], 2):
                plan.append(mk(c, rng.randrange(0, 50), 0, sig=sig))
        return self.claim_pass(plan)

    def claim_pass(self, plan):
        if not plan:
            return []
        out, rc, err = self.run_harness(plan)
        if rc != 0 or len(out) != len(plan):
            # the real code crashed somewhere: find out where, keep those ops (claim `?`) so that the main run
            # attributes the crash to its case and reports it
            out = self.run_harness_robust(plan)
        return [x for x in (l if o is None else self.with_claim(l, o) for l, o in zip(plan, out)) if x is not None]

    def gen_slice_forced(self, rng, n):
        """arbitrary parameters; cri_mask = 0 makes the first recovered clock tick a CRI match, and the offset is
        chosen so that only the first few search iterations exist: every parameter shape reaches its last admitted position"""
        plan = []
        for _ in range(n):
            fmt = rng.choice(GOOD_FMTS)
            cr = rng.choice([447443, 500000, 1000000, 1006976, 2500000, 5000000, 5727272, 6937500, rng.randrange(100000, 8000000)])
            br = rng.choice([cr, cr // 2, cr * 2, 833333, rng.randrange(100000, 8000000)])
            br = max(1, br)
            mx = max(cr, br)
            k = rng.random()
            if k < 0.3 and fmt in LP_CAPABLE:
                rate = mx * 25 + rng.randrange(0, mx * 6)
            else:
                rate = int(mx * (1.0 + rng.random() * 6))
            cb = rng.randrange(1, 33)
            fb = rng.choice([0, 0, 1, 2, 6, 8, rng.randrange(0, 33)])
            pl = rng.choice([1, 7, 8, 9, 14, 16, 20, 104, 336, rng.randrange(1, 400)])
            cs = rate * cb // cr
            ds = rate * (pl + fb) // br
            extra = rng.choice([0, 0, 1, 2, 3, 8, 40])
            spl = cs + ds + extra + rng.choice([0, 0, 5])
            if spl > 30000:
                continue
            # leave `keep` search iterations: cri_samples = spl - ds - offset
            keep = rng.choice([1, 1, 2, 3, 4, rate // cr + 1, rate // cr + 2, rng.randrange(1, 60)])
            offset = max(0, spl - ds - keep)
            if offset + cs + ds > spl:
                offset = max(0, spl - cs - ds)
            mod = rng.randrange(0, 4)
            sig = rng.choice(["noise", "noise", "sat255", "sat0", "sq%d" % rng.randrange(1, 30), "sq1", "sq2"])
            frc = 0 if rng.random() < 0.7 else rng.randrange(0, 1 << fb) if fb else 0
            plan.append(self.slice_line(fmt, rate, offset, spl, 0, 0, cb, cr, U32 - 1, frc, fb, pl, br, mod, sig,
                                        rng.randrange(0, 64), 0, rng.randrange(1, 1 << 30)))
        return self.claim_pass(plan)

    def gen_slice_malformed(self, rng, n):
        plan = []
        for _ in range(n):
            fmt = rng.choice(list(FMT.values()) + [0, 77])
            rate = rng.choice([0, 1, 13500000, rng.randrange(1, 60000000)])
            cr = rng.choice([0, 1, 6937500, rng.randrange(1, 8000000)])
            br = rng.choice([0, 1, 6937500, rng.randrange(1, 8000000)])
            cb, fb = rng.choice([0, 1, 18, 32, 33]), rng.choice([0, 6, 32, 33])
            pl = rng.choice([0, 1, 16, 336, 32767, 32768])
            spl = rng.choice([0, 1, 720, 2048, 32767, 32768])
            offset = rng.choice([0, 1, spl, spl + 1])
            cri_end = rng.choice([U32 - 1, 0, offset, max(0, offset - 1), rng.randrange(0, spl + 1)])
            sig = rng.choice(["noise", "sat255", "r2", "r99", "foo", "sq0", "sat", "r"])
            l = self.slice_line(fmt, rate, offset, spl, rng.randrange(0, 1 << 20), rng.choice([0, 0xffff]), cb, cr, cri_end, 0, fb, pl, br,
                                rng.randrange(0, 5), sig, rng.randrange(-50, 50), 0, rng.randrange(0, 1000))
            k = rng.random()
            if k < 0.05: l += " asan extra"
            elif k < 0.1: l = " ".join(l.split()[:-3])
            plan.append(l)
        return self.claim_pass(plan)

    def gen_decode(self, rng, n):
        rows = self.rows()
        plan = []
        ttx = [i for i, r in enumerate(rows) if r["id"] == 3][0]
        r = rows[ttx]
        for _ in range(n):
            fmt = rng.choice([1, 1] + GOOD_FMTS)
            bpp = bpp_of(fmt)
            rate = rng.choice([13500000, 14750000, 17734475, 27000000, 35468950])
            sig_us = r["cri_bits"] / r["cri_rate"] + (r["frc_bits"] + r["payload"]) / r["bit_rate"]
            spl = int(sig_us * rate) + 2 + rng.choice([0, 1, 3, 10, rng.randrange(0, 300)])
            bpl = spl * bpp
            if bpl > 16384:
                continue
            interlaced = rng.random() < 0.5
            c0 = rng.randrange(1, 6)
            c1 = c0 if interlaced else rng.randrange(0, 6)
            if interlaced and rng.random() < 0.15:
                c1 = rng.choice([c0 + 1, c0 - 1, 0, c0 + 2])     # must be refused: rows of an interlaced image alternate
                c1 = max(0, c1)
            s0 = rng.randrange(6, 23 - c0)
            s1 = rng.randrange(318, 336 - max(c1, 1))
            maxl = rng.choice([0, 1, c0, c0 + c1, c0 + c1, c0 + c1 + 3, rng.randrange(0, c0 + c1 + 1)])
            mask = rng.choice([0, (1 << (c0 + c1)) - 1, rng.randrange(0, 1 << (c0 + c1)), 1 << (c0 + c1 - 1)])
            sigstart = 0
            ds = rate * (r["payload"] + r["frc_bits"]) // r["bit_rate"]
            k = rng.random()
            if k < 0.6:
                shift = sigstart - rng.randrange(0, 6)
            else:
                # around the last admitted CRI position (the CRI is found ~16 CRI bits after the signal start)
                shift = sigstart - (spl - ds) + (rate * 17 // r["cri_rate"]) + rng.randrange(-6, 7)
            sig = "r%d" % ttx
            services = 3
            if rng.random() < 0.2:
                sig, mask = "noise", 0
                services = rng.choice([3, 0x3 | 0x400 | 0x4 | 0x8, 0x3 | 0x1000])
            plan.append("decode 625 %d %d %d %d %d %d %d %d %d 0 %d 0x%x %s %d %d ? ?" % (
                fmt, rate, bpl, s0, c0, s1, c1, 1 if interlaced else 0, services, maxl, mask, sig, shift, rng.randrange(1, 1 << 30)))
        # 525 line caption on noise with the low-pass slicer (27 MHz and up)
        for _ in range(max(2, n // 6)):
            fmt = rng.choice([1, 2, 4, 32, 36])
            bpp = bpp_of(fmt)
            rate = rng.choice([27000000, 28636363, 30000000, 35468950])
            spl = rate * 52 // 1000000 + rng.randrange(0, 100)
            c0 = rng.randrange(1, 4)
            plan.append("decode 525 %d %d %d %d %d %d %d %d %d 0 %d 0 noise 0 %d ? ?" % (
                fmt, rate, spl * bpp, 22 - c0, c0, 285 - c0, c0, rng.randrange(0, 2), 0x60, 2 * c0, rng.randrange(1, 1 << 30)))
        for _ in range(max(2, n // 10)):       # malformed / rejected sampling parameters
            plan.append("decode %d %d %d %d %d %d %d %d %d 3 0 %d 0x%x %s %d %d ? ?" % (
                rng.choice([625, 525, 0, 1]), rng.choice([1, 2, 6, 36, 0]), rng.choice([0, 13500000]), rng.choice([0, 719, 720, 1441, 16385]),
                rng.choice([0, 7, 300, 400]), rng.randrange(0, 4), rng.choice([0, 320, 100, 700]), rng.randrange(0, 4), rng.randrange(0, 2),
                rng.randrange(0, 8), rng.randrange(0, 16), rng.choice(["r2", "noise", "bar", "r77"]), rng.randrange(0, 200), rng.randrange(0, 1000)))
        return self.claim_pass(plan)

    def bslice_line(self, fmt, rate, offset, spl, ri, sig, shift, seed, which, buf, mp, asan=False, claim="?", ticks="?"):
        a = self.row_args(self.rows()[ri])
        return "bslice %d %d %d %d 0x%x 0x%x %d %d %d 0x%x %d %d %d %d %s %d 0 %d %s %d %d %s %s%s" % (
            fmt, rate, offset, spl, a[0], a[1], a[2], a[3], U32 - 1, a[4], a[5], a[6], a[7], a[8], sig, shift, seed,
            which, buf, mp, claim, ticks, " asan" if asan else "")

    def gen_bslice(self, rng, tier):
        """direct API: every pixel format x both public functions x buffer sizes 0 .. payload bytes + 1 on a line that
        carries the service (so the call stores the payload whenever the size test lets it), the points array sized
        around total_bits; plus lines that make the CRI search recover many clock ticks (points array), plus malformed ops"""
        rows = self.rows()
        q = tier == "quick"
        plan = []
        want = [(0x3, False), (0x4, False), (0x400, False), (0x8, False), (0x20, True)]     # Teletext B, VPS, WSS 625, Caption 625, Caption 525 low-pass
        for sid, lp in want:
            ri = [i for i, r in enumerate(rows) if r["id"] == sid][0]
            r = rows[ri]
            nbytes = (r["payload"] + 7) // 8
            total = r["cri_bits"] + r["frc_bits"] + r["payload"]
            for fmt in GOOD_FMTS:
                if lp and fmt not in LP_CAPABLE:
                    continue
                rate, spl = self.nominal_rate_spl(rng, r, lp)
                if spl >= 16000:
                    rate, spl = self.nominal_rate_spl(rng, r, lp)
                seed = rng.randrange(1, 1 << 30)
                for which in "sp":
                    for buf in range(0, nbytes + 2):
                        mp = 0 if which == "s" else rng.choice([total, total, total, 512, total + rng.randrange(1, 40), 4 * spl + total])
                        plan.append(self.bslice_line(fmt, rate, 0, spl, ri, "r%d" % ri, 0, seed, which, buf, mp))
                # the max_points test and arrays just big enough
                for mp in (0, total - 1, total, total + 1):
                    plan.append(self.bslice_line(fmt, rate, 0, spl, ri, "r%d" % ri, 0, seed, "p", nbytes, max(0, mp)))
        # many clock ticks: long lines, square waves / noise around the CRI frequency (Y8 template and low-pass slicer)
        ttx = [i for i, r in enumerate(rows) if r["id"] == 0x3][0]
        cc = [i for i, r in enumerate(rows) if r["id"] == 0x20][0]
        for _ in range(60 if q else 600):
            if rng.random() < 0.6:
                ri, fmt, rate = ttx, rng.choice([1, 1, 1, 2, 38]), rng.choice([13500000, 14750000, 17734475])
                spl = rng.choice([720, 1024, 1440, 2048, 2048, 4096])
                sig = rng.choice(["sq1", "sq2", "sq2", "sq3", "noise", "r%d" % ttx])
            else:
                ri, fmt, rate = cc, rng.choice([1, 2, 4, 32, 36]), rng.choice([27000000, 28636363, 35468950])
                spl = rng.choice([1440, 2048, 4096, 8000])
                sig = rng.choice(["sq13", "sq20", "sq27", "noise", "r%d" % cc])
            r = rows[ri]
            total = r["cri_bits"] + r["frc_bits"] + r["payload"]
            mp = rng.choice([total, total, 512, 512, total + rng.randrange(0, 100), 8 * spl])
            plan.append(self.bslice_line(fmt, rate, rng.choice([0, 0, 3]), spl, ri, sig, rng.randrange(0, 40), rng.randrange(1, 1 << 30),
                                         "p", (r["payload"] + 7) // 8, mp))
        # malformed
        base = self.bslice_line(1, 13500000, 0, 720, ttx, "r%d" % ttx, 0, 5, "s", 42, 0)
        f = base.split()
        for k, v in ((19, "x"), (19, "sp"), (20, "-1"), (20, "100001"), (21, "1000001"), (21, "-0"), (20, "4x"), (15, "foo"), (15, "r99")):
            g = list(f); g[k] = v; plan.append(" ".join(g))
        plan += [base + " asan extra", base + " nosan", " ".join(f[:-1]), " ".join(f[:-3]), base.replace("bslice", "bslic")]
        return self.claim_pass(plan)

    @staticmethod
    def legacy_limits(r, rate):
        """(data_samples, look_ahead, signal length in samples) of vbi_bit_slicer_init for table row r, from the parameters alone"""
        fb, pl, cr, br, mod = r["frc_bits"], r["payload"], r["cri_rate"], r["bit_rate"], r["modulation"]
        ds = rate * (pl + fb) // br
        step = rate * 256 // br
        phase = (128 * rate * br + (64 if mod >= 2 else 128) * rate * cr + 128 * cr * br) // (cr * br)
        bits = pl + fb
        la = ((phase + (bits - 1 if bits > 0 else 0) * step) >> 8) + 1
        siglen = rate * r["cri_bits"] // cr + ds + 1
        return ds, la, siglen

    def gen_lshort(self, rng, tier):
        """legacy slicer x every service x line lengths from 1 to signal length + 64 (every length around the two limits
        vbi_bit_slicer_init computes - look_ahead and data_samples - and between them, a spread elsewhere; thorough: every
        length) x blank / saturated / noise lines of exactly that length: vbi_bit_slicer_init has no failure path, it must
        leave a slicer that stays inside the line however short the line is"""
        q = tier == "quick"
        rows = self.rows()
        plan = []
        for ri, r in enumerate(rows):
            if not r["cri_bits"] or not r["cri_rate"] or not r["bit_rate"]:
                continue
            mx = max(r["cri_rate"], r["bit_rate"])
            rates = [13500000, rng.choice([14750000, 17734475, 27000000, 28636363, 35468950, int(mx * (1.5 + rng.random() * 6))])]
            for rate in rates:
                if rate < mx:
                    continue
                ds, la, siglen = self.legacy_limits(r, rate)
                top = min(siglen + 64, 32767)
                lo, hi = min(la, ds), max(la, ds)
                lens = set(range(max(1, lo - 4), min(top, lo + 5) + 1)) | set(range(max(1, hi - 4), min(top, hi + 5) + 1))
                if hi - lo <= 48:
                    lens |= set(range(max(1, lo), min(top, hi) + 1))
                else:
                    lens |= {rng.randrange(lo, hi + 1) for _ in range(12)}
                lens |= {1, 2, 3, top, siglen} | {rng.randrange(1, top + 1) for _ in range(8 if q else 0)}
                if not q:
                    lens |= set(range(1, top + 1)) if rate == 13500000 else set(range(1, top + 1, 7))
                fmt = 1 if rate == 13500000 or rng.random() < 0.5 else rng.choice(GOOD_FMTS)
                for raw in sorted(x for x in lens if 1 <= x <= top):
                    for sig in ("blank", "sat%d" % rng.choice([255, 255, 0, rng.randrange(256)]), "noise"):
                        if q and rng.random() < 0.25 and not (lo - 2 <= raw <= hi + 2):
                            continue
                        plan.append("lslice %d %d %d %d %d 0x%x 0x%x %d %d %d %d %s 0 0 %d ?" % (
                            fmt, raw, rate, r["cri_rate"], r["bit_rate"], r["cri_frc"], r["cri_frc_mask"], r["cri_bits"],
                            r["frc_bits"], r["payload"], r["modulation"], sig, rng.randrange(1, 1 << 30)))
        return self.claim_pass(plan)

    def gen_cases(self, rng, tier):
        q = tier == "quick"
        cases = []
        cases.append(["layout"] + ["table %d" % i for i in range(len(self.rows()) + 2)])
        ops = self.gen_params(rng, 8000 if q else 60000, 2500 if q else 20000)
        ops += self.gen_lparams(rng, 2500 if q else 15000)
        rng.shuffle(ops)
        for i in range(0, len(ops), 40):
            cases.append(ops[i:i + 40])
        ops = self.gen_slice_struct(rng, 300 if q else 2500, 10 if q else 14)
        ops += self.gen_slice_forced(rng, 2500 if q else 20000)
        ops += self.gen_slice_struct(rng, 100 if q else 800, 9, legacy=True)
        ops += self.gen_slice_malformed(rng, 500 if q else 4000)
        for i in range(0, len(ops), 12):
            cases.append(ops[i:i + 12])
        ops = self.gen_lshort(rng, tier)
        for i in range(0, len(ops), 30):
            cases.append(ops[i:i + 30])
        ops = self.gen_bslice(rng, tier)
        for i in range(0, len(ops), 25):
            cases.append(ops[i:i + 25])
        ops = self.gen_decode(rng, 400 if q else 4000)
        for i in range(0, len(ops), 6):
            cases.append(ops[i:i + 6])
        self._stats = {"ops": sum(len(c) for c in cases)}
        return cases

    def classify(self, case):
        return case[0].split()[0] if case else "empty"

    # ------------------------------------------------------------------ oracle (independent of the model)
    @staticmethod
    def preconditions(f):
        """documented caller obligations of vbi3_bit_slicer_set_params (see `assumptions`)"""
        try:
            rate, offset = int(f[2], 0), int(f[3], 0)
            cb, cr, ce = int(f[7], 0), int(f[8], 0), int(f[9], 0)
            fb, pl, br = int(f[11], 0), int(f[12], 0), int(f[13], 0)
        except (ValueError, IndexError):
            return False
        if cb < 1 or pl < 1 or cr < 1 or br < 1 or ce < offset:
            return False
        return rate * cb // cr < U32 and rate * (pl + fb) // br < U32 and rate * 256 // br < U32

    @staticmethod
    def is_lp(f):
        try:
            fmt, rate, cr, br = int(f[1], 0), int(f[2], 0), int(f[8], 0), int(f[13], 0)
        except (ValueError, IndexError):
            return False
        return fmt in LP_CAPABLE and max(cr, br) > 0 and rate // max(cr, br) > 24

    @staticmethod
    def f7_need(f, outcome):
        """bytes needed when the search stops in iteration k, computed here from the op's parameters alone:
        last FRC/payload bit at (phase_shift + (bits-1)*step) >> 8 samples after k, plus the interpolation neighbour
        (template slicers) resp. one sample later plus the 16 sample window (low-pass slicer)"""
        try:
            k = int(outcome[1:])
            if f[0] == "slice":
                fmt, rate, offset = int(f[1], 0), int(f[2], 0), int(f[3], 0)
                cr, fb, pl, br, mod = int(f[8], 0), int(f[11], 0), int(f[12], 0), int(f[13], 0), int(f[14], 0)
                bits = fb if outcome[0] == "f" else fb + pl
                step = rate * 256 // br
                phase = (512 * rate + step * cr + 512 * cr) // (4 * cr) if mod >= 2 else (256 * rate + step * cr + 256 * cr) // (2 * cr)
                bpp = bpp_of(fmt)
                skip0 = {4: 1, 5: 1, 32: 1, 34: 1, 33: 2, 35: 2, 36: 1, 37: 1}.get(fmt, 0)
                width = 1 if fmt in LP_CAPABLE else 2
                lp = fmt in LP_CAPABLE and rate // max(cr, br) > 24
                last = (phase + (bits - 1) * step) >> 8 if bits > 0 else None
                spl, ce = int(f[4], 0), int(f[9], 0)
                limit = min(ce, spl - rate * (pl + fb) // br) - offset     # the documented search limit
                if last is None or k >= limit:
                    return None
                if lp:
                    return offset * bpp + skip0 + (k + 1 + last + 15) * bpp + 1
                return offset * bpp + skip0 + (k + last + 1) * bpp + width
            else:
                fmt, rate, cr, br = int(f[1], 0), int(f[3], 0), int(f[4], 0), int(f[5], 0)
                fb, pl, mod = int(f[9], 0), int(f[10], 0), int(f[11], 0)
                bits = fb if outcome[0] == "f" else fb + pl
                step = rate * 256 // br
                num = 128 * rate * br + (64 if mod >= 2 else 128) * rate * cr + 128 * cr * br
                phase = num // (cr * br)
                bpp = bpp_of(fmt)
                skip = {4: 1, 5: 1, 32: 1, 34: 1, 33: 2, 35: 2, 36: 1, 37: 1}.get(fmt, 0)
                last = (phase + (bits - 1) * step) >> 8
                if k >= int(f[2], 0) - rate * (pl + fb) // br:
                    return None
                if fmt in LP_CAPABLE:
                    return skip + (k + last + 1) * bpp + 1
                return (k + last) * 2 + 4
        except (ValueError, IndexError, ZeroDivisionError):
            return None

    @staticmethod
    def oracle_bslice(f, g, kv):
        """the public entry points, judged from the op's parameters alone: nothing is stored beyond buffer_size bytes /
        max_points points, a too small buffer or points array is refused (and only then), a successful call stores
        exactly the payload bytes, a failing call leaves the buffer alone"""
        if len(g) > 1 and g[1] == "nondeterministic":
            return "bslice nondeterministic result"
        if "wr" not in kv:
            return None
        try:
            cb, fb, pl = int(f[7], 0), int(f[11], 0), int(f[12], 0)
            wr, buf, np_, pw, mp, ticks = (int(kv[k]) for k in ("wr", "buf", "np", "pw", "mp", "ticks"))
        except (ValueError, KeyError):
            return "bslice unparsable output"
        nbytes, total = (pl + 7) // 8, cb + fb + pl
        octet = "octet-mode" if (pl % 8 == 0 and buf < nbytes <= buf * 8) else "unexplained"
        if wr > buf:
            return "bslice buffer overwrite %s: %d bytes stored into a buffer of %d" % (octet, wr, buf)
        if kv["ref"] != "b" and buf < nbytes:
            return "bslice buffer guard %s: buffer_size %d < %d payload bytes not refused" % (octet, buf, nbytes)
        if kv["ref"] == "b" and buf >= nbytes:
            return "bslice buffer refused: buffer_size %d >= %d payload bytes" % (buf, nbytes)
        if f[19] == "p" and kv["ref"] != "b":
            if (kv["ref"] == "p") != (mp < total):
                return "bslice max_points test: ref=%s max_points %d total_bits %d" % (kv["ref"], mp, total)
            if pw > mp or np_ > mp:
                # explained by the CRI search (F17): the FRC / payload points alone would have fitted
                cri = "cri-search" if (ticks > 0 and pw - ticks <= fb + pl and np_ <= pw) else "unexplained"
                return "bslice points overwrite %s: %d points stored (%d clock ticks), n_points %d, max_points %d" % (cri, pw, ticks, np_, mp)
        if kv["ret"] == "1" and wr != nbytes:
            return "bslice stored %d bytes for %d payload bits" % (wr, pl)
        if kv["ret"] == "0" and wr != 0:
            return "bslice modified the buffer (%d bytes) although it failed" % wr
        if (kv["ret"] == "1") != (g[1][0] == "o" and kv["ref"] == "0"):
            return "bslice inconsistent result %s" % " ".join(g)
        return None

    def legacy_repaired(self):
        if getattr(self, "_legacy_repaired", None) is None:
            self._legacy_repaired = self.variant().get("decoder.c", "").startswith("tight")
        return self._legacy_repaired

    def oracle(self, case, out):
        st = self.__dict__.setdefault("_ostats", {})
        for op, o in zip(case, out):
            f, g = op.split(), o.split()
            if not f:
                continue
            key = f[0] + ":" + (g[0] + " " + (g[1] if g[0] == "rej" and len(g) > 1 else (g[1][0] if f[0] in ("slice", "lslice", "bslice") and len(g) > 1 and g[1][0] in "nofwb" else "")) if g else "none").strip()
            if f[0] == "bslice" and len(g) > 3 and g[0] == "ok" and len(f) > 19:
                key += " %s %s %s" % (f[19], g[2], g[3])
            st[key] = st.get(key, 0) + 1
        self.extra_coverage = {"ops_by_kind_and_result": dict(sorted(st.items())),
                               "slicer_variant_in_repo": self.variant()}
        if len(out) != len(case):
            return "output count %d != ops %d" % (len(out), len(case))
        for op, o in zip(case, out):
            f, g = op.split(), o.split()
            if not f or g[0] != "ok":
                continue
            kv = dict(t.split("=", 1) for t in g[1:] if "=" in t)
            if f[0] == "bslice":
                w = self.oracle_bslice(f, g, kv)
                if w:
                    return w
            elif f[0] in ("slice", "lslice"):
                if "need" not in kv:
                    continue
                line = int(kv["line"])
                if f[0] == "slice":
                    pre = self.preconditions(f)
                    payload_bits = int(f[12], 0)
                    kind = "lp" if self.is_lp(f) else "core"
                else:
                    payload_bits = int(f[10], 0)
                    # vbi_bit_slicer_init has no failure path.  As released the caller had to pass enough samples for
                    # FRC + payload (else the unsigned search limit wrapped); the repaired function (F7) clamps the limit
                    # at zero for any line length (theorems legacy_reads_in_line, legacy_cri_bytes_in_range), so a
                    # wrapped limit - the harness then measures on the real code how far the search runs - is judged
                    # like any other read beyond the line
                    pre = g[1] != "wrapped" or self.legacy_repaired()
                    kind = "legacy"
                if not pre:
                    continue
                if kv["need"] == "inf" or int(kv["need"]) > line:
                    where = "cri-found" if g[1][0] in "of" else "no-cri"
                    # is the excess exactly what the missing look-ahead in the search limit (F7) explains?
                    exp = self.f7_need(f, g[1]) if where == "cri-found" else None
                    if exp is None or kv["need"] == "inf" or int(kv["need"]) != exp:
                        where += " unexplained"
                    return "overread %s %s %s: %s bytes needed, line has %d" % (f[0], kind, where, kv["need"], line)
                if int(kv["wr"]) > (payload_bits + 7) // 8:
                    return "overwrite %s: %s bytes stored for %d payload bits" % (f[0], kv["wr"], payload_bits)
                if (kv["ret"] == "1") != (g[1][0] == "o"):
                    return "inconsistent result %s" % o
            elif f[0] == "decode":
                if "over" in kv and kv["over"] != "0":
                    try:
                        small = 0 < int(kv["over"]) <= 40 * bpp_of(int(f[2], 0))
                    except ValueError:
                        small = False
                    return "overread decode%s: %s bytes beyond the %s x bytes_per_line image" % (
                        "" if small else " large", kv["over"], "(count0+count1)")
                if kv.get("le") == "0":
                    return "overwrite decode: more records than max_lines"
                if "n" in kv and int(kv["n"]) > int(f[12], 0):
                    return "overwrite decode: %s records, max_lines %s" % (kv["n"], f[12])
        return None

    def signature(self, case, what):
        sig = self.signature0(case, what)
        # a known finding whose repair is in the tree (facts measured by translate/gen_slicerguard.py in this run) is a
        # regression, not a known finding: make the signature miss the entry
        g = guard_facts()
        if sig == "bslice buffer guard octet-mode" and g.get("sliceGuardInBytes") and g.get("withPointsGuardInBytes"):
            sig += " (although the byte test is in the tree)"
        if sig == "bslice points overwrite cri-search" and g.get("criPointsBoundedCore") and g.get("criPointsBoundedLowpass"):
            sig += " (although the points limit is in the tree)"
        return sig

    def signature0(self, case, what):
        if what.startswith("overread") or what.startswith("overwrite"):
            return what.split(":")[0]
        if what.startswith("bslice buffer overwrite octet-mode") or what.startswith("bslice buffer guard octet-mode"):
            return "bslice buffer guard octet-mode"       # one defect: payload BYTES compared with buffer_size * 8
        if what.startswith("bslice"):
            return what.split(":")[0]
        if what.startswith("crash") and "heap-buffer-overflow" in what and any(l.startswith("bslice") and l.endswith(" asan") for l in case):
            # replay form of an overflow of the caller's arrays: classify by the op
            for l in case:
                f = l.split()
                if f[0] == "bslice" and f[-1] == "asan":
                    try:
                        pl, buf = int(f[12], 0), int(f[20], 0)
                    except (ValueError, IndexError):
                        break
                    nbytes = (pl + 7) // 8
                    if pl % 8 == 0 and buf < nbytes <= buf * 8:
                        return "bslice buffer guard octet-mode"
                    if f[19] == "p" and buf >= nbytes:
                        return "bslice points overwrite cri-search"
            return "bslice asan unexplained"
        if what.startswith("crash") and "heap-buffer-overflow" in what and any(l.endswith(" asan") for l in case):
            return "overread asan"
        import re
        return re.sub(r"==\d+==", "", what.split(":")[0])[:80]


if __name__ == "__main__":
    spec = C05()
    verif.run_check(spec)
