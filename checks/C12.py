#!/usr/bin/env python3
"""C12 - VPS, PDC and 8/30 codecs are exact inverses; bad input is rejected untouched.

Three independent parties see every op line:
  * the real code (harness/codec_harness.c, ASan/UBSan build of /repo's current tree),
  * the Lean model (lean/Driver/Codec.lean) - correspondence = line-by-line equality,
  * the oracle below: a reference written from the standards (EN 300 231 VPS / 8/30-2 layout,
    EN 300 468 6.2.29 descriptor, EN 300 706 8.2 / 8.3 / 9.8.1), not from zvbi, which computes
    the exact line the property demands for EVERY op (round trip value, untouched bits, refusal).
"""
import os, subprocess, sys
sys.path.insert(0, os.path.join(os.path.dirname(os.path.abspath(__file__)), "..", "lib"))
import verif

# ----------------------------------------------------------------------------------------
# reference (oracle side)
# ----------------------------------------------------------------------------------------
def hx(bs): return "".join("%02x" % b for b in bs) or "-"
def unhx(s): return [] if s == "-" else list(bytes.fromhex(s))
def bit(x, i): return (x >> i) & 1
def r_rev8(c):
    return sum(bit(c, i) << (7 - i) for i in range(8))
def popc(x): return bin(x).count("1")

def r_ham8(n):
    """EN 300 706 8.2: P1 D1 P2 D2 P3 D3 P4 D4, lsb first; odd parities"""
    d1, d2, d3, d4 = bit(n, 0), bit(n, 1), bit(n, 2), bit(n, 3)
    p1 = 1 ^ d1 ^ d3 ^ d4
    p2 = 1 ^ d1 ^ d2 ^ d4
    p3 = 1 ^ d1 ^ d2 ^ d3
    p4 = 1 ^ p1 ^ d1 ^ p2 ^ d2 ^ p3 ^ d3 ^ d4
    return p1 | d1 << 1 | p2 << 2 | d2 << 3 | p3 << 4 | d3 << 5 | p4 << 6 | d4 << 7
HAM8 = [r_ham8(n) for n in range(16)]
def r_unham8(c):
    """nearest codeword within distance 1, else None (distance 2 = detected)"""
    for n in range(16):
        if popc(HAM8[n] ^ c) <= 1:
            return n
    return None
UNHAM8 = [r_unham8(c) for c in range(256)]
def r_par8(c):
    c &= 255
    return c if popc(c) % 2 == 1 else c ^ 128
def r_unpar8(c):
    return (c & 127) if popc(c & 255) % 2 == 1 else None

def r_ham24(d):
    """EN 300 706 8.3: positions 1..24 = P1 P2 D1 P3 D2 D3 D4 P4 D5..D11 P5 D12..D18 P6"""
    pos = [0] * 25
    datapos = [p for p in range(1, 24) if p not in (1, 2, 4, 8, 16)]
    for i, p in enumerate(datapos):
        pos[p] = bit(d, i)
    for k in (1, 2, 4, 8, 16):
        s = 1
        for p in range(1, 24):
            if p != k and (p & k):
                s ^= pos[p]
        pos[k] = s
    s = 1
    for p in range(1, 24):
        s ^= pos[p]
    pos[24] = s
    w = sum(pos[p] << (p - 1) for p in range(1, 25))
    return [w & 255, (w >> 8) & 255, (w >> 16) & 255]
def tri_data(w):
    datapos = [p for p in range(1, 24) if p not in (1, 2, 4, 8, 16)]
    return sum(bit(w, p - 1) << i for i, p in enumerate(datapos))
def tri_is_code(w):
    t = r_ham24(tri_data(w))
    return (t[0] | t[1] << 8 | t[2] << 16) == w
def r_unham24(t):
    w = t[0] | t[1] << 8 | t[2] << 16
    if tri_is_code(w):
        return tri_data(w)
    for k in range(24):
        if tri_is_code(w ^ (1 << k)):
            return tri_data(w ^ (1 << k))
    return None

U32 = 1 << 32
def vps_raw_cni(b): return ((b[10] & 3) << 10) | ((b[11] & 0xC0) << 2) | (b[8] & 0xC0) | (b[11] & 0x3F)
def vps_seen(cni, b2): return (0xDC1 if b2 & 0x10 else 0xDC2) if cni == 0xDC3 else cni
def vps_pil(b): return ((b[8] & 0x3F) << 14) | (b[9] << 6) | (b[10] >> 2)
def pid_line(ch, ct, cni, pil, luf, mi, prf, pcs, pty):
    return "pid %d %d %d %d %d %d %d %d %d" % (ch, ct, cni, pil, luf, mi, prf, pcs, pty)
def vps_put_cni(b, cni):
    b = list(b)
    b[8] = (b[8] & 0x3F) | (cni & 0xC0)
    b[10] = (b[10] & 0xFC) | ((cni >> 10) & 3)
    b[11] = (cni & 0x3F) | ((cni >> 2) & 0xC0)
    return b
def vps_put_pdc(b, cni, pil, pcs, pty):
    b = vps_put_cni(b, cni)
    b[2] = (b[2] & 0x3F) | (pcs << 6)
    b[8] = (b[8] & 0xC0) | ((pil >> 14) & 0x3F)
    b[9] = (pil >> 6) & 0xFF
    b[10] = (b[10] & 0x03) | ((pil & 0x3F) << 2)
    b[12] = pty
    return b
def vps_dec_pdc_line(b):
    return pid_line(4, 1, vps_seen(vps_raw_cni(b), b[2]), vps_pil(b), 0, 1, 0, b[2] >> 6, b[12])
def dvb_put(b, pil):
    return [0x69, 3, 0xF0 | (pil >> 16), (pil >> 8) & 255, pil & 255] + list(b[5:])
def dvb_dec_line(b):
    if b[0] != 0x69 or b[1] != 3: return None
    return pid_line(5, 0, 0, ((b[2] & 15) << 16) | (b[3] << 8) | b[4], 0, 1, 0, 0, 0)

def r_8301_time(p):
    nib = [p[12] & 15, p[13] >> 4, p[13] & 15, p[14] >> 4, p[14] & 15,
           p[15] >> 4, p[15] & 15, p[16] >> 4, p[16] & 15, p[17] >> 4, p[17] & 15]
    if any(n < 1 or n > 10 for n in nib): return None
    d = [n - 1 for n in nib]
    mjd = d[0] * 10000 + d[1] * 1000 + d[2] * 100 + d[3] * 10 + d[4]
    hh, mm, ss = d[5] * 10 + d[6], d[7] * 10 + d[8], d[9] * 10 + d[10]
    if ss > 60 or mm >= 60 or hh >= 24: return None
    off = ((p[11] >> 1) & 31) * 1800
    if p[11] & 0x40: off = -off
    return ((mjd - 40587) * 86400 + hh * 3600 + mm * 60 + ss, off)
def r_8302_bytes(p, idx):
    """data bytes b7.. from Hamming pairs, msb-first nibbles -> bit reversed"""
    out = {}
    for i in idx:
        a, c = UNHAM8[p[2 * i - 4]], UNHAM8[p[2 * i - 3]]
        if a is None or c is None: return None
        out[i] = r_rev8(a | c << 4)
    return out
def cni_8302(b): return ((b[7] & 15) << 12) | ((b[10] & 3) << 10) | ((b[11] & 0xC0) << 2) | (b[8] & 0xC0) | (b[11] & 0x3F)
def r_8302_cni(p):
    b = r_8302_bytes(p, (7, 8, 10, 11))
    return None if b is None else cni_8302(b)
def r_8302_pdc(p):
    e = UNHAM8[p[9]]
    b = r_8302_bytes(p, (7, 8, 9, 10, 11, 12))
    if e is None or b is None: return None
    b6 = r_rev8(e) >> 4
    return pid_line((b6 >> 2) & 3, 3, cni_8302(b), ((b[8] & 0x3F) << 14) | (b[9] << 6) | (b[10] >> 2),
                    (b6 >> 1) & 1, (b[7] >> 5) & 1, b6 & 1, (b[7] >> 6) & 3, b[12])

def num(s):
    return int(s, 16) if s.startswith("0x") else int(s)
def optn(v): return "ok neg" if v is None else "ok %d" % v

def expected(op):
    """the exact output line the property demands for one op, or None if this op is not judged"""
    w = op.split()
    try:
        k = w[0]
        if k == "rev8": return "ok %d" % r_rev8(num(w[1]) & 255)
        if k == "rev16":
            v = num(w[1]) & 0xFFFF
            return "ok %d" % (r_rev8(v & 255) << 8 | r_rev8(v >> 8))
        if k == "ham8": return "ok %d" % HAM8[num(w[1]) & 15]
        if k == "unham8": return optn(UNHAM8[num(w[1]) & 255])
        if k == "par8": return "ok %d" % r_par8(num(w[1]))
        if k == "unpar8": return optn(r_unpar8(num(w[1])))
        if k == "unham16p":
            b = unhx(w[1]); a, c = UNHAM8[b[0]], UNHAM8[b[1]]
            return optn(None if a is None or c is None else a | c << 4)
        if k == "ham24p": return "ok " + hx(r_ham24(num(w[1]) & 0x3FFFF))
        if k == "unham24p": return optn(r_unham24(unhx(w[1])))
        if k == "unpar":
            b = unhx(w[1])
            return "ok %s %s" % ("good" if all(popc(x) % 2 for x in b) else "neg", hx([x & 127 for x in b]))
        if k == "vps_dec_cni":
            b = unhx(w[1]); return "ok %d" % vps_seen(vps_raw_cni(b), b[2])
        if k == "vps_dec_pdc": return "ok " + vps_dec_pdc_line(unhx(w[1]))
        if k == "dvb_dec":
            l = dvb_dec_line(unhx(w[1])); return "ok false" if l is None else "ok " + l
        if k in ("vps_enc_cni", "vps_rt_cni"):
            b, cni = unhx(w[1]), num(w[2]) % U32
            if cni > 0xFFF: return "ok false"
            e = vps_put_cni(b, cni)
            return "ok " + hx(e) + (" %d" % vps_seen(cni, b[2]) if k == "vps_rt_cni" else "")
        if k in ("vps_enc_pdc", "vps_rt_pdc"):
            b = unhx(w[1]); cni, pil, pcs, pty = [num(x) % U32 for x in w[2:6]]
            if cni > 0xFFF or pil > 0xFFFFF or pcs > 3 or pty > 0xFF: return "ok false"
            e = vps_put_pdc(b, cni, pil, pcs, pty)
            return "ok " + hx(e) + (" " + pid_line(4, 1, vps_seen(cni, b[2]), pil, 0, 1, 0, pcs, pty) if k == "vps_rt_pdc" else "")
        if k in ("dvb_enc", "dvb_rt"):
            b, pil = unhx(w[1]), num(w[2]) % U32
            if pil > 0xFFFFF: return "ok false"
            return "ok " + hx(dvb_put(b, pil)) + (" " + pid_line(5, 0, 0, pil, 0, 1, 0, 0, 0) if k == "dvb_rt" else "")
        if k == "vps_reenc":
            b, t = unhx(w[1]), unhx(w[2])
            return "ok " + hx(vps_put_pdc(t, vps_seen(vps_raw_cni(b), b[2]), vps_pil(b), b[2] >> 6, b[12]))
        if k == "p8301_cni":
            p = unhx(w[1]); return "ok %d" % (r_rev8(p[9]) << 8 | r_rev8(p[10]))
        if k == "p8301_time":
            r = r_8301_time(unhx(w[1])); return "ok false" if r is None else "ok %d %d" % r
        if k == "p8302_cni":
            r = r_8302_cni(unhx(w[1])); return "ok false" if r is None else "ok %d" % r
        if k == "p8302_pdc":
            r = r_8302_pdc(unhx(w[1])); return "ok false" if r is None else "ok " + r
    except (IndexError, ValueError):
        return None
    return None

# ----------------------------------------------------------------------------------------
# generators
# ----------------------------------------------------------------------------------------
def rbuf(rng, n):
    k = rng.random()
    if k < 0.1: return [0] * n
    if k < 0.2: return [255] * n
    if k < 0.3: return [rng.choice([0x00, 0xFF, 0x55, 0xAA, 0x10, 0xEF])] * n
    return [rng.randrange(256) for _ in range(n)]

def edge(rng, bits, over=True):
    """boundary-biased value of `bits` bits; sometimes out of range"""
    k = rng.random()
    top = (1 << bits) - 1
    if k < 0.08: return 0
    if k < 0.16: return top
    if over and k < 0.22: return top + 1 + rng.randrange(4)
    if over and k < 0.25: return rng.choice([1 << 31, (1 << 32) - 1, (top + 1) << rng.randrange(1, 8), rng.randrange(1 << 32)])
    if k < 0.4: return 1 << rng.randrange(bits)
    if k < 0.5: return top ^ (1 << rng.randrange(bits))
    return rng.randrange(top + 1)

CHUNK = {"quick": 40, "thorough": 500}
def chunks(lst, tier):
    n = CHUNK[tier]
    return [lst[i:i + n] for i in range(0, len(lst), n)]

class C12(verif.Spec):
    prop = "C12"
    comp = "codec"
    lean_modules = ["ZvbiModel.Props.C12"]
    harness = "codec_harness"
    harness_link_lib = True
    partial_note = ""
    open_statements = []
    assumptions = ["time_t is 64 bit (TIME_MIN/TIME_MAX never reached for 5-digit MJD)",
                   "callers pass buffers of the documented size (13/5/42 bytes)"]
    trusted_base = ["translate/gen_tables.py (Hamming tables; cross-checked op by op against the compiled tables and against the EN 300 706 reference in checks/C12.py)",
                    "harness/codec_harness.c + lean/Driver/Codec.lean (correspondence of the ten public functions)",
                    "Codec/Spec.lean enc8301/enc8302: transcription of EN 300 706 9.8 / EN 300 231 (cross-checked against the independent Python reference decoder in checks/C12.py)"]
    rule = ("cases from corpus + seeded generators: exhaustive table layer and all 4096 VPS CNIs, boundary-biased "
            "field values (all single bits / all-ones-but-one / out of range), sender-spec 8/30 packets with every "
            "nibble fault and every single-bit error, plus random buffers; non-trivial = the code produced a non-rej line")

    def model(self, lines):
        p = subprocess.run([verif.model_exe(), "codec"], input=("\n".join(lines) + "\n").encode(),
                           stdout=subprocess.PIPE, timeout=1200)
        return p.stdout.decode().split("\n")

    # -- generators -------------------------------------------------------------------
    def gen_tables(self, rng, tier):
        c = []
        for v in range(256):
            c += ["rev8 %d" % v, "unham8 %d" % v, "par8 %d" % v, "unpar8 %d" % v]
        for v in range(16):
            c.append("ham8 %d" % v)
        for _ in range(64):
            c.append("rev16 %d" % rng.randrange(65536))
        c2 = []
        for a in range(256):        # all pairs with one fixed partner + random pairs
            c2.append("unham16p " + hx([a, HAM8[a & 15]]))
            c2.append("unham16p " + hx([HAM8[a >> 4], a]))
            c2.append("unham16p " + hx([a, rng.randrange(256)]))
        for _ in range(40):
            c2.append("unpar " + hx(rbuf(rng, rng.randrange(0, 12))))
            c2.append("unpar " + hx([r_par8(rng.randrange(128)) for _ in range(rng.randrange(1, 12))]))
        return [c, c2]

    def gen_ham24(self, rng, tier):
        n = 300 if tier == "quick" else 3000
        ops = []
        vals = [0, 0x3FFFF, 0x15555, 0x2AAAA] + [1 << k for k in range(18)] + [edge(rng, 18, False) for _ in range(n)]
        for v in vals:
            ops.append("ham24p %d" % v)
            t = r_ham24(v)
            ops.append("unham24p " + hx(t))
            for k in range(24):
                u = list(t); u[k // 8] ^= 1 << (k % 8)
                ops.append("unham24p " + hx(u))
            for _ in range(3):
                k, j = rng.sample(range(24), 2)
                u = list(t); u[k // 8] ^= 1 << (k % 8); u[j // 8] ^= 1 << (j % 8)
                ops.append("unham24p " + hx(u))
        # every entry of the three forward tables (byte slices of c) is used at least twice
        for x in range(256):
            for v in (x, x << 8, ((x & 3) << 16) | ((x * 0x0101) & 0xFFFF), rng.randrange(1 << 10) << 8 | x):
                ops.append("ham24p %d" % v)
                t = r_ham24(v)
                ops.append("unham24p " + hx(t))
                k = rng.randrange(24)
                u = list(t); u[k // 8] ^= 1 << (k % 8)
                ops.append("unham24p " + hx(u))
        for _ in range(n * 5):
            ops.append("unham24p " + hx(rbuf(rng, 3)))
        return chunks(ops, tier)

    def pil_values(self, rng, tier):
        v = [0, 0xFFFFF, 0x100000, 0x100001, 0xFFFFFFFF, 0x80000000, 0x7FFFF, 0x3FFF, 0x4000, 0x3F, 0x40,
             # service codes / unreal dates: day 0 month 15 (timer control), 31.15 etc.
             (0 << 15) | (15 << 11) | (31 << 6) | 63, (0 << 15) | (15 << 11) | (30 << 6) | 63,
             (0 << 15) | (15 << 11) | (29 << 6) | 63, (0 << 15) | (15 << 11) | (28 << 6) | 63,
             (31 << 15) | (15 << 11) | (31 << 6) | 63, (31 << 15) | (2 << 11) | (25 << 6) | 61]
        v += [1 << k for k in range(22)] + [0xFFFFF ^ (1 << k) for k in range(20)] + [(1 << k) - 1 for k in range(1, 22)]
        return v

    def gen_vps(self, rng, tier):
        ops = []
        # all 4096 CNIs (+ a few out of range), random surroundings
        for cni in list(range(4096)) + [4096, 4097, 0x1FFF, 0xFFFF, 0x1000 | 0xDC3, 0xFFFFFFFF, 0x80000DC3]:
            ops.append("vps_rt_cni %s %d" % (hx(rbuf(rng, 13)), cni))
        # the shared code 0xDC3, both values of the distinction bit, via every path
        for _ in range(24):
            b = rbuf(rng, 13)
            for bit4 in (0, 0x10):
                b[2] = (b[2] & 0xEF) | bit4
                ops.append("vps_rt_cni %s %d" % (hx(b), 0xDC3))
                ops.append("vps_rt_pdc %s %d %d %d %d" % (hx(b), 0xDC3, rng.randrange(1 << 20), rng.randrange(4), rng.randrange(256)))
                e = vps_put_pdc(b, 0xDC3, rng.randrange(1 << 20), rng.randrange(4), rng.randrange(256))
                ops += ["vps_dec_cni " + hx(e), "vps_dec_pdc " + hx(e), "vps_reenc %s %s" % (hx(e), hx(rbuf(rng, 13))),
                        "vps_reenc %s %s" % (hx(e), hx(e))]
        # PIL boundary set through both encoders
        for pil in self.pil_values(rng, tier):
            b = rbuf(rng, 13)
            ops.append("vps_rt_pdc %s %d %d %d %d" % (hx(b), edge(rng, 12, False), pil, rng.randrange(4), rng.randrange(256)))
            ops.append("dvb_rt %s %d" % (hx(rbuf(rng, 5)), pil))
        n = 6000 if tier == "quick" else 60000
        for _ in range(n):
            b = rbuf(rng, 13)
            cni = 0xDC3 if rng.random() < 0.05 else edge(rng, 12)
            pil, pcs, pty = edge(rng, 20), edge(rng, 2), edge(rng, 8)
            if rng.random() < 0.6:      # mostly exactly one field out of range, or none
                keep = rng.randrange(5)
                if keep != 0: cni &= 0xFFF
                if keep != 1: pil &= 0xFFFFF
                if keep != 2: pcs &= 3
                if keep != 3: pty &= 0xFF
            k = rng.random()
            if k < 0.25: ops.append("vps_enc_cni %s %d" % (hx(b), cni))
            elif k < 0.5: ops.append("vps_enc_pdc %s %d %d %d %d" % (hx(b), cni, pil, pcs, pty))
            else: ops.append("vps_rt_pdc %s %d %d %d %d" % (hx(b), cni, pil, pcs, pty))
            k = rng.random()
            if k < 0.3:
                ops += ["vps_dec_cni " + hx(b), "vps_dec_pdc " + hx(b)]
            elif k < 0.6:
                ops.append("vps_reenc %s %s" % (hx(b), hx(rbuf(rng, 13))))
            elif k < 0.7:
                ops.append("vps_reenc %s %s" % (hx(b), hx(b)))
            d = rbuf(rng, 5)
            k = rng.random()
            if k < 0.4: ops.append("dvb_rt %s %d" % (hx(d), pil if rng.random() < 0.5 else edge(rng, 20)))
            elif k < 0.6: ops.append("dvb_enc %s %d" % (hx(d), edge(rng, 20)))
            else:
                if rng.random() < 0.8: d[0] = 0x69
                if rng.random() < 0.8: d[1] = 3
                if rng.random() < 0.1: d[0], d[1] = rng.choice([(0x68, 3), (0x69, 2), (0x69, 4), (3, 0x69), (0x6B, 3), (0x69, 0x83)])
                ops.append("dvb_dec " + hx(d))
        if tier == "thorough":
            # every 20-bit PIL through both encoders (4 strides so that cases stay small)
            for pil in range(1 << 20):
                if pil % 2: ops.append("dvb_rt 0000000000 %d" % pil)
                else: ops.append("vps_rt_pdc %s %d %d %d %d" % (hx([pil & 255] * 13), (pil * 7) & 0xFFF, pil, pil & 3, (pil >> 3) & 255))
            for pil in range(1 << 20):
                if pil % 2 == 0: ops.append("dvb_rt ffffffffff %d" % pil)
                else: ops.append("vps_rt_pdc %s %d %d %d %d" % (hx([(pil >> 4) & 255] * 13), (pil * 5) & 0xFFF, pil, (pil >> 1) & 3, (pil >> 5) & 255))
        return chunks(ops, tier)

    def gen_8301(self, rng, tier):
        n = 600 if tier == "quick" else 4000
        pre, meta = [], []
        mjds = [0, 1, 9, 10, 99, 100, 999, 1000, 9999, 10000, 19999, 40586, 40587, 40588, 58754, 60000, 88888, 90909, 99999]
        def add(fill, cni, mjd, hh, mm, ss, lto, neg):
            pre.append("spec_enc8301 %s %d %d %d %d %d %d %d" % (hx(fill), cni, mjd, hh, mm, ss, lto, neg))
            meta.append((cni, mjd, hh, mm, ss, lto, neg))
        for mjd in mjds:
            add(rbuf(rng, 42), edge(rng, 16, False), mjd, rng.randrange(24), rng.randrange(60), rng.randrange(61), rng.randrange(32), rng.randrange(2))
        for lto in range(32):
            for neg in (0, 1):
                add(rbuf(rng, 42), rng.randrange(65536), rng.randrange(100000), rng.randrange(24), rng.randrange(60), rng.randrange(60), lto, neg)
        for hh, mm, ss in [(0, 0, 0), (23, 59, 59), (23, 59, 60), (0, 0, 60), (24, 0, 0), (23, 60, 0), (23, 59, 61), (9, 9, 9),
                           (10, 10, 10), (19, 19, 19), (20, 0, 0), (29, 0, 0), (0, 69, 0), (0, 0, 69), (25, 0, 0), (0, 0, 70), (0, 99, 0), (99, 0, 0)]:
            add(rbuf(rng, 42), rng.randrange(65536), rng.randrange(100000), hh, mm, ss, rng.randrange(32), rng.randrange(2))
        for _ in range(n):
            add(rbuf(rng, 42), edge(rng, 16, False), rng.choice([rng.randrange(100000), rng.choice(mjds)]),
                rng.choice([0, 23, rng.randrange(24)]), rng.choice([0, 59, rng.randrange(60)]),
                rng.choice([0, 59, 60, rng.randrange(61)]), rng.choice([0, 31, rng.randrange(32)]), rng.randrange(2))
        if tier == "thorough":
            for mjd in range(100000):
                hh, mm, ss = [(0, 0, 0), (23, 59, 59), (23, 59, 60), (12, 30, 30)][mjd % 4]
                add([mjd & 255] * 42, mjd & 0xFFFF, mjd, hh, mm, ss, mjd % 32, (mjd >> 5) & 1)
        outs = self.model(pre)
        ops = []
        nfault = 0
        for f, o in zip(meta, outs):
            if not o.startswith("ok "):
                continue
            pkt = unhx(o.split()[1])
            cni, mjd, hh, mm, ss, lto, neg = f
            ok = hh < 24 and mm < 60 and ss <= 60
            e1 = "ok %d" % cni
            e2 = "ok %d %d" % ((mjd - 40587) * 86400 + hh * 3600 + mm * 60 + ss, (-1 if neg else 1) * lto * 1800) if ok else "ok false"
            for op, e in (("p8301_cni " + hx(pkt), e1), ("p8301_time " + hx(pkt), e2)):
                ops.append(op); self._expect[op] = e
            if not ok or nfault > (400 if tier == "quick" else 20000):
                continue
            nfault += 1
            # every nibble of MJD / UTC made invalid in turn: 0 and 11..15 must be refused
            positions = [(12, 0)] + [(i, s) for i in range(13, 18) for s in (4, 0)]
            for (i, sh) in (positions if nfault <= 12 else rng.sample(positions, 2)):
                for v in ((0, 11, 12, 13, 14, 15) if nfault <= 12 else (rng.choice([0, 11, 15]),)):
                    bad = list(pkt); bad[i] = (bad[i] & ~(15 << sh) & 255) | (v << sh)
                    op = "p8301_time " + hx(bad)
                    ops.append(op); self._expect[op] = "ok false"
            # bits the decoder must ignore: byte 11 bits 0 and 7, byte 12 high nibble, all other bytes
            ign = list(pkt); ign[11] ^= rng.choice([0x01, 0x80, 0x81]); ign[12] ^= rng.randrange(16) << 4
            for i in list(range(0, 9)) + list(range(18, 42)):
                if rng.random() < 0.3: ign[i] = rng.randrange(256)
            op = "p8301_time " + hx(ign)
            ops.append(op); self._expect[op] = e2
        return chunks(ops, tier)

    def gen_8302(self, rng, tier):
        n = 600 if tier == "quick" else 6000
        pre, meta = [], []
        for i in range(n):
            fill = rbuf(rng, 42)
            if i < 16:      # each field alone at its maximum, all others zero; and all ones
                f = [0] * 8
                if i < 8: f[i] = [3, 1, 1, 3, 1, 0xFFFF, 0xFFFFF, 0xFF][i]
                elif i == 8: f = [3, 1, 1, 3, 1, 0xFFFF, 0xFFFFF, 0xFF]
                else: f = [rng.randrange(4), rng.randrange(2), rng.randrange(2), rng.randrange(4), rng.randrange(2),
                           1 << rng.randrange(16), 1 << rng.randrange(20), 1 << rng.randrange(8)]
                f = tuple(f)
            else:
                f = (rng.randrange(4), rng.randrange(2), rng.randrange(2), rng.randrange(4), rng.randrange(2),
                     edge(rng, 16, False), edge(rng, 20, False), edge(rng, 8, False))
            pre.append("spec_enc8302 %s %d %d %d %d %d %d %d %d" % ((hx(fill),) + f))
            meta.append(f)
        outs = self.model(pre)
        ops = []
        for idx, (f, o) in enumerate(zip(meta, outs)):
            if not o.startswith("ok "):
                continue
            pkt = unhx(o.split()[1])
            lci, luf, prf, pcs, mi, cni, pil, pty = f
            e1 = "ok %d" % cni
            e2 = "ok " + pid_line(lci, 3, cni, pil, luf, mi, prf, pcs, pty)
            for op, e in (("p8302_cni " + hx(pkt), e1), ("p8302_pdc " + hx(pkt), e2)):
                ops.append(op); self._expect[op] = e
            # single bit errors in the protected bytes 9..21 must not change anything
            full = idx < (3 if tier == "quick" else 40)
            flips = [(p, b) for p in range(9, 22) for b in range(8)]
            for (p, b) in (flips if full else rng.sample(flips, 3)):
                one = list(pkt); one[p] ^= 1 << b
                for op, e in (("p8302_pdc " + hx(one), e2), ("p8302_cni " + hx(one), e1)):
                    ops.append(op); self._expect[op] = e
            # one error in every protected byte at once is still corrected
            allone = list(pkt)
            for p in range(9, 22): allone[p] ^= 1 << rng.randrange(8)
            op = "p8302_pdc " + hx(allone); ops.append(op); self._expect[op] = e2
            # two errors in one byte are refused
            for _ in range(3):
                p = rng.randrange(9, 22); b1, b2 = rng.sample(range(8), 2)
                two = list(pkt); two[p] ^= (1 << b1) | (1 << b2)
                op = "p8302_pdc " + hx(two); ops.append(op); self._expect[op] = "ok false"
                if p not in (9, 14, 15, 20, 21):
                    op = "p8302_cni " + hx(two); ops.append(op); self._expect[op] = "ok false"
            # unprotected bytes are ignored
            ign = list(pkt)
            for i in list(range(0, 9)) + list(range(22, 42)):
                if rng.random() < 0.3: ign[i] = rng.randrange(256)
            op = "p8302_pdc " + hx(ign); ops.append(op); self._expect[op] = e2
        return chunks(ops, tier)

    def gen_random_packets(self, rng, tier):
        n = 2000 if tier == "quick" else 20000
        ops = []
        for _ in range(n):
            p = rbuf(rng, 42)
            k = rng.random()
            if k < 0.4:          # mostly decodable: random codewords / BCD+1 digits with a few faults
                for i in range(9, 22): p[i] = HAM8[rng.randrange(16)]
                if rng.random() < 0.5: p[rng.randrange(9, 22)] = rng.randrange(256)
            elif k < 0.8:
                p[12] = (p[12] & 0xF0) | rng.randrange(1, 11)
                for i in range(13, 18): p[i] = rng.randrange(1, 11) << 4 | rng.randrange(1, 11)
                if rng.random() < 0.5: p[15] = rng.choice([1, 2, 3]) << 4 | rng.randrange(1, 11)
                if rng.random() < 0.3:
                    i = rng.randrange(12, 18); p[i] = rng.randrange(256)
            ops += ["p8301_cni " + hx(p), "p8301_time " + hx(p), "p8302_pdc " + hx(p), "p8302_cni " + hx(p)]
        return chunks(ops, tier)

    def gen_malformed(self, rng, tier):
        """op lines both sides must reject the same way"""
        c = ["vps_dec_cni 00", "vps_dec_cni", "vps_dec_pdc zz", "vps_enc_cni %s" % ("00" * 13), "vps_enc_cni %s x" % ("00" * 13),
             "dvb_dec 6903", "dvb_enc 0000000000", "p8301_time " + "00" * 41, "p8302_pdc " + "00" * 43, "p8302_cni -",
             "vps_rt_cni %s" % ("00" * 13), "vps_rt_pdc %s 1 2 3" % ("00" * 13), "dvb_rt 00 1", "vps_reenc %s" % ("00" * 13),
             "vps_reenc %s 00" % ("00" * 13), "frobnicate 1 2", "ham8", "unham24p 0000", "unham16p 00", "rev8 x", "unpar 0"]
        return [c]

    def gen_cases(self, rng, tier):
        self._expect = {}
        cases = []
        cases += self.gen_tables(rng, tier)
        cases += self.gen_ham24(rng, tier)
        cases += self.gen_vps(rng, tier)
        cases += self.gen_8301(rng, tier)
        cases += self.gen_8302(rng, tier)
        cases += self.gen_random_packets(rng, tier)
        cases += self.gen_malformed(rng, tier)
        return cases

    def classify(self, case):
        for l in case:
            if not l.startswith("case"):
                return l.split()[0]
        return "empty"

    # -- oracle -------------------------------------------------------------------------
    def oracle(self, case, out):
        """the property itself on the C code's outputs"""
        if len(out) != len(case):
            return "output count %d != ops %d" % (len(out), len(case))
        exp = getattr(self, "_expect", {})
        for op, o in zip(case, out):
            k = op.split()[0] if op.split() else ""
            if "false-but-modified" in o:
                return "%s: refusal modified the output" % k
            e = exp.get(op)
            if e is not None and e != o:
                return "%s: sender-spec packet: expected '%s' got '%s'" % (k, e, o)
            r = expected(op)
            if r is not None and r != o and not o.startswith("rej"):
                what = "refused valid input" if o == "ok false" else ("accepted invalid input" if r == "ok false" else "wrong value or touched bits")
                return "%s: %s: reference '%s' got '%s'" % (k, what, r, o)
        return None

    def signature(self, case, what):
        return ":".join(what.split(":")[:2])

if __name__ == "__main__":
    verif.run_check(C12())
