#!/usr/bin/env python3
"""C12 - VPS, PDC and 8/30 codecs are exact inverses; bad input is rejected untouched."""
import os, subprocess, sys
sys.path.insert(0, os.path.join(os.path.dirname(os.path.abspath(__file__)), "..", "lib"))
import verif

def hx(bs): return "".join("%02x" % b for b in bs) or "-"
def rbuf(rng, n):
    k = rng.random()
    if k < 0.1: return [0] * n
    if k < 0.2: return [255] * n
    return [rng.randrange(256) for _ in range(n)]

def edge(rng, bits, over=True):
    """boundary-biased value of `bits` bits; sometimes out of range"""
    k = rng.random()
    top = (1 << bits) - 1
    if k < 0.08: return 0
    if k < 0.16: return top
    if over and k < 0.24: return top + 1 + rng.randrange(4)
    if over and k < 0.28: return rng.randrange(1 << 32)
    if k < 0.4: return 1 << rng.randrange(bits)
    return rng.randrange(top + 1)

class C12(verif.Spec):
    prop = "C12"
    comp = "codec"
    lean_modules = ["ZvbiModel.Props.C12"]
    harness = "codec_harness"
    harness_link_lib = True
    partial_note = ""
    assumptions = ["time_t is 64 bit (TIME_MIN/TIME_MAX never reached for 5-digit MJD)",
                   "callers pass buffers of the documented size (13/5/42 bytes)"]
    trusted_base = ["translate/gen_tables.py (Hamming tables; cross-checked op by op against the compiled tables)",
                    "harness/codec_harness.c + lean/Driver/Codec.lean (correspondence of the ten public functions)",
                    "Codec/Spec.lean enc8301/enc8302: my transcription of EN 300 706 9.8 / EN 300 231"]

    def model(self, lines):
        p = subprocess.run([verif.model_exe(), "codec"], input=("\n".join(lines) + "\n").encode(),
                           stdout=subprocess.PIPE, timeout=600)
        return p.stdout.decode().split("\n")

    def gen_cases(self, rng, tier):
        N = 1500 if tier == "quick" else 40000
        cases = []
        # 1. table layer, exhaustive over bytes
        c = []
        for v in range(256):
            c += ["rev8 %d" % v, "unham8 %d" % v, "par8 %d" % v, "unpar8 %d" % v]
        for v in range(16):
            c.append("ham8 %d" % v)
        cases.append(c)
        # 2. 24/18: encode, all 24 single flips, sampled doubles, random triplets
        c = []
        for _ in range(N // 30):
            v = edge(rng, 18, over=False)
            c.append("ham24p %d" % v)
        for _ in range(N // 3):
            c.append("unham24p " + hx(rbuf(rng, 3)))
            c.append("unham16p " + hx(rbuf(rng, 2)))
        cases.append(c)
        # 3. VPS / DVB encode + decode round trips (rt ops do enc then dec in one op)
        for _ in range(N // 10):
            c = []
            b = rbuf(rng, 13)
            cni = 0xDC3 if rng.random() < 0.1 else edge(rng, 12)
            pil, pcs, pty = edge(rng, 20), edge(rng, 2), edge(rng, 8)
            c.append("vps_enc_cni %s %d" % (hx(b), cni))
            c.append("vps_enc_pdc %s %d %d %d %d" % (hx(b), cni, pil, pcs, pty))
            c.append("vps_dec_cni " + hx(b))
            c.append("vps_dec_pdc " + hx(b))
            d = rbuf(rng, 5)
            c.append("dvb_enc %s %d" % (hx(d), pil))
            if rng.random() < 0.5: d[0] = 0x69
            if rng.random() < 0.5: d[1] = 3
            c.append("dvb_dec " + hx(d))
            cases.append(c)
        # 4. 8/30: packets from the Lean spec encoders, then faults
        pre, meta = [], []
        for _ in range(N // 10):
            fill = rbuf(rng, 42)
            if rng.random() < 0.5:
                f = (edge(rng, 16, False), rng.choice([0, 1, 9999, 40587, 58754, 99999, rng.randrange(100000)]),
                     rng.choice([0, 23, rng.randrange(24)]), rng.choice([0, 59, rng.randrange(60)]),
                     rng.choice([0, 59, 60, rng.randrange(61)]), rng.choice([0, 31, rng.randrange(32)]), rng.randrange(2))
                pre.append("spec_enc8301 %s %d %d %d %d %d %d %d" % ((hx(fill),) + f))
                meta.append(("8301", f))
            else:
                f = (rng.randrange(4), rng.randrange(2), rng.randrange(2), rng.randrange(4), rng.randrange(2),
                     edge(rng, 16, False), edge(rng, 20, False), edge(rng, 8, False))
                pre.append("spec_enc8302 %s %d %d %d %d %d %d %d %d" % ((hx(fill),) + f))
                meta.append(("8302", f))
        outs = self.model(pre)
        self._expect = {}
        for (kind, f), o in zip(meta, outs):
            if not o.startswith("ok "):
                continue
            pkt = bytes.fromhex(o.split()[1])
            c = []
            if kind == "8301":
                c.append("p8301_cni " + hx(pkt)); c.append("p8301_time " + hx(pkt))
                cni, mjd, hh, mm, ss, lto, neg = f
                exp = ["ok %d" % cni, "ok %d %d" % ((mjd - 40587) * 86400 + hh * 3600 + mm * 60 + ss, (-1 if neg else 1) * lto * 1800)]
                # invalid variants: a zero BCD digit or an out-of-range time must be refused
                bad = bytearray(pkt); pos = rng.choice([13, 14, 15, 16, 17])
                bad[pos] = bad[pos] & 0xF0 if rng.random() < 0.5 else (bad[pos] & 0x0F) | 0xC0
                c.append("p8301_time " + hx(bad)); exp.append("ok false")
            else:
                c.append("p8302_cni " + hx(pkt)); c.append("p8302_pdc " + hx(pkt))
                lci, luf, prf, pcs, mi, cni, pil, pty = f
                exp = ["ok %d" % cni, "ok pid %d 3 %d %d %d %d %d %d %d" % (lci, cni, pil, luf, mi, prf, pcs, pty)]
                # every single bit error in the protected bytes 9..21 must not change the result
                pos = rng.randrange(9, 22); bit = rng.randrange(8)
                one = bytearray(pkt); one[pos] ^= 1 << bit
                c.append("p8302_pdc " + hx(one)); exp.append(exp[1])
                two = bytearray(one); bit2 = (bit + 1 + rng.randrange(7)) % 8; two[pos] ^= 1 << bit2
                c.append("p8302_pdc " + hx(two)); exp.append("ok false")
            self._expect["\n".join(c)] = exp
            cases.append(c)
        # 5. malformed stream: random packets
        c = []
        for _ in range(N // 5):
            p = rbuf(rng, 42)
            c += ["p8301_time " + hx(p), "p8302_pdc " + hx(p), "p8302_cni " + hx(p)]
        cases.append(c)
        return cases

    def classify(self, case):
        return case[0].split()[0]

    def oracle(self, case, out):
        """the property itself on the C code's outputs"""
        if len(out) != len(case):
            return "output count %d != ops %d" % (len(out), len(case))
        for l in out:
            if "false-but-modified" in l:
                return "refusal modified the output"
        exp = getattr(self, "_expect", {}).get("\n".join(case))
        if exp is not None:
            for i, (e, o) in enumerate(zip(exp, out)):
                if e != o:
                    return "8/30 decode of spec-encoded packet: op %d expected '%s' got '%s'" % (i, e, o)
        if case and case[0].startswith("vps_enc_cni"):
            b = bytes.fromhex(case[0].split()[1]); cni = int(case[0].split()[2])
            pil, pcs, pty = [int(x) for x in case[1].split()[3:6]]
            o = out[0].split()
            if cni > 0xFFF:
                if out[0] != "ok false": return "vps_enc_cni accepted out-of-range cni"
            else:
                if o[1] == "false": return "vps_enc_cni refused valid cni"
                e = bytes.fromhex(o[1])
                for i in range(13):
                    mask = {8: 0xC0, 10: 0x03, 11: 0xFF}.get(i, 0)
                    if (e[i] ^ b[i]) & ~mask & 0xFF: return "vps_enc_cni changed bits outside its fields (byte %d)" % i
                dec = ((e[10] & 3) << 10) + ((e[11] & 0xC0) << 2) + (e[8] & 0xC0) + (e[11] & 0x3F)
                if dec != cni: return "vps cni round trip"
            o = out[1].split()
            valid = cni <= 0xFFF and pil <= 0xFFFFF and pcs <= 3 and pty <= 0xFF
            if not valid:
                if out[1] != "ok false": return "vps_enc_pdc accepted out-of-range value"
            else:
                if o[1] == "false": return "vps_enc_pdc refused valid values"
                e = bytes.fromhex(o[1])
                for i in range(13):
                    mask = {2: 0xC0, 8: 0xFF, 9: 0xFF, 10: 0xFF, 11: 0xFF, 12: 0xFF}.get(i, 0)
                    if (e[i] ^ b[i]) & ~mask & 0xFF: return "vps_enc_pdc changed bits outside its fields (byte %d)" % i
                dpil = ((e[8] & 0x3F) << 14) + (e[9] << 6) + (e[10] >> 2)
                if dpil != pil or (e[2] >> 6) != pcs or e[12] != pty: return "vps pdc round trip"
            # DVB descriptor
            d = bytes.fromhex(case[4].split()[1]); dp = int(case[4].split()[2])
            if dp > 0xFFFFF:
                if out[4] != "ok false": return "dvb_enc accepted out-of-range pil"
            else:
                e = bytes.fromhex(out[4].split()[1])
                if e[0] != 0x69 or e[1] != 3 or ((e[2] & 15) << 16) + (e[3] << 8) + e[4] != dp: return "dvb pdc round trip"
            dd = bytes.fromhex(case[5].split()[1])
            if (dd[0] != 0x69 or dd[1] != 3) and out[5] != "ok false": return "dvb_dec accepted wrong tag/length"
        return None

    def signature(self, case, what):
        return what.split(":")[0]

if __name__ == "__main__":
    verif.run_check(C12())
