#!/usr/bin/env python3
"""C19 - the proxy daemon withstands faulty clients; channel control is held by one client.

Real code: harness/proxy_harness.c runs the unmodified main loop of daemon/proxyd.c (one TU, select/time/alarm
interposed, fake capture device).  Model: lean/ZvbiModel/Proxy (driver `zvbi_model proxy`).  Both read the same op lines.
The generators adapt to the guards of the current tree (lib/proxy_util.guards): shapes that are known to abort the
unrepaired daemon are limited to a few representative cases there (they are KNOWN-FINDINGs with exact signatures), on
a repaired tree the whole fault stream runs.
"""
import os, random, re, sys, time
sys.path.insert(0, os.path.join(os.path.dirname(os.path.abspath(__file__)), "..", "lib"))
import verif
import proxy_util as pu

E = pu.Enc()
L = E.L
G = pu.guards()
H = pu.hexs
BG, INTER, REC = L["prio_BACKGROUND"], L["prio_INTERACTIVE"], L["prio_RECORD"]
F_REL, F_TOK, F_FLUSH, F_NORM, F_FAIL = L["f_RELEASE"], L["f_TOKEN"], L["f_FLUSH"], L["f_NORM"], L["f_FAIL"]
SVCS = [0x1, 0x4, 0x8, 0x400, 0x405, 0x40000000, 0xFFFFFFFF, 0]
IOCTLS = [(r, s) for (a, r, s, p) in L["ioctls"]]
TNAME = {L[k]: k[2:] for k in L if k.startswith("t_") and k != "t_COUNT"}


def decode_send(hexstr):
    """-> (type name, fields) of a COMPLETE, well-formed client message, else None"""
    try:
        b = bytes.fromhex(hexstr) if hexstr != "-" else b""
    except ValueError:
        return None
    if len(b) < 8:
        return None
    ln, ty = int.from_bytes(b[0:4], "big"), int.from_bytes(b[4:8], "big")
    if ln != len(b) or ty not in TNAME:
        return None
    body = b[8:]
    f = {}
    n = TNAME[ty]
    if n == "CHN_TOKEN_REQ" and len(body) == L["sz_token_req"]:
        f = {"prio": int.from_bytes(body[L["o_tok_prio"]:L["o_tok_prio"] + 4], "little"), "valid": body[L["o_tok_valid"]]}
    elif n == "CHN_NOTIFY_REQ" and len(body) == L["sz_notify_req"]:
        f = {"flags": int.from_bytes(body[L["o_ntf_flags"]:L["o_ntf_flags"] + 4], "little")}
    return n, f


class C19(verif.Spec):
    prop = "C19"
    comp = "proxy"
    lean_modules = ["ZvbiModel.Props.C19"]
    harness = "proxy_harness"
    harness_link_lib = True
    timeout_per_case = 0.5
    partial_note = ("Proved for the hand-written model of daemon/proxyd.c + src/proxy-msg.c (lean/ZvbiModel/Proxy): token exclusivity, "
                    "grants only to requesters, grant_only_after_return in the log form and no_fault hold for EVERY history of "
                    "model inputs and every scheduler pick; the token fields by construction (Core.Reach), the rest by induction "
                    "(LemmasLog, LemmasNF1-4). The guard flags of the model are read from the source. The process level (sockets, "
                    "select, malloc, the slicer queue buffers / reference counts of C18, the acquisition thread, TCP) is covered by "
                    "the correspondence run under ASan/UBSan, by the oracle and by the multi-process runtime stage only.")
    assumptions = ["POSIX stream sockets deliver bytes in order; a unix-domain connect() is accepted in FIFO order",
                   "the capture device grants services & supported, never raw services, and does not change while clients "
                   "are connected (io-v4l*.c are not part of the harness build)",
                   "single-threaded daemon (device with VBI_FD_HAS_SELECT); the acquisition-thread path is not exercised",
                   "a client's CHN_TOKEN_REQ counts as returning the token it held (src/proxy-client.c clears has_token when "
                   "it sends one)",
                   "errno after a recv() that returned 0 is pinned to EAGAIN in the harness (POSIX leaves it unspecified; "
                   "vbi_proxy_msg_handle_read derives *pBlocked from it)"]
    trusted_base = ["translate/gen_proxy.py + lib/proxy_util.py (layout probe compiled against the tree; textual guard flags, "
                    "cross-checked by `sizes` and by the corpus replays on both sides)",
                    "harness/proxy_harness.c, harness/proxy_fakecap.h, lean/Driver/Proxy.lean (correspondence)",
                    "the scheduler's comparison chain (codePick) is tied to the C loop by correspondence; the safety theorems hold "
                    "for any pick, the scheduler theorems are about codePick"]
    open_statements = []
    stats = {}
    extra_coverage = {"guards_of_tree": G, "stats": stats}
    rule = ("cases from corpus + seeded generators: valid multi-client sessions (sender spec lib/proxy_util.Enc) and a fault stream "
            "(truncation at every message/byte boundary, mutated fields, oversized lengths, silence, disconnects, time-outs); "
            "non-trivial = at least one daemon iteration produced a state line")

    def bump(self, k, n=1):
        self.stats[k] = self.stats.get(k, 0) + n

    # ---------------------------------------------------------------------------------------------
    # building blocks
    # ---------------------------------------------------------------------------------------------
    @staticmethod
    def snd(c, b):
        return "send %d %s" % (c, H(b))

    def recv_all(self, n):
        return ["recv %d" % i for i in range(n)]

    def rand_msg(self, rng, st):
        """a valid message for a client in FORWARD state (sender spec)"""
        k = rng.random()
        if k < 0.30:
            prio = rng.choice([BG, BG, BG, INTER, REC, 0, 7])
            return E.token(prio, rng.choice([1, 1, 1, 0]), rng.choice([0, 0x10, 0x10, 0x20, 0x30, 0x40]),
                           rng.choice([0, 1, 3, 10, 100]), rng.choice([0, 5]))
        if k < 0.55:
            fl = rng.choice([F_TOK, F_REL, F_TOK, F_REL, F_FLUSH, F_NORM, F_FAIL, F_TOK | F_FLUSH, F_REL | F_FLUSH, F_NORM | F_FLUSH, 0, 31])
            return E.notify(fl, rng.choice([0, 525, 625, 7]))
        if k < 0.68:
            return E.reclaim_cnf()
        if k < 0.80:
            return E.service(rng.choice(SVCS), rng.choice([-1, 0, 1, 2]), rng.choice([0, 0, 1]))
        if k < 0.88:
            r, s = rng.choice(IOCTLS)
            return E.ioctl(r, rng.choice([s, s, s, max(1, s - 1), 4]))
        if k < 0.93:
            return E.suspend()
        if k < 0.97:
            return E.ioctl(rng.randrange(1 << 32), rng.choice([1, 4, 8]))
        return E.close()

    def session(self, rng, nclients, steps, frames=True, two_dev=False):
        """a valid multi-client run; returns ops"""
        ops = []
        devs = [rng.randrange(2) if two_dev else 0 for _ in range(nclients)]
        alive = []
        pending_frames = 0
        for i in range(nclients):
            ops += ["connect %d" % devs[i], "iter"]
            ops += [self.snd(i, E.connect(services=rng.choice([0x4, 0x4, 0x405, 0x400, 0]), strict=rng.choice([-1, 0, 1, 2, 5, -7]),
                                         scanning=rng.choice([0, 0, 625, 525]), buffer_count=rng.choice([1, 5, 40]),
                                         flags=rng.choice([0, 0, 0, 2, 1]))), "iter", "iter"]
            alive.append(i)
        for _ in range(steps):
            k = rng.random()
            if not alive:
                break
            c = rng.choice(alive)
            if k < 0.62:
                ops.append(self.snd(c, self.rand_msg(rng, None)))
                if rng.random() < 0.25 and len(alive) > 1:
                    c2 = rng.choice(alive)
                    if c2 != c:
                        ops.append(self.snd(c2, self.rand_msg(rng, None)))
                ops += ["iter"] * rng.choice([1, 2, 2, 3])
                pending_frames = 0
            elif k < 0.72 and frames:
                if pending_frames < 5:
                    ops.append("frame %d %s" % (rng.choice(devs), ",".join(str(rng.choice([4, 4, 8, 0x400, 1])) for _ in range(rng.randrange(0, 6))) or "-"))
                    pending_frames += 1
                ops += ["iter", "iter"]
                pending_frames = 0
            elif k < 0.80:
                ops += ["tick %d" % rng.choice([1, 2, 5, 30, 61]), "iter"]
            elif k < 0.84:
                ops += ["alarm", "iter"]
            elif k < 0.90:
                ops += ["shut %d" % c, "iter", "iter"]
                alive.remove(c)
            else:
                ops += ["iter"]
            if rng.random() < 0.5:
                ops += self.recv_all(nclients)
        ops += ["iter", "iter"] + self.recv_all(nclients)
        return ops

    def burst_session(self, rng, nclients, rounds):
        """valid multi-client run where SEVERAL events (messages of different clients, a frame from the device, a
        disconnect, a half-close) fall into ONE select round: the daemon handles them in client-list order within one pass"""
        ops = []
        alive, half = [], set()
        for i in range(nclients):
            ops += ["connect 0", "iter"]
            ops += [self.snd(i, E.connect(services=rng.choice([0x4, 0x4, 0x405, 0x400, 0]), strict=rng.choice([-1, 0, 1, 2]),
                                         buffer_count=rng.choice([1, 5, 40]), flags=rng.choice([0, 0, 0, 2, 1]))), "iter", "iter"]
            alive.append(i)
        for _ in range(rounds):
            if not alive:
                break
            k = rng.choice([1, 2, 2, 3, 3, 4])
            who = rng.sample(alive, min(k, len(alive)))
            ev = []
            for c in who:
                r = rng.random()
                if r < 0.70:
                    if rng.random() < 0.25:
                        ev.append(self.snd(c, E.service(rng.choice([0, 0, 4, 0x400]), rng.choice([0, 1]), rng.choice([1, 1, 0]))))
                    else:
                        ev.append(self.snd(c, self.rand_msg(rng, None)))
                elif r < 0.80:
                    ev.append("shut %d" % c)
                    alive.remove(c)
                elif r < 0.90 and c not in half:
                    ev.append("shutrd %d" % c)
                    half.add(c)
                else:
                    ev.append("tick %d" % rng.choice([1, 3]))
            if rng.random() < 0.5:
                ev.append("frame 0 %s" % (",".join(str(rng.choice([4, 4, 8, 0x400, 1])) for _ in range(rng.randrange(0, 5))) or "-"))
            if rng.random() < 0.15:
                ev.append("alarm")
            rng.shuffle(ev)
            ops += ev + ["iter"] * rng.choice([1, 1, 2, 3])
            if rng.random() < 0.4:
                ops += self.recv_all(nclients)
        ops += ["iter", "iter"] + self.recv_all(nclients)
        return ops

    def handover_cases(self, quick):
        """directed, exhaustive over roles: three background clients; for EVERY assignment of the roles holder / waiter / third
        to the positions in the client list and every order of their sub-priorities, the holder's action X and another
        client's action Y arrive in ONE select round (the scheduler then runs twice within one pass over the list)"""
        import itertools
        cases = []
        n = 0
        for h, w, t in itertools.permutations(range(3)):
            for sph, spw, spt in itertools.product([0x10, 0x30], repeat=3):
                base = []
                for i in range(3):
                    base += ["connect 0", "iter", self.snd(i, E.connect(services=4)), "iter", "iter"]
                base += [self.snd(h, E.token(BG, 1, sph, 2)), "iter", "iter"] + self.recv_all(3)
                base += [self.snd(w, E.token(BG, 1, spw, 2)), "iter", "iter"] + self.recv_all(3)
                X = {"release": [self.snd(h, E.notify(F_REL))], "return": [self.snd(h, E.notify(F_TOK))],
                     "cnf": [self.snd(h, E.reclaim_cnf())], "shut": ["shut %d" % h], "shutrd": ["shutrd %d" % h],
                     "again": [self.snd(h, E.token(BG, 1, sph, 2))], "withdraw": [self.snd(h, E.token(BG, 0, 0, 0))],
                     "expire": ["tick 3", "alarm"], "none": []}
                Y = {"third-asks": [self.snd(t, E.token(BG, 1, spt, 2))], "waiter-again": [self.snd(w, E.token(BG, 1, spw, 2))],
                     "third-inter": [self.snd(t, E.token(INTER, 1, spt, 0))], "waiter-shut": ["shut %d" % w],
                     "waiter-withdraws": [self.snd(w, E.notify(F_REL))]}
                for xn, x in X.items():
                    for yn, y in Y.items():
                        n += 1
                        if quick and n % 2 != (h + sph // 16) % 2:
                            continue
                        c = list(base) + (x + y if n % 3 else y + x) + ["iter"] + self.recv_all(3) + ["iter", "iter"] + self.recv_all(3)
                        if xn not in ("shut", "shutrd", "cnf"):
                            c += [self.snd(h, E.reclaim_cnf()), "iter", "iter", "iter"] + self.recv_all(3)
                        c += ["tick 3", "alarm", "iter", "iter", "iter"] + self.recv_all(3)
                        cases.append(c)
        return cases

    def withdraw_cases(self):
        """a client that WAITS for the token withdraws (RELEASE notify, RELEASE+FLUSH, request with an invalid profile, request
        at another priority) in a round of its own; later the token gets free: the holder releases / returns / disconnects /
        is reclaimed by a third client / its reservation expires.  All list positions of holder, waiter, third."""
        import itertools
        cases = []
        n = 0
        for h, w, t in itertools.permutations(range(3)):
            for third_asks in (False, True):
                base = []
                for i in range(3):
                    base += ["connect 0", "iter", self.snd(i, E.connect(services=4)), "iter", "iter"]
                base += [self.snd(h, E.token(BG, 1, 0x20, 2)), "iter", "iter"] + self.recv_all(3)
                base += [self.snd(w, E.token(BG, 1, 0x20, 2)), "iter", "iter"] + self.recv_all(3)
                if third_asks:
                    base += [self.snd(t, E.token(BG, 1, 0x10, 2)), "iter", "iter"] + self.recv_all(3)
                W = [[self.snd(w, E.notify(F_REL))], [self.snd(w, E.notify(F_REL | F_FLUSH))], [self.snd(w, E.token(BG, 0, 0x20, 2))],
                     [self.snd(w, E.token(INTER, 1, 0x20, 2)), "iter", "iter", self.snd(w, E.token(BG, 0, 0, 0))],
                     [self.snd(w, E.notify(F_REL)), "iter", "iter", self.snd(w, E.token(BG, 1, 0x20, 2)), "iter", "iter", self.snd(w, E.notify(F_REL))]]
                X = [[self.snd(h, E.notify(F_REL))], [self.snd(h, E.notify(F_TOK))], ["shut %d" % h], ["shutrd %d" % h, "frame 0 4"],
                     [self.snd(t, E.token(BG, 1, 0x40, 2)), "iter", "iter", "iter"] + self.recv_all(3) + [self.snd(h, E.reclaim_cnf())],
                     ["tick 3", "alarm"], [self.snd(h, E.token(BG, 1, 0x20, 2))]]
                for wd in W:
                    for x in X:
                        n += 1
                        c = list(base) + wd + ["iter", "iter"] + self.recv_all(3) + x + ["iter", "iter", "iter"] + self.recv_all(3)
                        c += ["tick 3", "alarm", "iter", "iter", "iter"] + self.recv_all(3)
                        # the waiter asks again: must be served like any requester
                        c += [self.snd(w, E.token(BG, 1, 0x20, 2)), "iter", "iter", "iter"] + self.recv_all(3)
                        cases.append(c)
        return cases

    def service_frame_cases(self):
        """a frame from the device and a SERVICE_REQ become readable in the same select round (the frame is queued for the
        client before its message is read), for every kind of service change incl. dropping the last service of the device"""
        cases = []
        for nc in (1, 2):
            for reset in (0, 1):
                for sv in (0, 4, 0x400, 0x404):
                    for other in ((4, 0) if nc == 2 else (4,)):
                        c = []
                        for i in range(nc):
                            c += ["connect 0", "iter", self.snd(i, E.connect(services=4 if i == 0 else other)), "iter", "iter"]
                        for rnd in range(3):
                            c += ["frame 0 4,400,4", "iter", "iter"]
                            c += ["frame 0 4,4", self.snd(0, E.service(sv, 0, reset)), "iter", "iter"] + self.recv_all(nc)
                            c += [self.snd(0, E.service(4, 0, 0)), "iter", "iter", "frame 0 4", "iter", "iter"] + self.recv_all(nc)
                        cases.append(c)
        return cases

    def halfclose_cases(self):
        """a client that stops reading (shutdown(SHUT_RD)): every send() to it fails hard (EPIPE) although nothing can be read
        from it - for replies, indications, token messages and sliced data, next to two witnesses"""
        cases = []
        pre = ["connect 0", "iter", self.snd(0, E.connect(services=4)), "iter", "iter",
               "connect 0", "iter", self.snd(1, E.connect(services=0x404)), "iter", "iter", "connect 0", "iter"]
        con = [self.snd(2, E.connect(services=4)), "iter", "iter"]
        tail = ["iter", "iter", "frame 0 4,400", "iter", "iter", "frame 0 4", "iter", "iter"] + self.recv_all(3)
        shapes = [
            ["shutrd 2", self.snd(2, E.connect(services=4)), "iter", "iter"],                       # reply to the connect request fails
            con + ["shutrd 2", "frame 0 4,4,400", "iter", "iter"],                                   # sliced data to an idle client fails
            con + ["shutrd 2", "frame 0 4", "frame 0 4", "iter", "iter", "iter"],
            con + ["shutrd 2", self.snd(2, E.service(4, 0)), "iter", "iter"],
            con + ["shutrd 2", self.snd(2, E.token(BG, 1, 0x20, 2)), "iter", "iter", "iter"],        # TOKEN_CNF fails, token must be freed
            con + [self.snd(2, E.token(BG, 1, 0x20, 2)), "iter", "iter", "shutrd 2", self.snd(0, E.token(BG, 1, 0x40, 2)), "iter", "iter", "iter"],  # RECLAIM_REQ fails
            con + ["shutrd 2", self.snd(0, E.notify(F_FLUSH)), "iter", "iter", "iter"],              # CHANGE_IND fails
            con + ["shutrd 2", self.snd(0, E.notify(F_NORM, 525)), "frame 0 4", "iter", "iter", "iter"],
            con + ["shutrd 2", "shut 2", "frame 0 4", "iter", "iter"],
            con + ["shutrd 2", "frame 0 4", self.snd(2, E.close()), "iter", "iter"],
        ]
        for f in shapes:
            cases.append(pre + f + tail)
        return cases

    # ---------------------------------------------------------------------------------------------
    def token_alphabet_cases(self, quick):
        """small exhaustive: three background clients, every sequence of token actions of length <= 3 (4)"""
        base = []
        for i, sp in enumerate([0x10, 0x30, 0x30]):
            base += ["connect 0", "iter", self.snd(i, E.connect(services=4)), "iter", "iter"]
        acts = []
        for c in range(3):
            sp = [0x10, 0x30, 0x30][c]
            acts += [[self.snd(c, E.token(BG, 1, sp, 2))], [self.snd(c, E.notify(F_TOK))], [self.snd(c, E.notify(F_REL))],
                     [self.snd(c, E.reclaim_cnf())]]
        acts += [[self.snd(2, E.token(BG, 0, 0, 0))], [self.snd(1, E.token(INTER, 1, 0, 0))], ["shut 0"], ["shut 1"], ["tick 3", "alarm"],
                 [self.snd(1, E.token(BG, 0, 0, 0)), self.snd(2, E.token(BG, 1, 0x30, 2))], [self.snd(0, E.notify(F_FLUSH))]]
        cases = []
        import itertools
        depth = 3
        for seq in itertools.product(range(len(acts)), repeat=depth):
            if quick and (seq[0] * 7 + seq[1] * 3 + seq[2]) % 4 != 0:
                continue
            c = list(base)
            shut = set()
            okc = True
            for a in seq:
                for op in acts[a]:
                    w = op.split()
                    if w[0] in ("send", "shut") and int(w[1]) in shut:
                        okc = False
                    if w[0] == "shut":
                        shut.add(int(w[1]))
                    c.append(op)
                c += ["iter", "iter"] + self.recv_all(3)
            if okc:
                cases.append(c + ["iter"] + self.recv_all(3))
        return cases

    def crashes_unfixed(self, kind):
        """is this fault shape known to abort the daemon of the current (unrepaired) tree?"""
        return {"partial": not G["idleAssertsRemoved"], "badlen": not (G["readLenGuard"] and G["idleAssertsRemoved"]),
                "strict": not G["svcStrictClamp"], "tokret": not G["tokenReturnGuard"],
                "flush": not G["flushNullGuard"]}[kind]

    def fault_cases(self, rng, quick):
        """valid sessions with one faulty client: truncation at byte boundaries, mutated fields, bad lengths, silence"""
        cases = []
        msgs = {"connect": E.connect(services=4), "service": E.service(4, 0), "token": E.token(BG, 1, 0x20, 3),
                "notify": E.notify(F_TOK), "ioctl": E.ioctl(IOCTLS[0][0], IOCTLS[0][1]), "reclaim": E.reclaim_cnf(), "close": E.close()}

        def scene(fault_ops, with_frames=True):
            """two witnesses (c0 holds the token, c1 asks for it) + fault client c2 on the same device"""
            c = ["connect 0", "iter", self.snd(0, E.connect(services=4)), "iter", "iter",
                 "connect 0", "iter", self.snd(1, E.connect(services=0x404)), "iter", "iter",
                 self.snd(0, E.token(BG, 1, 0x10, 2)), "iter", "iter", "connect 0", "iter"]
            c += fault_ops
            if with_frames:
                c += ["frame 0 4,400,4", "iter", "iter"]
            c += [self.snd(1, E.token(BG, 1, 0x30, 2)), "iter", "iter", "iter", self.snd(0, E.reclaim_cnf()), "iter", "iter", "iter"]
            if with_frames:
                c += ["frame 0 4,4", "iter", "iter"]
            c += ["tick 61", "iter", "iter", "tick 61", "iter", "iter"] + self.recv_all(3)
            return c

        budget_partial = [3 if self.crashes_unfixed("partial") else 10 ** 9]
        budget_badlen = [3 if self.crashes_unfixed("badlen") else 10 ** 9]

        def add(kind, fault_ops):
            if kind == "partial":
                if budget_partial[0] <= 0:
                    return
                budget_partial[0] -= 1
            if kind == "badlen":
                if budget_badlen[0] <= 0:
                    return
                budget_badlen[0] -= 1
            cases.append(scene(fault_ops))
            self.bump("fault_" + kind)

        # 1. truncation: the connect request cut at every (quick: every 7th + edges) byte, then silence / disconnect / rest later
        for name in (["connect", "token", "service"] if quick else list(msgs)):
            m = msgs[name]
            pre = [] if name == "connect" else [self.snd(2, msgs["connect"]), "iter", "iter"]
            cuts = sorted(set(list(range(0, 13)) + list(range(13, len(m), 7 if quick else 1)) + [len(m) - 1]))
            for k in cuts:
                if k >= len(m):
                    continue
                kind = "partial" if 0 < k else "silence"
                tail = rng.choice(["silence", "shut", "rest", "rest2"])
                f = pre + ([self.snd(2, m[:k])] if k else []) + ["iter", "iter"]
                if tail == "shut":
                    f += ["shut 2", "iter", "iter"]
                elif tail == "rest":
                    f += [self.snd(2, m[k:]), "iter", "iter", "iter"]
                elif tail == "rest2" and len(m) - k > 2:
                    mid = k + (len(m) - k) // 2
                    f += [self.snd(2, m[k:mid]), "iter", self.snd(2, m[mid:]), "iter", "iter", "iter"]
                add(kind, f)
        # 2. length field: oversized, undersized, off by one
        for name in ["connect", "service", "token", "notify", "close"]:
            m = msgs[name]
            ty = int.from_bytes(m[4:8], "big")
            pre = [] if name == "connect" else [self.snd(2, msgs["connect"]), "iter", "iter"]
            for ln in [0, 1, 7, L["msg"] + 1, 0xFFFFFFFF, 0x80000000, 2000]:
                body = m[8:] + (bytes(2500) if ln < 8 else b"")
                add("badlen", pre + [self.snd(2, E.hdr(ty, ln) + body), "iter", "iter"])
            for ln in [len(m) - 1, len(m) + 1, 8, L["msg"]]:
                if ln == len(m):
                    continue
                # legal header length but wrong for the type; on an unrepaired tree send exactly ln bytes (no partial read)
                b = (E.hdr(ty, ln) + m[8:] + bytes(1200))[:ln]
                add("wronglen", pre + [self.snd(2, b), "iter", "iter", "iter"])
        # 3. type field: server->client types, unknown types, right type in the wrong state
        for ty in list(range(0, L["t_COUNT"] + 2)) + [0xFFFFFFFF, 255]:
            for st in ("wait", "fwd"):
                pre = [] if st == "wait" else [self.snd(2, msgs["connect"]), "iter", "iter"]
                for proto in (["service"] if quick else ["service", "close", "token"]):
                    m = msgs[proto]
                    add("type", pre + [self.snd(2, E.hdr(ty, len(m)) + m[8:]), "iter", "iter", "iter"])
        # 4. magic / endianness / version
        for kw in [dict(magic=b"LIBZVBI VBIPROXZ"), dict(endian=L["endian_mismatch"]), dict(endian=0x12345678), dict(compat=0x101), dict(compat=0),
                   dict(magic=b"\0" * 16)]:
            add("magic", [self.snd(2, E.connect(services=4, **kw)), "iter", "iter", "iter"])
        add("magic", [self.snd(2, E.pid_req()), "iter", "iter", "iter"])
        add("magic", [self.snd(2, E.pid_req(endian=L["endian_mismatch"])), "iter", "iter"])
        # 5. field values
        pre = [self.snd(2, msgs["connect"]), "iter", "iter"]
        for strict in [-128, -2, -1, 0, 2, 3, 4, 32, 33, 100, 127]:
            add("field", [self.snd(2, E.connect(services=4, strict=strict)), "iter", "iter"])
            inr = -1 <= strict <= 2
            if inr or G["svcStrictClamp"] or strict >= 40:
                # without the clamp only values ASan can see are sent (inside the record the write corrupts silently)
                if inr or G["svcStrictClamp"] or strict == 127 or not quick:
                    add("field" if (inr or G["svcStrictClamp"]) else "strict", pre + [self.snd(2, E.service(4, strict)), "iter", "iter", "iter"])
        for bc in [0, 1, 255]:
            add("field", [self.snd(2, E.connect(services=4, buffer_count=bc)), "iter", "iter"])
        for sv in [0, 0xFFFFFFFF, 0x60000000, 0x80000000]:
            add("field", pre + [self.snd(2, E.service(sv, 1, 1)), "iter", "iter", "iter"])
        for prio in [0, 1, 2, 3, 4, 0x7FFFFFFF, 0x80000000, 0xFFFFFFFF]:
            for md in [0, -1, 2 ** 62, -2 ** 63, 2 ** 63 - 1]:
                add("field", pre + [self.snd(2, E.token(prio, 1, 0xFF, md)), "iter", "iter", "tick 2", "alarm", "iter", "iter"])
        for fl in range(0, 32):
            kind = "field"
            if (fl & F_TOK) and not (fl & F_REL) and self.crashes_unfixed("tokret"):
                continue    # exercised by the corpus replay and by token_alphabet_cases
            add(kind, pre + [self.snd(2, E.notify(fl, 625)), "iter", "iter", "iter"])
        # 6. silence then disconnect, time-outs in WAIT_CON_REQ
        add("silence", ["tick 59", "iter", "tick 2", "iter", "iter"])
        add("silence", ["tick 200", "iter", "iter"])
        add("silence", ["shut 2", "iter", "iter"])
        if not self.crashes_unfixed("partial"):
            add("partial", [self.snd(2, msgs["connect"][:5]), "iter", "tick 59", "iter", "tick 2", "iter", "iter"])
            add("partial", [self.snd(2, msgs["connect"][:50]), "iter", "tick 61", "iter", "iter"])
        return cases

    def gen_cases(self, rng, tier):
        quick = tier == "quick"
        cases = [["sizes"]]
        cases += self.token_alphabet_cases(quick)
        self.bump("alphabet", len(cases) - 1)
        n0 = len(cases)
        cases += self.fault_cases(rng, quick)
        self.bump("fault", len(cases) - n0)
        # valid sessions; without the token-return guard a TOKEN notify by a non-owner can abort the daemon: fewer, shorter runs
        N = (250 if quick else 8000)
        for i in range(N):
            nc = rng.choice([1, 2, 3, 3, 4, 5])
            cases.append(self.session(rng, nc, rng.choice([6, 10, 20]) if quick else rng.choice([10, 30, 60]), two_dev=(i % 3 == 0)))
        self.bump("sessions", N)
        # several events of different clients in one select round; directed hand-over / service / half-close shapes
        N = (250 if quick else 6000)
        for i in range(N):
            cases.append(self.burst_session(rng, rng.choice([1, 2, 3, 3, 3, 4]), rng.choice([5, 8, 12]) if quick else rng.choice([10, 25])))
        self.bump("burst_sessions", N)
        n0 = len(cases)
        cases += self.handover_cases(quick)
        self.bump("handover", len(cases) - n0)
        n0 = len(cases)
        cases += self.service_frame_cases() + self.halfclose_cases()
        self.bump("service_frame+halfclose", len(cases) - n0)
        n0 = len(cases)
        cases += self.withdraw_cases()
        self.bump("withdraw", len(cases) - n0)
        # device variants
        for cfgl in ["dev 0 0x405 1 525 0", "dev 0 0 2 625 625", "dev 0 0xffffffff 0 625 625", "dev 0 0x4 2 625 -1", "dev 1 0x400 2 525 525"]:
            for _ in range(6 if quick else 40):
                cases.append([cfgl] + self.session(rng, rng.choice([1, 2, 3]), 8, two_dev=True))
        # connection limits
        cases.append(["maxconn 2"] + ["connect 0"] * 4 + ["iter"] * 5 + ["shut 0", "iter", "iter", "iter"] + self.recv_all(4))
        cases.append(["connect 0"] * 9 + ["connect 1"] * 8 + ["iter"] * 12 + ["connect 0"] * 2)
        # malformed op lines
        bad = ["connect", "connect 2", "connect -1", "send 0", "send 0 zz", "send 0 abc", "send 99 00", "send -1 00", "shut 99", "recv 99", "recv x",
               "shutrd", "shutrd 99", "shutrd x", "tick", "tick -1", "tick 1000001", "maxconn 65", "dev 0 1 2 3", "dev 2 0 0 0 0", "frame 0", "frame 2 1", "frame 0 1,x", "iter 1",
               "alarm 2", "frob", "sizes 1", "frame 0 " + ",".join(["1"] * 32), "dev 0 4 2 625 625"]
        for _ in range(4 if quick else 30):
            c = ["connect 0", "iter"]
            for _ in range(14):
                c.append(rng.choice(bad) if rng.random() < 0.7 else rng.choice(["iter", "recv 0", "send 0 -"]))
            cases.append(c)
        return cases

    def classify(self, case):
        if case == ["sizes"]:
            return "sizes"
        if case and case[0].startswith("dev "):
            return "device-variant"
        n = sum(1 for l in case if l.startswith("connect"))
        sends = [l.split()[2] for l in case if l.startswith("send ") and len(l.split()) == 3]
        bad = sum(1 for x in sends if decode_send(x) is None)
        if bad:
            return "fault-stream"
        return "session-%dclients" % min(n, 5)

    def nontrivial(self, case, out):
        return any(l.startswith("ok n=") for l in out)

    # ---------------------------------------------------------------------------------------------
    # the property on the real code's output (no use of the model)
    # ---------------------------------------------------------------------------------------------
    def oracle(self, case, out):
        if len(out) != len(case):
            return "daemon stopped answering: %d outputs for %d ops" % (len(out), len(case))
        dev_of = {}
        nh = 0
        holds = {}          # handle -> True while the client believes it holds the token (grant message received)
        treq = {}           # handle -> for every TOKEN_REQ sent: did it ask for channel control (valid profile, background)?
        ncnf = {}           # handle -> TOKEN_CNFs received (the k-th answers the k-th request)
        reclaimed = {}
        cnf_early = {}
        deferred = {}           # holder -> alarm text waiting for the holder's next read (see below)
        askq = {}           # handle -> sends that change "asks for channel control", not yet answered, in send order:
                            #           ["T", asked] token request, ["N", release] notify (RELEASE withdraws the request)
        asks = {}           # handle -> does the client ask for channel control, as far as the daemon has ANSWERED its messages
        fifo = {}           # handle -> requests not yet answered: 'T' token request, 'F' notify that returns/releases, 'n' other notify
        gone = set()
        for op, o in zip(case, out):
            w = op.split()
            if not w:
                continue
            if o.startswith("rej") or o == "dead":
                continue
            if w[0] == "connect":
                m = re.match(r"ok c(\d+)$", o)
                if m:
                    dev_of[int(m.group(1))] = int(w[1])
                    nh += 1
            elif w[0] == "send" and len(w) == 3:
                try:
                    c = int(w[1])
                except ValueError:
                    continue
                d = decode_send(w[2])
                if d and o.startswith("ok") and o != "ok lost":
                    n, f = d
                    if n == "CHN_TOKEN_REQ":
                        fifo.setdefault(c, []).append("T")
                        holds[c] = False
                        treq.setdefault(c, []).append(f.get("valid", 0) != 0 and f.get("prio") == BG)
                        askq.setdefault(c, []).append(["T", f.get("valid", 0) != 0 and f.get("prio") == BG])
                    elif n == "CHN_NOTIFY_REQ" and not (f.get("flags", 0) & (F_TOK | F_REL)):
                        fifo.setdefault(c, []).append("n")
                        askq.setdefault(c, []).append(["N", False])
                    elif n == "CHN_NOTIFY_REQ":
                        fifo.setdefault(c, []).append("F")
                        holds[c] = False
                        askq.setdefault(c, []).append(["N", bool(f.get("flags", 0) & F_REL)])
                    elif n == "CHN_RECLAIM_CNF":
                        if reclaimed.get(c):
                            holds[c] = False
                        else:
                            cnf_early[c] = True     # sent before the client looked at its socket: may cross a RECLAIM_REQ
                    elif n == "CLOSE_REQ":
                        holds[c] = False
                        gone.add(c)
            elif w[0] in ("shut", "shutrd") and o == "ok":      # a client that stopped reading can act on nothing it is sent
                try:
                    holds[int(w[1])] = False
                    gone.add(int(w[1]))
                except ValueError:
                    pass
            elif w[0] == "recv":
                msgs = pu.parse_recv(o)
                if msgs is None:
                    continue
                c = int(w[1])
                for m in msgs:
                    if m.startswith("SLICED") and not m.endswith(":ok1"):
                        return "witness data damaged: client %d received %s" % (c, m)
                    if m.startswith("BADLEN") or m.startswith("PARTIAL") or m.startswith("MSG"):
                        return "client %d received a malformed message: %s" % (c, m)
                    if m.startswith("RECLAIM_REQ"):
                        reclaimed[c] = True
                        if cnf_early.get(c):
                            holds[c] = False
                    if m == "EOF":
                        holds[c] = False
                        gone.add(c)
                    if m.startswith("TOKEN_CNF"):
                        ncnf[c] = ncnf.get(c, 0) + 1
                        if "T" in fifo.get(c, []):
                            fifo[c].remove("T")
                        for k, e in enumerate(askq.get(c, [])):
                            if e[0] == "T":
                                asks[c] = e[1]
                                del askq[c][k]
                                break
                    if m.startswith("NOTIFY_CNF"):
                        q = fifo.get(c, [])
                        for k, x in enumerate(q):
                            if x in ("F", "n"):
                                del q[k]
                                break
                        for k, e in enumerate(askq.get(c, [])):
                            if e[0] == "N":
                                if e[1]:
                                    asks[c] = False     # CHN_NOTIFY_REQ(RELEASE) revokes the request, with or without the token
                                del askq[c][k]
                                break
                    if m.startswith("TOKEN_IND") or m.startswith("TOKEN_CNF:20:ind1"):
                        d = dev_of.get(c)
                        # a grant that crossed a later request of the same client which gives the token back is void on
                        # arrival; its place in the global order of grants is unknown (per-client streams only): skip it
                        stale = any(x in ("T", "F") for x in fifo.get(c, []))
                        for a, hv in holds.items():
                            if hv and a != c and dev_of.get(a) == d and a not in gone and not stale and c not in gone:
                                wmsg = ("grant to client %d while client %d holds the token (no return, release, reclaim "
                                        "confirmation or disconnect of %d since its grant)" % (c, a, a))
                                if cnf_early.get(a):
                                    # the holder has sent a RECLAIM_CNF without looking at its socket first: the RECLAIM_REQ
                                    # it answers may still be unread there (per-client streams, no global order).  Judged
                                    # when the holder reads next: a RECLAIM_REQ must be in that batch.
                                    deferred[a] = wmsg
                                    continue
                                return wmsg
                        # the daemon decided after the request answered last and possibly after later ones
                        rq = treq.get(c, [])
                        k = ncnf.get(c, 0)
                        cand = rq[k - 1:k] if m.startswith("TOKEN_CNF") else rq[max(k - 1, 0):]
                        if not any(cand):
                            return "grant to client %d which did not ask for channel control" % c
                        # the daemon answers a client's messages in order and writes TOKEN_IND only to an idle connection:
                        # what it had processed when it wrote the grant is exactly what it has answered before it in the
                        # stream.  The client must ask at that point (last answered token request valid at background
                        # priority, not revoked by an answered RELEASE) or have a valid request on the way.
                        if m.startswith("TOKEN_IND") and not asks.get(c, False) and \
                                not any(e[0] == "T" and e[1] for e in askq.get(c, [])):
                            return "grant to client %d that does not currently ask for channel control (it withdrew its request)" % c
                        holds[c] = not stale and c not in gone     # a log read after the client's own disconnect is history
                        reclaimed[c] = False
                if c in deferred:
                    wmsg = deferred.pop(c)
                    if not any(m.startswith("RECLAIM_REQ") or m == "EOF" for m in msgs):
                        return wmsg
                # a RECLAIM_CNF sent before this read may answer any RECLAIM_REQ in the batch, also one behind a TOKEN_IND
                cnf_early[c] = False
            elif w[0] == "iter":
                st = pu.parse_state(o)
                if st is None:
                    return "unreadable state line"
                per = {}
                for cl in st["clients"]:
                    if cl["tok"].startswith("?"):
                        return "token state of client %d corrupted (%s)" % (cl["h"], cl["tok"])
                    if cl["tok"] != "N":
                        per.setdefault(cl["dev"], []).append(cl)
                for d, lst in per.items():
                    if len(lst) > 1:
                        return "two clients of device %d have a token state: %s" % (d, " ".join("c%d:%s" % (x["h"], x["tok"]) for x in lst))
        return None

    def signature(self, case, what):
        w = what
        w = re.sub(r"client \d+", "client N", w)
        w = re.sub(r"\bof \d+ since", "of N since", w)
        m = re.match(r"two clients of device \d+ have a token state: (.*)", w)
        if m:
            sts = sorted(x.split(":")[1] for x in m.group(1).split())
            # the token-return defect always shows a RETURNED client next to another owner
            return "two clients of a device have a token state, one of them RETURNED" if "RT" in sts else \
                   "two clients of a device have a token state: " + " ".join(sts)
        w = re.sub(r"c\d+:", "cN:", w)
        w = re.sub(r"\d+ outputs for \d+ ops", "N outputs for M ops", w)
        w = re.sub(r"stopped after \d+ ops", "stopped after N ops", w)
        if w.startswith("runtime stage:"):
            w = re.sub(r"\d+", "N", w)
        w = re.sub(r"aborts at op \d+", "aborts at op N", w)
        w = re.sub(r"WRITE of size \d+", "WRITE", w)
        w = re.sub(r"on address \S+ at pc \S+ bp \S+ sp \S+", "", w)
        w = re.sub(r"\s+", " ", w).strip()
        return w[:200]

    # ---------------------------------------------------------------------------------------------
    def extra_checks(self, ctx):
        """(1) the model predicts a daemon abort exactly where the harness crashed; (2) a faulty client does not change
        what the witnesses receive: same schedule with the fault client's damage replaced by silence / a disconnect"""
        res = []
        cases, io, mo = ctx["cases"], ctx["impl_out"], ctx["model_out"]
        n_abort = 0
        for i, c in enumerate(cases):
            m = mo.get(i, [])
            o = io.get(i, [])
            mab = next((k for k, l in enumerate(m) if l.startswith("abort")), None)
            crashed = len(o) < len(c)
            if mab is not None:
                n_abort += 1
            if mo and (mab is not None) != crashed and len(m) == len(c):
                res.append(("model and daemon disagree about an abort: model %s, daemon %s" %
                            ("aborts at op %d (%s)" % (mab, m[mab]) if mab is not None else "survives",
                             "stopped after %d ops" % len(o) if crashed else "survives"), c))
                if len(res) > 3:
                    break
        self.stats["model_aborts_predicted"] = n_abort
        # (2) differential witness runs
        rng = ctx["rng"]
        pairs = []
        for i, c in enumerate(cases):
            if self.classify(c) != "fault-stream" or len(io.get(i, [])) != len(c):
                continue
            base = self.baseline_of(c)
            if base is not None:
                pairs.append((i, c, base))
        if ctx["tier"] == "quick" and len(pairs) > 400:
            pairs = [pairs[k] for k in sorted(rng.sample(range(len(pairs)), 400))]
        if pairs and ctx["hcmd"]:
            outs, inc = verif.run_side(ctx["hcmd"], [p[2] for p in pairs], self.timeout_per_case)
            bad_inc = {x["case"] for x in inc}
            n = 0
            for k, (i, c, base) in enumerate(pairs):
                if k in bad_inc:
                    res.append(("baseline run crashed", base))
                    continue
                a = self.witness_logs(c, io.get(i, []))
                b = self.witness_logs(base, outs.get(k, []))
                n += 1
                if a != b:
                    res.append(("a faulty client changed what the witnesses received: %r vs %r" % (a, b), c))
                    if len(res) > 3:
                        break
            self.stats["witness_pairs_compared"] = n
        # (3) runtime stage (support, not proof): the real daemon as a process with real select/time/alarm, two witness
        # processes built from src/proxy-client.c, one raw-socket fault client; lock-step frames (lib/proxy_util.py mp_*)
        if not ctx.get("replay") and os.environ.get("VERIF_C19_RUNTIME", "1") != "0":
            t0 = time.time()
            quick = ctx["tier"] == "quick"
            exes, err = pu.mp_build(verif)
            if exes is None:
                res.append(("runtime stage does not build: " + (err or "")[-600:], ["sizes"]))
            else:
                n = 5 if quick else 40
                fails = pu.mp_run_schedules(verif, pu, random.Random(rng.randrange(1 << 30)), n, 25 if quick else 300, exes=exes)
                self.stats["runtime_schedules"] = n
                for what, detail in fails[:2]:
                    res.append(("runtime stage: " + what, ["# " + l for l in detail[-120:]] + ["sizes"]))
            self.stats["runtime_wall_s"] = round(time.time() - t0, 1)
        return res

    def baseline_of(self, case):
        """the same schedule where client 2's first damaged send is replaced by a disconnect (when the daemon must drop
        the connection for it) - only for damage every correct daemon rejects: undecodable message"""
        out = []
        done = False
        for l in case:
            w = l.split()
            if not done and w[0] == "send" and w[1] == "2" and decode_send(w[2]) is None:
                b = bytes.fromhex(w[2]) if w[2] != "-" else b""
                ln = int.from_bytes(b[0:4], "big") if len(b) >= 8 else None
                if ln is not None and (ln < 8 or ln > L["msg"]):
                    out.append("shut 2")        # illegal length: dropped at once
                    done = True
                    continue
                return None                     # partial / later completed: legal behaviours differ in time
            if done and w[0] in ("send", "shut", "recv") and len(w) > 1 and w[1] == "2":
                out.append("recv 1" if w[0] != "recv" else l)   # keep the op count; client 2 is gone
                continue
            out.append(l)
        return out if done else None

    def witness_logs(self, case, out):
        logs = {0: [], 1: []}
        for op, o in zip(case, out):
            w = op.split()
            if w[0] == "recv" and w[1] in ("0", "1") and o.startswith("ok"):
                logs[int(w[1])] += [m for m in (pu.parse_recv(o) or [])]
        return logs


if __name__ == "__main__":
    verif.run_check(C19())
